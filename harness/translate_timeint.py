"""Fail-closed translator: Python source of the packed-integer decoders -> Gallina over Z.

    time_from_timeint(t)                       -> Definition py_time_from_timeint (v_t : Z) : Z          (seconds)
    date_from_dateint(t)                       -> Definition py_date_from_dateint (v_t : Z) : Z * Z * Z  (year, month, day)
    datetime_from_time_and_date_integers(d, t) -> Definition py_datetime_from_ints (v_d v_t : Z) : (Z*Z*Z) * Z
                                                  ("that UTC date plus that many seconds")

The functions are parsed with `ast` from <repo>/src/ocean_science_utilities/tools/time.py on every run.
Accepted grammar (anything else raises Refuse, the caller then reports the proof as broken):

  module   : `from datetime import datetime, timezone, timedelta` must bind the three names and nothing else
             at module level may rebind them, nor the three function names
  function : positional parameters only (the third function may have the keyword `as_datetime64=False`),
             no decorators, optional docstring
  stmt     : NAME = expr | if cmp: stmts [elif ...] [else: stmts] | return <final call>
  expr     : NAME (assigned on every path before use) | non-negative int literal | expr (+|-|*) expr |
             expr // LIT | expr % LIT   (LIT a positive int literal: Z.div / Z.modulo are Python's floor
             division and modulo for a positive divisor, for every sign of the dividend) | -expr
  cmp      : expr (>= | > | < | <= | ==) expr        (a single comparison)
  final    : timedelta(seconds=expr)  [hours= / minutes= / seconds=, each at most once]   for time_from_timeint
             datetime(expr, expr, expr, tzinfo=timezone.utc)  [or year= month= day=]     for date_from_dateint
  third    : dt = date_from_dateint(P1) + time_from_timeint(P2);
             if as_datetime64: return to_datetime64(dt)  else: return dt

An `if` is translated with the rest of the block duplicated into both branches, so Python's sequential
assignment (including re-assignment of a name, which becomes a shadowing `let`) is kept exactly.
"""
import ast
import os

REL = os.path.join("src", "ocean_science_utilities", "tools", "time.py")
OUT_REL = os.path.join("coq", "Generated", "TimeInt.v")


class Refuse(Exception):
    """construct outside the accepted grammar"""


def _refuse(node, what):
    raise Refuse("unsupported construct at line %s: %s" % (getattr(node, "lineno", "?"), what))


_BIN = {ast.Add: "+", ast.Sub: "-", ast.Mult: "*"}
_CMP = {ast.GtE: ">=?", ast.Gt: ">?", ast.Lt: "<?", ast.LtE: "<=?", ast.Eq: "=?"}


def _expr(e, env):
    if isinstance(e, ast.Name):
        if not isinstance(e.ctx, ast.Load) or e.id not in env:
            _refuse(e, "name %r is not a parameter or a variable assigned on every path" % e.id)
        return "v_" + e.id
    if isinstance(e, ast.Constant):
        if type(e.value) is not int or e.value < 0:
            _refuse(e, "constant %r (only non-negative int literals)" % (e.value,))
        return str(e.value)
    if isinstance(e, ast.UnaryOp) and isinstance(e.op, ast.USub):
        return "(- %s)" % _expr(e.operand, env)
    if isinstance(e, ast.BinOp):
        if type(e.op) in _BIN:
            return "(%s %s %s)" % (_expr(e.left, env), _BIN[type(e.op)], _expr(e.right, env))
        if isinstance(e.op, (ast.FloorDiv, ast.Mod)):
            r = e.right
            if not (isinstance(r, ast.Constant) and type(r.value) is int and r.value > 0):
                _refuse(e, "divisor of // or % must be a positive int literal")
            return "(%s %s %d)" % (_expr(e.left, env), "/" if isinstance(e.op, ast.FloorDiv) else "mod", r.value)
        _refuse(e, "binary operator %s" % type(e.op).__name__)
    _refuse(e, "expression %s" % type(e).__name__)


def _cmp(t, env):
    if not (isinstance(t, ast.Compare) and len(t.ops) == 1 and len(t.comparators) == 1):
        _refuse(t, "condition must be a single comparison")
    if type(t.ops[0]) not in _CMP:
        _refuse(t, "comparison operator %s" % type(t.ops[0]).__name__)
    return "(%s %s %s)" % (_expr(t.left, env), _CMP[type(t.ops[0])], _expr(t.comparators[0], env))


def _is_utc(e):
    return (isinstance(e, ast.Attribute) and e.attr == "utc" and isinstance(e.value, ast.Name)
            and e.value.id == "timezone")


def _final(call, env, kind):
    if not (isinstance(call, ast.Call) and isinstance(call.func, ast.Name)):
        _refuse(call, "return value must be a direct call")
    if kind == "time":
        # timedelta(seconds=e) or any of hours= / minutes= / seconds= (each at most once): total seconds
        weights = {"hours": 3600, "minutes": 60, "seconds": 1}
        seen = [k.arg for k in call.keywords]
        if call.func.id != "timedelta" or call.args or not seen or len(set(seen)) != len(seen) \
                or any(k not in weights for k in seen):
            _refuse(call, "expected timedelta(seconds=<expr>) (hours= / minutes= also accepted)")
        terms = []
        for k in call.keywords:
            e = _expr(k.value, env)
            terms.append(e if weights[k.arg] == 1 else "(%s * %d)" % (e, weights[k.arg]))
        return terms[0] if len(terms) == 1 else "(" + " + ".join(terms) + ")"
    # datetime(y, m, d, tzinfo=timezone.utc), positional or year= / month= / day=
    if call.func.id != "datetime" or len(call.args) > 3:
        _refuse(call, "expected datetime(<y>, <m>, <d>, tzinfo=timezone.utc)")
    names = ["year", "month", "day"]
    vals = dict(zip(names, call.args))
    tz = None
    for k in call.keywords:
        if k.arg == "tzinfo" and tz is None:
            tz = k.value
        elif k.arg in names and k.arg not in vals:
            vals[k.arg] = k.value
        else:
            _refuse(call, "unexpected argument %r of datetime()" % k.arg)
    if tz is None or not _is_utc(tz) or len(vals) != 3:
        _refuse(call, "expected datetime(<y>, <m>, <d>, tzinfo=timezone.utc)")
    return "(%s, %s, %s)" % tuple(_expr(vals[n], env) for n in names)


def _block(stmts, env, kind, ind):
    """translate a statement list that must end in a return on every path"""
    if not stmts:
        raise Refuse("a path of the function ends without a return")
    s, rest = stmts[0], stmts[1:]
    pad = "  " * ind
    if isinstance(s, ast.Return):
        if rest:
            _refuse(rest[0], "statement after return")
        if s.value is None:
            _refuse(s, "bare return")
        return pad + _final(s.value, env, kind)
    if isinstance(s, ast.Assign):
        if len(s.targets) != 1 or not isinstance(s.targets[0], ast.Name):
            _refuse(s, "assignment target must be a single name")
        name = s.targets[0].id
        rhs = _expr(s.value, env)
        return "%slet v_%s := %s in\n%s" % (pad, name, rhs, _block(rest, env | {name}, kind, ind))
    if isinstance(s, ast.If):
        c = _cmp(s.test, env)
        a = _block(list(s.body) + rest, set(env), kind, ind + 1)
        b = _block(list(s.orelse) + rest, set(env), kind, ind + 1)
        return "%sif %s then\n%s\n%selse\n%s" % (pad, c, a, pad, b)
    _refuse(s, "statement %s" % type(s).__name__)


def _body(fn):
    body = list(fn.body)
    if body and isinstance(body[0], ast.Expr) and isinstance(body[0].value, ast.Constant) \
            and isinstance(body[0].value.value, str):
        body = body[1:]
    return body


def _params(fn, n, allow_kw=None):
    a = fn.args
    if fn.decorator_list:
        _refuse(fn, "decorators")
    if a.vararg or a.kwarg or a.kwonlyargs or a.posonlyargs:
        _refuse(fn, "parameter kinds other than plain positional")
    names = [x.arg for x in a.args]
    if allow_kw is None:
        if len(names) != n or a.defaults:
            _refuse(fn, "expected %d plain parameter(s) without defaults" % n)
        return names
    if len(names) != n + 1 or names[-1] != allow_kw or len(a.defaults) != 1 \
            or not (isinstance(a.defaults[0], ast.Constant) and a.defaults[0].value is False):
        _refuse(fn, "expected %d parameters and %s=False" % (n, allow_kw))
    return names[:-1]


def _third(fn):
    p = _params(fn, 2, "as_datetime64")
    body = _body(fn)
    if len(body) != 2:
        _refuse(fn, "datetime_from_time_and_date_integers: expected an assignment and an if")
    s, cond = body
    ok = (isinstance(s, ast.Assign) and len(s.targets) == 1 and isinstance(s.targets[0], ast.Name)
          and isinstance(s.value, ast.BinOp) and isinstance(s.value.op, ast.Add))
    if not ok:
        _refuse(s, "expected  dt = date_from_dateint(..) + time_from_timeint(..)")
    var = s.targets[0].id
    l, r = s.value.left, s.value.right

    def call_of(e, fname):
        if not (isinstance(e, ast.Call) and isinstance(e.func, ast.Name) and e.func.id == fname
                and len(e.args) == 1 and not e.keywords and isinstance(e.args[0], ast.Name)
                and e.args[0].id in p):
            _refuse(e, "expected %s(<parameter>)" % fname)
        return e.args[0].id
    pd = call_of(l, "date_from_dateint")
    pt = call_of(r, "time_from_timeint")
    ok = (isinstance(cond, ast.If) and isinstance(cond.test, ast.Name) and cond.test.id == "as_datetime64"
          and len(cond.body) == 1 and len(cond.orelse) == 1
          and isinstance(cond.body[0], ast.Return) and isinstance(cond.orelse[0], ast.Return))
    if not ok:
        _refuse(cond, "expected  if as_datetime64: return to_datetime64(dt) else: return dt")
    a, b = cond.body[0].value, cond.orelse[0].value
    ok = (isinstance(a, ast.Call) and isinstance(a.func, ast.Name) and a.func.id == "to_datetime64"
          and len(a.args) == 1 and not a.keywords and isinstance(a.args[0], ast.Name) and a.args[0].id == var
          and isinstance(b, ast.Name) and b.id == var)
    if not ok:
        _refuse(cond, "expected  return to_datetime64(dt) / return dt")
    return ("Definition py_datetime_from_ints (v_%s v_%s : Z) : (Z * Z * Z) * Z :=\n"
            "  (py_date_from_dateint v_%s, py_time_from_timeint v_%s).\n" % (p[0], p[1], pd, pt))


WANTED = ("time_from_timeint", "date_from_dateint", "datetime_from_time_and_date_integers")
DT_NAMES = ("datetime", "timezone", "timedelta")


def translate_source(src):
    """Python source text of tools/time.py -> text of coq/Generated/TimeInt.v (raises Refuse)"""
    try:
        mod = ast.parse(src)
    except SyntaxError as e:
        raise Refuse("time.py does not parse: %s" % e)
    fns = {}
    bound_dt = set()
    for node in mod.body:
        if isinstance(node, ast.FunctionDef):
            if node.name in DT_NAMES:
                _refuse(node, "module rebinds %s" % node.name)
            if node.name in WANTED:
                if node.name in fns:
                    _refuse(node, "%s defined twice" % node.name)
                fns[node.name] = node
            continue
        if isinstance(node, ast.ImportFrom):
            for al in node.names:
                nm = al.asname or al.name
                if nm in DT_NAMES:
                    if node.module != "datetime" or al.name != nm or node.level != 0:
                        _refuse(node, "%s is not datetime.%s" % (nm, nm))
                    bound_dt.add(nm)
                if nm in WANTED:
                    _refuse(node, "module imports a name that shadows %s" % nm)
            continue
        if isinstance(node, ast.Import):
            for al in node.names:
                if (al.asname or al.name.split(".")[0]) in DT_NAMES + WANTED:
                    _refuse(node, "import rebinds a needed name")
            continue
        # any other module level statement must not bind the needed names
        for sub in ast.walk(node):
            if isinstance(sub, ast.Name) and isinstance(sub.ctx, (ast.Store, ast.Del)) and sub.id in DT_NAMES + WANTED:
                _refuse(sub, "module level rebinding of %s" % sub.id)
            if isinstance(sub, (ast.FunctionDef, ast.ClassDef, ast.AsyncFunctionDef)) and sub.name in DT_NAMES + WANTED:
                _refuse(sub, "module level rebinding of %s" % sub.name)
    for nm in DT_NAMES:
        if nm not in bound_dt:
            raise Refuse("`from datetime import %s` not found" % nm)
    for nm in WANTED:
        if nm not in fns:
            raise Refuse("function %s not found at module level" % nm)
    f1, f2, f3 = (fns[n] for n in WANTED)
    (p1,) = _params(f1, 1)
    (p2,) = _params(f2, 1)
    out = ["(* GENERATED by harness/translate_timeint.py from %s -- do not edit, not committed. *)" % REL,
           "From Coq Require Import ZArith.", "Open Scope Z_scope.", "",
           "Definition py_time_from_timeint (v_%s : Z) : Z :=" % p1,
           _block(_body(f1), {p1}, "time", 1) + ".", "",
           "Definition py_date_from_dateint (v_%s : Z) : Z * Z * Z :=" % p2,
           _block(_body(f2), {p2}, "date", 1) + ".", "",
           _third(f3)]
    return "\n".join(out)


def translate_repo(repo):
    with open(os.path.join(repo, REL)) as f:
        return translate_source(f.read())


def write_if_changed(path, text):
    old = None
    if os.path.exists(path):
        with open(path) as f:
            old = f.read()
    if old != text:
        os.makedirs(os.path.dirname(path), exist_ok=True)
        tmp = path + ".tmp"
        with open(tmp, "w") as f:
            f.write(text)
        os.replace(tmp, path)
        return True
    return False


if __name__ == "__main__":
    import sys
    print(translate_repo(sys.argv[1] if len(sys.argv) > 1 else "/repo"))
