"""Staleness oracle shared by the spectrum-object properties (see harness/impl/REUSE.py)."""
import common as C

# "scribble": nothing in the spectrum is modified; the caller overwrites, in place, DERIVED results it was handed
# (direction_step, e, wavenumber ...) and asks again - on the same object and on another object with an equal grid
MUTATIONS = {"C01": ["mul_inplace", "assign", "fillna", "values", "scribble"],
             "C02": ["mul_inplace", "assign", "fillna", "values", "scribble", "scribble"],
             "C03": ["mul_inplace", "assign", "values", "scribble"], "C04": ["mul_inplace", "assign", "depth", "values", "scribble"],
             "C07": ["depth", "mul_inplace", "scribble"], "C16": ["mul_inplace", "assign", "values", "scribble"]}


def reuse_check(ctx, pid, n_quick=10, n_thorough=120):
    rng = ctx.rng
    cases = []
    for i in range(ctx.n(n_quick, n_thorough)):
        kind = rng.choice(["1d", "2d"]) if pid not in ("C02",) else rng.choice(["2d", "2d", "1d"])
        c = {"kind": kind, "nt": rng.randint(1, 3), "nf": rng.randint(8, 20), "nd": rng.choice([8, 12, 18]),
             "seed": rng.randrange(1 << 30), "mutation": rng.choice(MUTATIONS[pid]), "nan": rng.random() < 0.3,
             "fmin": 0.1, "fmax": rng.choice([0.25, 0.4, 0.6])}
        cases.append(c)
    res = ctx.impl("REUSE.py", {"pid": pid, "cases": cases})["results"]
    for c, r in zip(cases, res):
        ctx.count(["reuse", pid, c], True)
        ctx.tally("re-used object: " + c["mutation"])
        rep = {"op": "query, modify the same spectrum object in place (%s), query again; compare with a fresh object holding the same data" % c["mutation"],
               "case": c}
        if isinstance(r, dict) and "error" in r:
            # an in-place modification that the API rejects is not a staleness failure; a crash after it is
            ctx.tally("re-used object: raised " + r["error"])
            if r["error"] not in ("ValueError", "KeyError", "IndexError", "TypeError", "NotImplementedError"):
                ctx.oracle_fail("re-used spectrum object: %s: %s" % (r["error"], r.get("msg")), rep)
            continue
        for name in r["fresh"]:
            a = [C.unfx(v) for v in r["reused"][name]]
            b = [C.unfx(v) for v in r["fresh"][name]]
            bad = len(a) != len(b) or any(not C.close(x, y, 1e-9, 1e-12) for x, y in zip(a, b))
            if bad:
                k = next((j for j, (x, y) in enumerate(zip(a, b)) if not C.close(x, y, 1e-9, 1e-12)), 0)
                rep2 = dict(rep, observable=name, reused=a[max(0, k - 1):k + 3], fresh=b[max(0, k - 1):k + 3], index=k)
                if c["mutation"] == "scribble":
                    ctx.oracle_fail("%s changed (%r -> %r) after the caller overwrote, in place, derived results it had been handed "
                                    "(direction_step, e, wavenumber ...): the library handed out an object it uses again"
                                    % (name, b[k] if k < len(b) else None, a[k] if k < len(a) else None), rep2)
                else:
                    ctx.oracle_fail("%s of a spectrum object that was modified in place (%s) is stale: %r, a fresh object with the same data gives %r"
                                    % (name, c["mutation"], a[k] if k < len(a) else None, b[k] if k < len(b) else None), rep2)
                break
