"""regenerate the table of DESIGN.md section 11 from seeded/RESULTS.json and seeded/<id>/meta.json"""
import json, os, re
VERIF = os.path.dirname(os.path.dirname(os.path.abspath(__file__)))
res = json.load(open(os.path.join(VERIF, "seeded", "RESULTS.json")))


def clip(s, n):
    s = " ".join(str(s).split()).replace("|", "/")
    return s if len(s) <= n else s[:n] + "…"


rows = ["| id | change (needs …) | caught by | first report | history |", "|---|---|---|---|---|"]
for sid in sorted(res):
    meta = json.load(open(os.path.join(VERIF, "seeded", sid, "meta.json")))
    if isinstance(meta, list):
        meta = {}
    summ = clip(meta.get("summary", meta.get("description", "")), 230)
    needs = clip(meta.get("needs", ""), 180)
    fr = res[sid].get("first_report", "")
    if fr.startswith("[{"):
        m = re.search(r'"detail": "([^"]*)', fr)
        fr = "correspondence: " + (m.group(1) if m else "")
    rows.append("| %s | %s *Needs:* %s | %s | %s | %s |" % (
        sid, summ, needs, ", ".join(res[sid]["caught_by"]) or "**none**", clip(fr, 140), clip(res[sid].get("history", ""), 400)))
p = os.path.join(VERIF, "DESIGN.md")
lines = open(p).read().split("\n")
a = next(i for i, l in enumerate(lines) if l.startswith("| id | change"))
b = a
while b < len(lines) and lines[b].startswith("|"):
    b += 1
lines[a:b] = rows
open(p, "w").write("\n".join(lines))
print(len(rows) - 2, "rows;", sum(1 for v in res.values() if "history" in v), "with history;",
      sum(1 for v in res.values() if not v["caught_by"]), "uncaught")
