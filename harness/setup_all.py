import importlib
import os
import sys
sys.path.insert(0, os.path.dirname(os.path.abspath(__file__)))
import common as C

pids = sorted(f[:-3] for f in os.listdir(os.path.join(C.VERIF, "harness", "props")) if f.startswith("C") and f.endswith(".py"))
# translators first (Generated/*.v must exist before coq_makefile lists files)
for pid in pids:
    mod = importlib.import_module("props.%s" % pid)
    if hasattr(mod, "pregen"):
        try:
            mod.pregen(C.Ctx(pid, "quick", 0))
        except Exception as e:
            print("pregen %s: %s" % (pid, e))
bad = C.gate_sources()
if bad:
    print("GATE:\n  " + "\n  ".join(bad))
    sys.exit(2)
for pid in pids:
    os.makedirs(os.path.join(C.BUILD, "ex", pid), exist_ok=True)
ok, log = C.coq_make(["all"], timeout=7200)
print(log[-3000:])
if not ok:
    print("SETUP: coq build failed")
    sys.exit(1)
for pid in pids:
    exe = C.build_driver(pid)
    print("driver", pid, exe)
print("SETUP OK")
