import importlib
import os
import sys
sys.path.insert(0, os.path.dirname(os.path.abspath(__file__)))
import common as C

pids = sorted(f[:-3] for f in os.listdir(os.path.join(C.VERIF, "harness", "props")) if f.startswith("C") and f.endswith(".py"))
# translators first (Generated/*.v must exist before coq_makefile lists files)
for pid in pids:
    mod = importlib.import_module("props.%s" % pid)
    if hasattr(mod, "pregen"):
        try:
            mod.pregen(C.Ctx(pid, "quick", 0))
        except Exception as e:
            print("pregen %s: %s" % (pid, e))
bad = C.gate_sources()
if bad:
    print("GATE:\n  " + "\n  ".join(bad))
    sys.exit(2)
for pid in pids:
    os.makedirs(os.path.join(C.BUILD, "ex", pid), exist_ok=True)
ok, log = C.coq_make(["-k", "all"], timeout=7200)
print(log[-3000:])
ready = [pid for pid in pids if getattr(importlib.import_module("props.%s" % pid), "READY", False)]
failed = []
for pid in ready:
    mod = importlib.import_module("props.%s" % pid)
    rel = getattr(mod, "THEOREM_FILE", "Properties/%s.v" % pid)
    if not os.path.exists(os.path.join(C.COQ, rel + "o")):
        failed.append(pid)
if failed:
    print("SETUP: coq build failed for claimed properties: %s" % failed)
    sys.exit(1)
if not ok:
    print("SETUP: note: some files of properties that are not claimed yet did not build")
for pid in pids:
    try:
        exe = C.build_driver(getattr(importlib.import_module("props.%s" % pid), "DRIVER_PID", pid))
        print("driver", pid, exe)
    except Exception as e:
        if pid in ready:
            print("SETUP: driver build failed for %s: %s" % (pid, e))
            sys.exit(1)
        print("driver", pid, "not built:", str(e)[:200])
print("SETUP OK")
