"""C11 wind inversion closes the source-term balance.

(a) the hybrid Newton solver (numba_newton_raphson) against the extracted Coq model on analytic functions,
(b) the real driver (_u10_from_bulk_rate_point / _u10_from_spectra) on analytic ("toy") source terms against the
    extracted Coq driver, (c) the real source terms: decisions (zero-dissipation rule, direction rule, NaN rule),
    the model's direction / balance formulas on the implementation's own fields, and the property oracles
    (residual at the returned wind, finiteness where a scan brackets a root, batch == single)."""
import math

import common as C

RULE = ("solver cases: (function family, parameters, solver options, first guess) from one PRNG, non-trivial = the model "
        "run takes at least one loop pass and does not end in the first bracket evaluation; toy-driver cases: (shape, target, "
        "guess, direction options, spectrum), non-trivial = non-zero target; real cases: one JONSWAP spectrum x source-term "
        "pair x depth x direction x rate-of-change option, non-trivial = non-zero integrated dissipation; distinct by full "
        "input hash")
ASSUMPTIONS = [
    "floating point rounding is not modelled: the extracted model computes in binary64 in the operation order of the code",
    "numba compiles the jitted functions to the Python semantics of their source (its try/except handling is exactly "
    "where the repaired defect lived); validated by execution only",
    "the balance function is treated as a pure function of U10: the roughness-length memory carried between evaluations "
    "(1e-6 in log z0) is ignored",
    "source terms (ST4/ST6 fields, roughness solver, wavenumbers, first guess) are inputs of the model, taken from the "
    "implementation itself",
]
TRUSTED = [
    "non-degeneracy (finite result where the scanned balance changes sign once on 2..40 m/s) and strict positivity of "
    "the returned wind are validated by execution, not proved (global convergence of the hybrid Newton is not a theorem)",
]
NAN = float("nan")
INF = float("inf")

# ------------------------------------------------------------------------------------------------
# (a) solver on analytic functions
# ------------------------------------------------------------------------------------------------
CFG_DRIVER = dict(lo=0.0, hi=INF, maxit=100, aitken=True, atol=1.0e-2, rtol=1.0, step=1e-3, relstep=False,
                  relax=0.9, eom=True)
CFG_DEFAULT = dict(lo=-INF, hi=INF, maxit=100, aitken=True, atol=1e-4, rtol=1e-4, step=1e-4, relstep=False,
                   relax=0.9, eom=True)
CFG_ROUGH = dict(lo=-20.0, hi=0.0, maxit=100, aitken=False, atol=1e-6, rtol=1e-6, step=1e-4, relstep=False,
                 relax=0.9, eom=True)
LIBM_KINDS = (3, 6)
KIND_NAMES = {0: "linear", 1: "cubic", 2: "clipped-linear(flat regions)", 3: "sine(non-monotone)",
              4: "parabola(maybe no sign change)", 5: "raises-beyond-threshold", 6: "exponential",
              7: "step(zero derivative)", 8: "abs(kink)", 9: "quadratic(two roots)"}


def gen_fun(rng):
    k = rng.choice([0, 0, 1, 1, 2, 2, 3, 4, 4, 5, 6, 7, 8, 9])
    d = lambda lo, hi: C.dyadic(rng, lo, hi, 10)
    if k == 0:
        return k, rng.choice([-1, 1, 1]) * d(0.1, 5), d(-20, 20), 0.0
    if k == 1:
        return k, d(0.01, 2), d(-3, 3), d(-50, 50)
    if k == 2:
        return k, d(0.1, 5), d(0, 30), d(0.1, 3)
    if k == 3:
        return k, d(0.1, 3), d(-1.5, 1.5), 0.0
    if k == 4:
        return k, d(0.1, 2), d(-30, 5), 0.0
    if k == 5:
        return k, d(2, 40), d(0, 50), 0.0
    if k == 6:
        return k, d(0.05, 0.5), d(0.5, 50), 0.0
    if k == 7:
        return k, d(0, 30), d(0.1, 3), d(0.1, 3)
    if k == 8:
        return k, d(0, 30), d(-2, 5), 0.0
    return k, d(0.05, 1), d(0, 10), d(-10, 10)


def gen_cfg(rng):
    r = rng.random()
    if r < 0.45:
        return "driver", dict(CFG_DRIVER), rng.choice([0.0, C.dyadic(rng, 0.01, 45, 12), C.dyadic(rng, 1, 25, 12)])
    if r < 0.6:
        return "default", dict(CFG_DEFAULT), rng.choice([0.0, C.dyadic(rng, -30, 45, 12)])
    if r < 0.7:
        return "roughness", dict(CFG_ROUGH), C.dyadic(rng, -19, -0.5, 12)
    lo = rng.choice([-INF, 0.0, C.dyadic(rng, -10, 5, 6)])
    hi = rng.choice([INF, INF, (lo if lo > -INF else 0.0) + C.dyadic(rng, 1, 60, 6)])
    cfg = dict(lo=lo, hi=hi, maxit=rng.choice([1, 2, 3, 4, 5, 7, 10, 20, 40, 60]), aitken=rng.random() < 0.5,
               atol=rng.choice([1e-2, 1e-3, 1e-4, 0.0]), rtol=rng.choice([1.0, 1e-2, 1e-4]),
               step=rng.choice([1e-3, 1e-4, 0.0]) if rng.random() < 0.15 else rng.choice([1e-3, 1e-4]),
               relstep=rng.random() < 0.3, relax=rng.choice([0.5, 0.9, 1.0]), eom=rng.random() < 0.6)
    return "random", cfg, rng.choice([0.0, C.dyadic(rng, -5, 45, 12)])


def edge_solver_cases():
    """deterministic edge stream: exact roots at the first guess and at the ends of the first bracket (products of
    function values that are exactly zero), zero first guess, degenerate brackets"""
    out = []
    for g in (2.0, 6.0, 12.5, 20.0):
        for a in (1.0, -0.5, 2.0):
            for r in (g / 2, g, 3 * g / 2):
                for cname, cfg in (("driver", CFG_DRIVER), ("default", CFG_DEFAULT)):
                    out.append((0, a, -a * r, 0.0, cname, dict(cfg), g))
        for cname, cfg in (("driver", CFG_DRIVER), ("default", CFG_DEFAULT)):
            out.append((8, g, g / 2, 0.0, cname, dict(cfg), g))       # |x-g| - g/2: zero at both bracket ends
            out.append((8, g / 2, 0.0, 0.0, cname, dict(cfg), g))     # kink and root at the lower bracket end
            out.append((7, g / 2, 1.0, 1.0, cname, dict(cfg), g))     # jump exactly at the lower bracket end
            out.append((7, g, 1.0, 1.0, cname, dict(cfg), g))         # jump exactly at the first guess
    return out


def newton_line(k, a, b, c, cfg, guess):
    return "newton %d %s %s %s %s %s %d %s %s %s %s %s %s %s" % (
        k, C.fx(a), C.fx(b), C.fx(c), C.fx(cfg["lo"]), C.fx(cfg["hi"]), cfg["maxit"], "T" if cfg["aitken"] else "F",
        C.fx(cfg["atol"]), C.fx(cfg["rtol"]), C.fx(cfg["step"]), "T" if cfg["relstep"] else "F", C.fx(cfg["relax"]),
        C.fx(guess))


def newton_case(k, a, b, c, cfg, guess):
    return {"op": "newton", "kind": k, "a": C.fx(a), "b": C.fx(b), "c": C.fx(c), "guess": C.fx(guess),
            "lo": C.fx(cfg["lo"]), "hi": C.fx(cfg["hi"]), "maxit": cfg["maxit"], "aitken": cfg["aitken"],
            "atol": C.fx(cfg["atol"]), "rtol": C.fx(cfg["rtol"]), "step": C.fx(cfg["step"]),
            "relstep": cfg["relstep"], "relax": C.fx(cfg["relax"]), "eom": cfg["eom"]}


def pyfun(k, a, b, c):
    if k == 0:
        return lambda x: a * x + b
    if k == 1:
        return lambda x: a * x * x * x + b * x + c
    if k == 6:
        return lambda x: math.exp(a * x) - b
    return None


def model_outcome(tok, eom):
    """canonical outcome of the model: ('value', x) or ('exc', kind)"""
    if tok[0] == "C":
        return ("value", C.unfx(tok[1]))
    if tok[0] == "M":
        return ("exc", "ValueError:no convergence") if eom else ("value", C.unfx(tok[1]))
    return ("exc", {"FunRaise": "ValueError:boom", "DivZero": "ZeroDivisionError", "Stationary": "ValueError:"}[tok[1]])


def impl_outcome(r):
    if "x" in r:
        return ("value", C.unfx(r["x"]))
    if r.get("exc") == "ZeroDivisionError":
        return ("exc", "ZeroDivisionError")
    return ("exc", "%s:%s" % (r.get("exc"), r.get("msg", "")))


def check_solver(ctx, specs, impl, mod):
    for (k, a, b, c, cname, cfg, guess), im, mo in zip(specs, impl, mod):
        rep = {"op": "numba_newton_raphson", "function": KIND_NAMES[k], "kind": k, "a": a, "b": b, "c": c,
               "options": {q: (v if not isinstance(v, float) else repr(v)) for q, v in cfg.items()}, "guess": guess,
               "config": cname}
        if isinstance(im, dict) and "error" in im:
            ctx.disagree("solver runner failed: %s" % im, rep)
            continue
        mo_out = model_outcome(mo, cfg["eom"])
        im_out = impl_outcome(im)
        rep["model"] = " ".join(mo)
        rep["impl"] = im
        nontriv = mo[0] in ("C", "M") and cfg["maxit"] > 1
        ctx.count([k, a, b, c, cname, sorted(rep["options"].items()), guess], nontriv)
        ctx.tally("solver:" + KIND_NAMES[k])
        ctx.tally("solver-config:" + cname)
        ctx.tally("solver-outcome:" + (mo[0] if mo[0] != "F" else "F-" + mo[1]))
        nanval = (mo_out[0] == "value" and mo_out[1] != mo_out[1]) or (im_out[0] == "value" and im_out[1] != im_out[1])
        if nanval or (mo_out[0] == "value" and math.isinf(mo_out[1])):
            ctx.tally("solver:non-finite-arithmetic(skipped)")
            continue
        if mo_out[0] != im_out[0] or (mo_out[0] == "exc" and mo_out[1] != im_out[1]):
            if k in LIBM_KINDS:
                # sin/exp of OCaml's and numba's libm may differ by an ulp, which can decide a branch of the iteration
                ctx.tally("solver:libm-branch(not reported)")
                continue
            ctx.disagree("numba_newton_raphson outcome differs from the model: impl %s, model %s (%s, %s options)"
                         % (im_out, mo_out, KIND_NAMES[k], cname), rep)
            continue
        if mo_out[0] == "value":
            xm, xi = mo_out[1], im_out[1]
            tol = 1e-9 if k not in LIBM_KINDS else 1e-6
            if not C.close(xi, xm, tol, 1e-12, max(abs(guess), 1.0)):
                if k in LIBM_KINDS:
                    ctx.tally("solver:libm-branch(not reported)")
                else:
                    ctx.disagree("numba_newton_raphson returns %r, model %r (%s, %s options)" % (xi, xm, KIND_NAMES[k], cname),
                                 rep)
                continue
            # oracles on the implementation alone
            lo, hi = cfg["lo"], cfg["hi"]
            if mo[0] == "C":
                wlo = min(lo, guess - 0.5 * abs(guess)) - 1e-9 * (1 + abs(guess))
                whi = max(hi, guess + 0.5 * abs(guess)) + 1e-9 * (1 + abs(guess))
                if not (wlo <= xi <= whi):
                    ctx.oracle_fail("solver result %r outside the hard bounds widened by the first bracket [%r,%r]" % (xi, wlo, whi), rep)


# ------------------------------------------------------------------------------------------------
# spectra for the toy driver (model evaluates the same analytic generation field)
# ------------------------------------------------------------------------------------------------
def toy_spectrum(rng, nf, nd):
    """a smooth positive spectrum on a small grid, dyadic values"""
    fp = rng.uniform(0.1, 0.3)
    dm = rng.uniform(0, 360)
    fmin, fmax = 0.05, 0.6
    f = [fmin + (fmax - fmin) * i / (nf - 1) for i in range(nf)]
    th = [360.0 * j / nd for j in range(nd)]
    E = []
    for i in range(nf):
        row = []
        for j in range(nd):
            ang = (th[j] - dm + 180) % 360 - 180
            dpart = math.cos(math.radians(ang) / 2) ** 8
            fpart = math.exp(-((f[i] - fp) / 0.08) ** 2) + 0.02
            row.append(float("%.6g" % (fpart * dpart + 1e-4)))
        E.append(row)
    return f, th, E


def grid_of(f, th):
    nf, nd = len(f), len(th)
    df = []
    for i in range(nf):
        if i == 0:
            df.append(f[1] - f[0])
        elif i == nf - 1:
            df.append(f[-1] - f[-2])
        else:
            df.append((f[i + 1] - f[i - 1]) / 2)
    dth = [360.0 / nd] * nd
    omega = [2 * math.pi * v for v in f]
    theta = [math.radians(v) for v in th]
    return omega, theta, df, dth


def field_tok(A):
    return "%d %d %s" % (len(A), len(A[0]), " ".join(C.fx(v) for row in A for v in row))


def flat(A):
    return [C.fx(v) for row in A for v in row]


def gen_toy_shape(rng):
    kind = rng.choice([0, 0, 1, 2, 2, 3, 3])
    if kind == 0:
        a, b = C.dyadic(rng, 0.01, 0.1, 8), 0.0
    elif kind == 1:
        a = C.dyadic(rng, 0.04, 0.06, 8); b = C.dyadic(rng, 0.01, 0.035, 8)
    elif kind == 2:
        a = C.dyadic(rng, 0.02, 0.08, 8); b = a * C.dyadic(rng, 4.0, 64.0, 6)
    else:
        a = C.dyadic(rng, 0.05, 0.1, 8); b = C.dyadic(rng, 0.01, 0.3, 8)
    return kind, a, b


def toy_h(kind, a, b, u):
    if kind == 0:
        return u * u * a
    if kind == 1:
        return u * u * (a + b * math.sin(u))
    if kind == 2:
        return min(max(u * u * a, b), 16 * b)
    return u * u * a / (1 + b * u)


def toy_specs(ctx):
    rng = ctx.rng
    nspec = ctx.n(3, 12)
    specs = []
    const_cases = []
    for s in range(nspec):
        nf, nd = rng.choice([(8, 8), (10, 12), (12, 16)])
        f, th, E = toy_spectrum(rng, nf, nd)
        omega, theta, df, dth = grid_of(f, th)
        specs.append(dict(f=f, th=th, E=E, omega=omega, theta=theta, df=df, dth=dth))
        const_cases.append({"op": "toyconst", "theta": [C.fx(v) for v in theta], "df": [C.fx(v) for v in df],
                            "dth": [C.fx(v) for v in dth], "omega": [C.fx(v) for v in omega], "E": flat(E)})
    return specs, const_cases


def toy_cases(ctx, specs, consts):
    rng = ctx.rng
    ncase = ctx.n(30, 1500)
    nbatch = ctx.n(4, 100)
    for sp, co in zip(specs, consts):
        if "error" in co:
            raise C.Infra("toy constants failed: %s" % co)
        sp["amp"] = C.unfx(co["amp"])
        sp["sdir"] = C.unfx(co["sdir"])
        sp["m0"] = sum(sp["E"][i][j] * sp["df"][i] * sp["dth"][j] for i in range(len(sp["df"])) for j in range(len(sp["dth"])))
    cases, lines, metas = [], [], []
    for i in range(ncase):
        sp = rng.choice(specs)
        kind, a, b = gen_toy_shape(rng)
        diriter = rng.random() < 0.4
        q = rng.choice([0.0, 0.0, C.dyadic(rng, 0.1, 0.5, 6)])
        d0 = C.dyadic(rng, 0, 360, 8)
        gdir = rng.choice([sp["sdir"], (sp["sdir"] + rng.choice([0.5, 5.0, 25.0, 90.0, 170.0, -60.0])) % 360.0,
                           C.dyadic(rng, 0, 360, 10)])
        utrue = C.dyadic(rng, 1.0, 35.0, 10)
        lob = 1 + q * math.cos(math.radians(gdir - d0))
        target = sp["amp"] * toy_h(kind, a, b, utrue) * lob * sp["m0"]
        r = rng.random()
        if r < 0.08:
            target = 0.0
        elif r < 0.16:
            target = target * rng.choice([1e-3, 50.0, 1e3])      # roots far away / none
        elif r < 0.2:
            target = -target                                      # no root: balance positive everywhere
        guess = rng.choice([utrue * rng.choice([0.3, 0.7, 1.0, 1.5, 3.0]), C.dyadic(rng, 0.5, 40, 10), 0.0])
        # rate-of-change field: a few per cent of the generation, both signs
        tmode = rng.choice(["none", "none", "pos", "neg"])
        csc = 0.0 if tmode == "none" else (0.2 if tmode == "pos" else -0.2) * abs(target) / sp["m0"]
        T = [[csc * v for v in row] for row in sp["E"]]
        meta = dict(kind=kind, a=a, b=b, q=q, d0=d0, diriter=diriter, target=target, guess=guess, gdir=gdir,
                    utrue=utrue, tmode=tmode, spec=specs.index(sp))
        metas.append(meta)
        base = {"theta": [C.fx(v) for v in sp["theta"]], "df": [C.fx(v) for v in sp["df"]],
                "dth": [C.fx(v) for v in sp["dth"]], "omega": [C.fx(v) for v in sp["omega"]],
                "kind": kind, "a": C.fx(a), "b": C.fx(b), "q": C.fx(q), "d0": C.fx(d0), "amp": C.fx(sp["amp"])}
        cases.append(dict(base, op="toybulk", E=flat(sp["E"]), T=flat(T), target=C.fx(target), guess=C.fx(guess),
                          gdir=C.fx(gdir), diriter=diriter))
    # batches through _u10_from_spectra (prange driver, toy dissipation = -dc * E)
    bmetas = []
    for i in range(nbatch):
        sp = rng.choice(specs)
        kind, a, b = gen_toy_shape(rng)
        n = rng.randint(1, 8)
        scales = [rng.choice([0.0, C.dyadic(rng, 0.25, 4.0, 6)]) if rng.random() < 0.2 else C.dyadic(rng, 0.25, 4.0, 6)
                  for _ in range(n)]
        Es = [[[sc * v for v in row] for row in sp["E"]] for sc in scales]
        utrue = C.dyadic(rng, 2.0, 30.0, 10)
        dc = sp["amp"] * toy_h(kind, a, b, utrue)
        guesses = [rng.choice([C.dyadic(rng, 0.5, 40, 10), utrue]) for _ in range(n)]
        diriter = rng.random() < 0.3
        bmetas.append(dict(kind=kind, a=a, b=b, n=n, scales=scales, utrue=utrue, dc=dc, guesses=guesses,
                           diriter=diriter, spec=specs.index(sp)))
        base = {"theta": [C.fx(v) for v in sp["theta"]], "df": [C.fx(v) for v in sp["df"]],
                "dth": [C.fx(v) for v in sp["dth"]], "omega": [C.fx(v) for v in sp["omega"]],
                "kind": kind, "a": C.fx(a), "b": C.fx(b), "q": C.fx(0.0), "d0": C.fx(0.0), "amp": C.fx(sp["amp"]),
                "dc": C.fx(dc)}
        zeroT = [[0.0] * len(sp["dth"]) for _ in sp["df"]]
        cases.append(dict(base, op="toypoints", Es=[flat(e) for e in Es], T=flat(zeroT),
                          guess=[C.fx(g) for g in guesses], diriter=diriter))
    return cases, metas, bmetas


def toy_finish(ctx, specs, metas, bmetas, impl):
    ncase = len(metas)
    # model lines need the implementation's own stress direction (an input of the model)
    lines = []
    for meta, im in zip(metas, impl[:ncase]):
        sp = specs[meta["spec"]]
        ndv = NAN
        if isinstance(im, dict) and "newdir" in im:
            ndv = C.unfx(im["newdir"])
        csc = 0.0 if meta["tmode"] == "none" else (0.2 if meta["tmode"] == "pos" else -0.2) * abs(meta["target"]) / sp["m0"]
        T = [[csc * v for v in row] for row in sp["E"]]
        # second line: the same case with inputs perturbed at rounding level; where the model's own answer moves,
        # the case is ill-conditioned (chaotic iteration far from any root) and is not compared
        for tg, ndp in ((meta["target"], ndv), (meta["target"] * (1 + 1e-12), ndv + 1e-10),
                        (meta["target"] * (1 - 1e-12), ndv - 1e-10)):
            lines.append("toybulk %d %s %s %s %s %s %s %s %s %s %s %s %s %s %s %s" % (
                meta["kind"], C.fx(sp["amp"]), C.fx(meta["a"]), C.fx(meta["b"]), C.fx(meta["q"]), C.fx(meta["d0"]),
                "T" if meta["diriter"] else "F", C.fx(tg), C.fx(meta["guess"]), C.fx(meta["gdir"]), C.fx(ndp),
                C.flist(sp["theta"]), C.flist(sp["df"]), C.flist(sp["dth"]), field_tok(sp["E"]), field_tok(T)))
    for bm in bmetas:
        sp = specs[bm["spec"]]
        zeroT = [[0.0] * len(sp["dth"]) for _ in sp["df"]]
        kk = [w * w / 9.81 for w in sp["omega"]]
        pts = " ".join("%s %s" % (C.fx(g), field_tok([[sc * v for v in row] for row in sp["E"]]))
                       for g, sc in zip(bm["guesses"], bm["scales"]))
        for dcv, sdv in ((bm["dc"], sp["sdir"]), (bm["dc"] * (1 + 1e-12), sp["sdir"] + 1e-10),
                         (bm["dc"] * (1 - 1e-12), sp["sdir"] - 1e-10)):
            lines.append("toypoints %d %s %s %s %s %s %s %s %s %s %s %s %s %s %d %s" % (
                bm["kind"], C.fx(sp["amp"]), C.fx(bm["a"]), C.fx(bm["b"]), C.fx(0.0), C.fx(0.0),
                "T" if bm["diriter"] else "F", C.fx(dcv), C.fx(sdv), C.flist(kk), C.flist(sp["theta"]),
                C.flist(sp["df"]), C.flist(sp["dth"]), field_tok(zeroT), bm["n"], pts))
    mod = ctx.model(lines)
    modb_pert = list(zip(mod[3 * ncase + 1::3], mod[3 * ncase + 2::3]))
    mod_pert = list(zip(mod[1:3 * ncase:3], mod[2:3 * ncase:3]))
    mod = mod[0:3 * ncase:3] + mod[3 * ncase::3]
    for meta, im, mo, mp in zip(metas, impl[:ncase], mod[:ncase], mod_pert):
        rep = dict(meta, op="_u10_from_bulk_rate_point with analytic source terms", impl=im, model=" ".join(mo),
                   grid=specs[meta["spec"]]["f"], directions=specs[meta["spec"]]["th"])
        ctx.count([meta[k] for k in sorted(meta)], meta["target"] != 0.0)
        ctx.tally("toy:shape%d" % meta["kind"]); ctx.tally("toy:diriter" if meta["diriter"] else "toy:no-diriter")
        ctx.tally("toy:dedt-" + meta["tmode"])
        if isinstance(im, dict) and "error" in im:
            ctx.disagree("driver raised on analytic source terms: %s" % im, rep)
            continue
        ui, di = C.unfx(im["u10"]), C.unfx(im["dir"])
        um, dm = C.unfx(mo[0]), C.unfx(mo[1])
        ctx.tally("toy-outcome:" + ("zero" if um == 0 else ("nan" if um != um else "finite")))
        if meta["target"] == 0.0 and not (ui == 0.0):
            ctx.oracle_fail("zero target rate but U10 = %r" % ui, rep)
        if not meta["diriter"] and not C.close(di, meta["gdir"], 0, 0):
            ctx.oracle_fail("no direction iteration but the returned direction %r differs from the supplied one %r"
                            % (di, meta["gdir"]), rep)
        illc = False
        for mq in mp:
            up, dp = C.unfx(mq[0]), C.unfx(mq[1])
            if (up != up) != (um != um) or (um == um and not C.close(up, um, 1e-8, 1e-10)) or \
                    (dm == dm and dp == dp and abs((dp - dm + 180) % 360 - 180) > 1e-7):
                illc = True
        if illc:
            ctx.tally("toy:ill-conditioned(skipped)")
            continue
        if (ui != ui) != (um != um) or (ui == ui and not C.close(ui, um, 1e-7, 1e-9)):
            if meta["kind"] == 1:
                # non-monotone balance: the iteration is chaotic (an ulp of libm's sin decides which root, or none, is
                # reached); recorded, never reported
                ctx.tally("toy:non-monotone-differs(not reported)")
                continue
            ctx.disagree("_u10_from_bulk_rate_point returns U10 %r, model %r" % (ui, um), rep)
            continue
        if meta["kind"] == 1:
            ctx.tally("toy:non-monotone-agrees")
        if (di != di) != (dm != dm) or (di == di and not (abs((di - dm + 180) % 360 - 180) <= 1e-6)):
            if meta["kind"] == 1:
                ctx.tally("toy:non-monotone-differs(not reported)")
                continue
            ctx.disagree("_u10_from_bulk_rate_point returns direction %r, model %r" % (di, dm), rep)
    for bm, im, mo, mp in zip(bmetas, impl[ncase:], mod[ncase:], modb_pert):
        rep = dict(bm, op="_u10_from_spectra with analytic source terms", impl=im, model=" ".join(mo))
        ctx.count(["toybatch"] + [bm[k] for k in sorted(bm)], True)
        ctx.tally("toy:batch%d" % bm["n"])
        if isinstance(im, dict) and "error" in im:
            ctx.disagree("_u10_from_spectra raised on analytic source terms: %s" % im, rep)
            continue
        for p in range(bm["n"]):
            ui, di = C.unfx(im["u10"][p]), C.unfx(im["dir"][p])
            um, dm = C.unfx(mo[2 * p]), C.unfx(mo[2 * p + 1])
            if bm["scales"][p] == 0.0 and ui != 0.0:
                ctx.oracle_fail("zero dissipation at batch member %d but U10 = %r" % (p, ui), rep)
            illc = False
            for mq in mp:
                up = C.unfx(mq[2 * p])
                if (up != up) != (um != um) or (um == um and not C.close(up, um, 1e-8, 1e-10)):
                    illc = True
            if illc:
                ctx.tally("toy:ill-conditioned(skipped)")
                continue
            if (ui != ui) != (um != um) or (ui == ui and not C.close(ui, um, 1e-7, 1e-9)):
                if bm["kind"] == 1:
                    ctx.tally("toy:non-monotone-differs(not reported)")
                    continue
                ctx.disagree("_u10_from_spectra member %d: U10 %r, model %r" % (p, ui, um), rep)
                break
            if bm["kind"] != 1 and bm["scales"][p] != 0.0 and ((di != di) != (dm != dm) or (di == di and abs((di - dm + 180) % 360 - 180) > 1e-6)):
                ctx.disagree("_u10_from_spectra member %d: direction %r, model %r" % (p, di, dm), rep)
                break


# ------------------------------------------------------------------------------------------------
# (c) the real source terms
# ------------------------------------------------------------------------------------------------
PM = 0.0348          # Hs fp^2 of a fully developed Pierson-Moskowitz sea (m/s^2)
SCAN = [2.0 + 0.5 * i for i in range(77)]
FINDING_KEY = "nan-root-below-4ms-roughness-raises"
FINDING_KEY2 = "nan-roughness-raises-at-overshoot-iterate"
FINDING_KEY3 = "zero-step-at-bracket-end-ends-the-run"
FINDING_KEY4 = "step-converged-between-0.05-and-0.1-from-the-root"
CORPUS3 = {"nf": 48, "fmax": 1.0, "nd": 36,
           "dedt": {"c1": -4.592072868225679e-05, "c2": 9.099101734066148e-05, "c3": 5.541814251309006e-07},
           "sea": {"fp": 0.0848, "hs": 6.0, "dir": 180.0, "width": 30.0, "depth": 15.0, "gamma": 3.3, "stream": "main",
                   "ratio": 1.5886393288862615}}


def gen_sea(rng, stream):
    fp = rng.choice([0.08, 0.1, 0.125, 0.15, 0.2, 0.25, 0.3, 0.4]) * rng.choice([1.0, 1.0, 1.06, 0.94])
    hf = stream == "main" and rng.random() < 0.12
    if hf:
        # very young wind seas peaking above 0.5 Hz (small lakes, fetch-limited): the first guess comes from the
        # equilibrium range above the default fmax of the wind estimate
        fp = rng.choice([0.55, 0.65, 0.75])
    if stream == "main":
        ratio = rng.uniform(1.3, 2.5)
    elif stream == "marginal":
        ratio = rng.uniform(0.5, 1.25)
    else:   # calm: zero dissipation
        ratio = rng.uniform(0.05, 0.5)
    depth = rng.choice([INF, INF, INF, 15.0, 25.0, 40.0, 100.0])
    hs = min(PM * ratio / fp ** 2, 12.0, 0.4 * depth)      # no seas higher than depth-limited breaking allows
    sea = {"fp": fp, "hs": hs, "dir": rng.choice([0.0, 90.0, 180.0, 270.0, 359.0, rng.uniform(0, 360), rng.uniform(0, 360),
                                                    rng.uniform(0, 360)]),
           "width": rng.choice([20.0, 30.0, 40.0]), "depth": depth,
           "gamma": rng.choice([1.0, 2.0, 3.3, 3.3]), "stream": stream, "ratio": ratio}
    if hf:
        sea["hf"] = True
    if stream == "main" and rng.random() < 0.15:
        sea["swell"] = {"fp": rng.choice([0.06, 0.07, 0.08]), "hs": rng.uniform(0.3, 1.5), "dir": rng.uniform(0, 360)}
    return sea


def sea_payload(s):
    o = {k: C.fx(s[k]) for k in ("fp", "hs", "dir", "width", "depth", "gamma")}
    if "swell" in s:
        o["swell"] = {k: C.fx(v) for k, v in s["swell"].items()}
    return o


def sign_changes(vals):
    """sign changes between consecutive finite scan values"""
    out = []
    prev = None
    for u, v in zip(SCAN, vals):
        if v != v:
            continue
        if prev is not None and v != 0 and prev[1] != 0 and (v < 0) != (prev[1] < 0):
            out.append((prev[0], u))
        prev = (u, v)
    return out


def real_cases(ctx):
    rng = ctx.rng
    nb = ctx.n(6, 250)
    batches = []
    # deterministic corpus batch: exercises the recorded finding on every run (marginal old sea, root ~2.7 m/s)
    batches.append(dict(pair=["st4", "st4"], nf=60, fmax=1.0, nd=36, dedt=None, diriter=False, corpus=True,
                        seas=[{"fp": 0.1, "hs": 3.0, "dir": 30.0, "width": 30.0, "depth": INF, "gamma": 3.3,
                               "stream": "marginal", "ratio": 0.86},
                              {"fp": 0.15, "hs": 2.5, "dir": 200.0, "width": 30.0, "depth": INF, "gamma": 3.3,
                               "stream": "main", "ratio": 1.6},
                              {"fp": 0.1, "hs": 0.01, "dir": 0.0, "width": 30.0, "depth": INF, "gamma": 3.3,
                               "stream": "calm", "ratio": 0.003}]))
    # second corpus batch: the young wind sea of the second recorded finding (Aitken overshoot into a roughness failure)
    batches.append(dict(pair=["st4", "st4"], nf=36, fmax=1.0, nd=24, diriter=False, corpus=True,
                        dedt={"c1": -1.7087976497992812e-05, "c2": -8.412825645529257e-05, "c3": 1.6547526602847636e-06},
                        seas=[{"fp": 0.376, "hs": 0.6118848232437011, "dir": 282.51193621130074, "width": 40.0,
                               "depth": INF, "gamma": 3.3, "stream": "main", "ratio": 2.4857996773247555}]))
    # third corpus batch: zero step at the bracket end (third recorded finding)
    batches.append(dict(pair=["st4", "st4"], nf=CORPUS3["nf"], fmax=CORPUS3["fmax"], nd=CORPUS3["nd"], diriter=False,
                        corpus=True, dedt=CORPUS3["dedt"], seas=[CORPUS3["sea"]]))
    # fourth corpus batch: direction iteration where the stress evaluation fails at the solved wind (repaired in /repo
    # ee34979: used to escape the jitted parallel loop as SystemError; must be NaN)
    batches.append(dict(pair=["st4", "st6"], nf=36, fmax=1.0, nd=36, diriter=True, corpus=True,
                        dedt={"c1": 2.4781700125189064e-05, "c2": 8.274664577732858e-05, "c3": -1.118623712781574e-06},
                        seas=[{"fp": 0.0848, "hs": 4.06325507658607, "dir": 359.0, "width": 20.0, "depth": INF,
                               "gamma": 3.3, "stream": "marginal", "ratio": 0.8396272926992383}]))
    # fifth corpus batch: the fourth recorded finding (converged on the 0.01 m/s step, 0.056 m/s from the root)
    batches.append(dict(pair=["st4", "st6"], nf=64, fmax=2.0, nd=24, diriter=False, corpus=True,
                        dedt={"c1": 3.9436758825426736e-05, "c2": 5.833156563762305e-05, "c3": -1.8051622395607384e-06},
                        seas=[{"fp": 0.21200000000000002, "hs": 1.161981220240082, "dir": 58.22719104167824, "width": 40.0,
                               "depth": INF, "gamma": 3.3, "stream": "main", "ratio": 1.5006920678870765}]))
    for b in range(nb):
        n = (b % 8) + 1 if b < 8 else rng.randint(1, 8)
        seas = []
        for i in range(n):
            r = rng.random()
            seas.append(gen_sea(rng, "main" if r < 0.7 else ("marginal" if r < 0.87 else "calm")))
        dedt = None
        if rng.random() < 0.45:
            # a third of the rate-of-change spectra are strong (the sea grows by a factor e in an hour or less): the
            # supplied dE/dt then moves the balancing wind by metres per second, not hundredths
            big = 8.0 if rng.random() < 0.35 else 1.0
            dedt = {"c1": (1 if big > 1 else rng.choice([-1, 1])) * big * rng.uniform(1e-5, 5e-5), "c2": rng.choice([-1, 1]) * rng.uniform(2e-5, 1e-4),
                    "c3": rng.choice([-1, 1]) * rng.uniform(1e-7, 2e-6)}
        anyhf = any(x.get("hf") for x in seas)
        batches.append(dict(pair=rng.choice([["st4", "st4"], ["st4", "st6"]]), nf=(64 if anyhf else rng.choice([36, 48])),
                            fmax=(2.0 if anyhf else rng.choice([0.8, 1.0])), nd=rng.choice([24, 36]), dedt=dedt,
                            diriter=(rng.random() < 0.15), seas=seas, corpus=False,
                            fgrid=rng.choice(["linear", "linear", "log"])))
    cases = []
    for bt in batches:
        cases.append({"op": "real", "pair": bt["pair"], "nf": bt["nf"], "fmin": C.fx(0.03), "fmax": C.fx(bt["fmax"]),
                      "fgrid": bt.get("fgrid", "linear"),
                      "nd": bt["nd"], "specs": [sea_payload(s) for s in bt["seas"]],
                      "dedt": ({k: C.fx(v) for k, v in bt["dedt"].items()} if bt["dedt"] else None),
                      "diriter": bt["diriter"], "scan": [C.fx(u) for u in SCAN], "nfield": ctx.n(2, 3), "singles": True})
    return batches, cases


def real_finish(ctx, batches, impl):
    lines, lmeta = [], []
    overshoot = []      # candidates of the second recorded finding; reported un-keyed when they are not rare
    zero_step = []      # candidates of the third recorded finding
    marginal = []       # candidates of the fourth recorded finding: converged on the step, 0.05..0.1 m/s from the root
    nonzero = [0]
    for bi, (bt, im) in enumerate(zip(batches, impl)):
        if "error" in im:
            continue
        for i, pt in enumerate(im["points"]):
            if "D" in pt:
                nf, nd = bt["nf"], bt["nd"]
                lines.append("dissdir %d %s %d %s %d %s %d %s %d %d %s" % (
                    nf, " ".join(pt["k"]), nd, " ".join(im["theta"]), nf, " ".join(im["df"]), nd, " ".join(im["dth"]),
                    nf, nd, " ".join(pt["D"])))
                lmeta.append(("dissdir", bi, i))
            if "G" in pt and "T" in pt:
                nf, nd = bt["nf"], bt["nd"]
                lines.append("balance %d %s %d %s %s %s %d %d %s %d %d %s" % (
                    nf, " ".join(im["df"]), nd, " ".join(im["dth"]), C.fx(-C.unfx(im["bulk_diss"][i])), im["u10"][i],
                    nf, nd, " ".join(pt["G"]), nf, nd, " ".join(pt["T"])))
                lmeta.append(("balance", bi, i))
    mod = ctx.model(lines) if lines else []
    modres = {m: r for m, r in zip(lmeta, mod)}
    sampled = 0
    for bi, (bt, im) in enumerate(zip(batches, impl)):
        base = {"op": "estimate_u10_from_source_terms", "generation": bt["pair"][0], "dissipation": bt["pair"][1],
                "frequencies": ("linspace(0.03,%g,%d)" if bt.get("fgrid", "linear") == "linear" else "geometric(0.03,%g,%d)") % (bt["fmax"], bt["nf"]), "directions": "linspace(0,360,%d,endpoint=False)" % bt["nd"],
                "spectra (JONSWAP x raised cosine)": bt["seas"], "rate_of_change": bt["dedt"],
                "direction_iteration": bt["diriter"]}
        if "error" in im:
            ctx.count(["real-error", bi], False)
            ctx.oracle_fail("estimate_u10_from_source_terms raised: %s" % im, base, key="inversion-raises")
            continue
        n = len(bt["seas"])
        ctx.tally("real:batch%d" % n); ctx.tally("real:%s/%s" % tuple(bt["pair"]))
        ctx.tally("real:dedt" if bt["dedt"] else "real:no-dedt")
        ctx.tally("real:diriter" if bt["diriter"] else "real:no-diriter")
        for i in range(n):
            sea = bt["seas"][i]
            pt = im["points"][i]
            u, d = C.unfx(im["u10"][i]), C.unfx(im["dir"][i])
            bd = C.unfx(im["bulk_diss"][i])
            rep = dict(base, member=i, u10=u, direction=d, bulk_dissipation=bd, first_guess=C.unfx(im["guess"][i]),
                       member_spectrum=sea)
            ctx.count(["real", bt["pair"], bt["nf"], bt["nd"], bt["fmax"], bt["dedt"], bt["diriter"], sea], bd != 0.0)
            ctx.tally("real-stream:" + sea["stream"])
            ctx.tally("real-depth:" + ("deep" if sea["depth"] == INF else "finite"))
            if sampled < 2 and bd != 0 and u == u:
                ctx.sample({"real": {"pair": bt["pair"], "sea": sea, "u10": u, "direction": d, "bulk_diss": bd,
                                     "F(u-.01),F(u),F(u+.01)": [C.unfx(v) for v in pt.get("F", [])]}})
                sampled += 1
            # ---- batch == single
            su, sd = C.unfx(im["single_u10"][i]), C.unfx(im["single_dir"][i])
            if not C.close(u, su, 1e-12, 0) or not C.close(d, sd, 1e-12, 0):
                ctx.oracle_fail("batch member %d gives (%r, %r) but the same spectrum alone gives (%r, %r)" % (i, u, d, su, sd), rep)
            # ---- zero-dissipation rule
            if bd == 0.0:
                ctx.tally("real-outcome:zero-dissipation")
                if u != 0.0:
                    ctx.oracle_fail("integrated dissipation is zero but U10 = %r" % u, rep)
                continue
            if u == 0.0:
                ctx.oracle_fail("U10 = 0 although the integrated dissipation is %r" % bd, rep)
                continue
            if bd > 0 or bd != bd:
                ctx.tally("real:odd-dissipation(skipped)")
                continue
            nonzero[0] += 1
            # ---- direction rule (no direction iteration): dissipation-weighted mean wave direction
            md = C.unfx(im["mean_dir"][i])
            if not bt["diriter"]:
                if not (abs((d - md + 180) % 360 - 180) <= 1e-9):
                    ctx.oracle_fail("reported direction %r is not the dissipation-weighted mean direction %r" % (d, md), rep)
            mr = modres.get(("dissdir", bi, i))
            if mr is not None:
                mdir, mbulk, mkx, mky = (C.unfx(t) for t in mr)
                ctx.tally("real:model-direction")
                if not C.close(mbulk, bd, 1e-9, 0):
                    ctx.disagree("integrated dissipation %r differs from the model's sum %r over the implementation's own "
                                 "dissipation field" % (bd, mbulk), dict(rep, model_bulk=mbulk), is_property_failure=True)
                if not bt["diriter"] and not (abs((d - mdir + 180) % 360 - 180) <= 1e-6):
                    ctx.disagree("reported direction %r, model direction %r (dissipation-weighted wavenumber vector (%r,%r))"
                                 % (d, mdir, mkx, mky), dict(rep, model_direction=mdir), is_property_failure=True)
            # ---- scan of the balance
            scan = [C.unfx(v) for v in pt["scan"]]
            sc = sign_changes(scan)
            if u != u:
                ctx.tally("real-outcome:nan")
                why = pt.get("why", {})
                rep["nan_classification"] = why
                rep["scan_sign_changes"] = sc
                if why.get("twin") == "converged":
                    ctx.oracle_fail("the jitted inversion returns NaN, the same solver source run as plain Python on the same "
                                    "balance function converges to %r" % C.unfx(why["x"]), rep)
                elif len(sc) == 1 and not bt["diriter"]:
                    at = C.unfx(why["at"]) if why.get("twin") == "balance-raised" else NAN
                    if at == at and sc[0][1] <= 4.0:
                        ctx.oracle_fail("NaN although the scanned balance changes sign once, in %r: the balance function raises "
                                        "at the visited iterate %r" % (sc[0], at), rep, key=FINDING_KEY)
                    elif at == at and at < sc[0][1]:
                        # a step of the solver (typically the Aitken extrapolation) lands at a lower wind speed than the root,
                        # where the roughness solver raises
                        overshoot.append(("NaN although the scanned balance changes sign once, in %r: a step of the solver lands at "
                                          "%r m/s, below the root, where the balance function (roughness solver) raises"
                                          % (sc[0], at), rep))
                    elif sea["stream"] != "main" and why.get("twin") != "converged":
                        ctx.tally("real:edge-stream-nan-with-root(not reported)")
                    else:
                        ctx.oracle_fail("NaN although the scanned balance changes sign exactly once on 2..40 m/s, in %r (%s)"
                                        % (sc[0], why), rep)
                else:
                    ctx.tally("real:nan-without-single-root(allowed)")
                continue
            # ---- finite result
            if not (u > 0):
                ctx.oracle_fail("U10 = %r is not positive" % u, rep)
                continue
            ctx.tally("real-outcome:finite")
            if "F" not in pt:
                ctx.tally("real:residual-not-evaluable(skipped)")
                continue
            Fm, F0, Fp = (C.unfx(v) for v in pt["F"])
            if bt["diriter"]:
                ctx.tally("real:diriter-residual-not-checked")
                continue
            if Fm != Fm or F0 != F0 or Fp != Fp:
                ctx.tally("real:residual-not-evaluable(skipped)")
                continue
            # residual oracle on the balance as the inversion saw it (roughness remembered along the solver's path)
            if "Fw" not in pt:
                ctx.tally("real:plain-python-twin-differs(residual not checked)")
                continue
            fw = [C.unfx(v) for v in pt["Fw"]]
            if any(v != v for v in fw):
                ctx.tally("real:residual-not-evaluable(skipped)")
                continue
            # the step test of the solver bounds the distance to the root only up to the ratio between its secant slope and
            # the true slope (under-relaxed secant on a convex balance: observed up to 0.03 m/s over 3000 wind seas): the
            # oracle asks for a root within 0.05 m/s = 5 x atol
            tol = 2.5 * abs(fw[4] - fw[2]) + 1e-7 * abs(bd)
            five = fw
            fresh0 = F0
            F0 = fw[3]
            if abs(fresh0 - F0) > 1e-3 * abs(bd):
                # the stress balance has more than one root here: the public API (fresh start of the roughness solver) and
                # the inversion (remembered roughness) see different wind inputs at the same wind speed
                ctx.tally("real:roughness-branch-differs-from-fresh-start")
            # the balance jumps where a bin enters/leaves the actively forced region: a sign change within 0.05 m/s of the
            # returned wind is a root in the only sense available there
            crossing = min(five) <= 0.0 <= max(five)
            slope = abs(fw[4] - fw[2]) / 0.02
            if sea["stream"] == "main" and slope > 0 and not pt.get("zero_step"):
                dist = abs(F0) / slope
                if dist > ctx.extra.get("max_root_distance_main_stream_m_per_s", 0.0):
                    ctx.extra["max_root_distance_main_stream_m_per_s"] = dist
            rep["balance_at_u10+(-0.05,-0.02,-0.01,0,0.01,0.02,0.05)"] = five
            # the edge stream (barely dissipating seas: balance dominated by the rate-of-change term or by the erratic
            # low-wind roughness) is outside the property's quantifier: residual failures there are recorded, not reported
            offq = sea["stream"] != "main"
            if abs(F0) > tol and not crossing:
                if pt.get("zero_step"):
                    zero_step.append(("the inversion stops at %r with a step of exactly zero although the balance there is %r "
                                      "(allowed %r): the bounds check moved the step back onto the current iterate, which is "
                                      "itself the end of the bracket" % (u, F0, tol), rep))
                elif offq:
                    ctx.tally("real:edge-stream-residual-above-tolerance(not reported)")
                elif abs(F0) <= 2.0 * tol:
                    marginal.append(("balance function at the returned U10 is %r, more than its change %r over 0.05 m/s (but less "
                                     "than its change over 0.1 m/s), and it does not change sign within 0.05 m/s" % (F0, tol), rep))
                else:
                    ctx.oracle_fail("balance function at the returned U10 is %r, more than its change %r over 0.05 m/s, and it does "
                                    "not change sign within 0.05 m/s" % (F0, tol), rep)
                continue
            if crossing and abs(F0) > tol:
                ctx.tally("real:root-at-a-jump-of-the-balance")
            # the statement itself, from independent pieces: public bulk rates + own active-region sum
            pin = C.unfx(pt.get("pub_in", "nan"))
            if pin != pin:
                pin = C.unfx(pt.get("in_indep", "nan"))
                ctx.tally("real:public-bulk-rate-nan(own field used)")
            act = C.unfx(pt.get("act_indep", "nan"))
            same_branch = abs(fresh0 - F0) <= 1e-3 * abs(bd)
            if pin == pin and act == act:
                R = pin + bd - act
                rep["input+dissipation-dEdt_active"] = R
                if same_branch and abs(R) > tol + 1e-4 * abs(bd) and not crossing and not offq:
                    ctx.oracle_fail("bulk input %r + bulk dissipation %r - active dE/dt %r = %r exceeds the change of the balance "
                                    "over 0.05 m/s (%r)" % (pin, bd, act, R, tol), rep)
                # ... and the function handed to the solver IS that combination (roughness re-solved: 1e-4 of the terms)
                sc3 = abs(pin) + abs(bd) + C.unfx(pt.get("act_abs", "0x0p+0"))
                if not pt.get("F_warm") and abs(R - fresh0) > 1e-4 * sc3:
                    ctx.oracle_fail("the balance function of the inversion gives %r at the returned wind, bulk input + bulk dissipation "
                                    "- dE/dt over the active bins gives %r" % (fresh0, R), rep)
                if bt["dedt"]:
                    ctx.tally("real:residual-with-dedt")
            else:
                ctx.tally("real:independent-residual-not-evaluable")
            mr = modres.get(("balance", bi, i))
            if mr is not None:
                mF, min_, mact = (C.unfx(t) for t in mr)
                scale = C.unfx(pt["in_abs"]) + abs(bd) + C.unfx(pt["act_abs"])
                ctx.tally("real:model-balance")
                if not pt.get("F_warm") and not C.close(fresh0, mF, 1e-9, 0, scale):
                    ctx.disagree("_u10_iteration_function gives %r, the model's balance (bulk input - target - dE/dt over active "
                                 "bins, on the implementation's own fields) %r" % (fresh0, mF), dict(rep, model_balance=mF),
                                 is_property_failure=True)
                if not C.close(C.unfx(pt["act"]), mact, 1e-9, 0, C.unfx(pt["act_abs"])):
                    ctx.disagree("active-region dE/dt %r, model %r" % (C.unfx(pt["act"]), mact), rep, is_property_failure=True)
            # ---- non-degeneracy cross-check: a finite result where the scan brackets exactly one root lies in that bracket
            # (a returned wind that itself sits on a sign change of the balance - `crossing` - IS a root: with a strong
            # rate-of-change spectrum the balance can cross zero more than once, and the 0.5 m/s scan, which carries the
            # roughness memory like the solver does, then shows only one of the crossings)
            if len(sc) == 1 and not (sc[0][0] - 0.6 <= u <= sc[0][1] + 0.6) and not crossing:
                ctx.oracle_fail("returned U10 %r is not at the only sign change of the scanned balance %r" % (u, sc[0]), rep)
    ctx.tally("real:nan-overshoot-into-roughness-failure", len(overshoot))
    rare = len(overshoot) <= max(2, 0.03 * nonzero[0])
    for desc, rep in overshoot:
        ctx.oracle_fail(desc, rep, key=(FINDING_KEY2 if rare else None))
    ctx.tally("real:step-converged-0.05-to-0.1-from-root", len(marginal))
    rare = len(marginal) <= max(2, 0.003 * nonzero[0])
    for desc, rep in marginal:
        ctx.oracle_fail(desc, rep, key=(FINDING_KEY4 if rare else None))
    ctx.tally("real:zero-step-false-convergence", len(zero_step))
    rare = len(zero_step) <= max(2, 0.03 * nonzero[0])
    for desc, rep in zero_step:
        ctx.oracle_fail(desc, rep, key=(FINDING_KEY3 if rare else None))


def run(ctx):
    import time
    from concurrent.futures import ThreadPoolExecutor
    rng = ctx.rng
    t0 = time.time()
    # ---------------- (a) solver
    n = ctx.n(600, 20000)
    specs, cases, lines = [], [], []
    for i in range(n):
        k, a, b, c = gen_fun(rng)
        cname, cfg, guess = gen_cfg(rng)
        specs.append((k, a, b, c, cname, cfg, guess))
        cases.append(newton_case(k, a, b, c, cfg, guess))
        lines.append(newton_line(k, a, b, c, cfg, guess))
    for (k, a, b, c, cname, cfg, guess) in edge_solver_cases():
        specs.append((k, a, b, c, cname, cfg, guess))
        cases.append(newton_case(k, a, b, c, cfg, guess))
        lines.append(newton_line(k, a, b, c, cfg, guess))
    n = len(specs)
    # a NaN-valued function must end in an exception (validated on the implementation only)
    nan_case = dict(newton_case(0, 1.0, 1.0, 0.0, CFG_DRIVER, 5.0), kind=100)
    tspecs, const_cases = toy_specs(ctx)
    impl = ctx.impl("C11.py", {"cases": cases + [nan_case] + const_cases})["results"]
    mod = ctx.model(lines)
    check_solver(ctx, specs, impl[:n], mod)
    if "exc" not in impl[n]:
        ctx.oracle_fail("a NaN-valued balance function does not end in an exception (=> NaN wind): %s" % impl[n],
                        {"op": "numba_newton_raphson", "function": "nan", "impl": impl[n]})
    ctx.sample({"solver": {"function": KIND_NAMES[specs[0][0]], "params": specs[0][1:4], "config": specs[0][4],
                           "guess": specs[0][6], "impl": impl[0], "model": " ".join(mod[0])}})
    t1 = time.time()
    # ---------------- (b) real driver on analytic source terms, (c) real source terms: the two implementation
    # processes run side by side (each pays its own numba compilation)
    tcases, metas, bmetas = toy_cases(ctx, tspecs, impl[n + 1:])
    batches, rcases = real_cases(ctx)
    with ThreadPoolExecutor(max_workers=2) as ex:
        ft = ex.submit(ctx.impl, "C11.py", {"cases": tcases})
        fr = ex.submit(ctx.impl, "C11.py", {"cases": rcases})
        timpl = ft.result()["results"]
        t2 = time.time()
        rimpl = fr.result()["results"]
    t3 = time.time()
    toy_finish(ctx, tspecs, metas, bmetas, timpl)
    real_finish(ctx, batches, rimpl)
    ctx.extra["wall_parts_s"] = {"solver": round(t1 - t0, 1), "toy_driver_impl": round(t2 - t1, 1),
                                 "real_source_terms_impl": round(t3 - t1, 1), "compare": round(time.time() - t3, 1)}


ANCHORS = ["src/ocean_science_utilities/wavephysics/balance/wind_inversion.py",
           "src/ocean_science_utilities/wavephysics/balance/solvers.py",
           "src/ocean_science_utilities/wavephysics/balance/dissipation.py",
           "src/ocean_science_utilities/wavephysics/balance/stress.py",
           "src/ocean_science_utilities/wavephysics/windestimate.py"]
READY = True
LEVEL_TEXT = ("Theorems (Coq, all grids, batch sizes, functions and solver options): zero integrated dissipation gives U10 = 0; "
              "without direction iteration the reported direction is the polar angle of the dissipation-weighted wavenumber "
              "vector (atan2 specification proved); the function handed to the solver is bulk input - target - dE/dt over the "
              "bins with positive input; a finite wind is the Converged result of the hybrid Newton solver on that function with "
              "last step < 0.01 m/s (and never an Aitken extrapolation pass), is non-negative, NaN exactly when the run did not "
              "converge; batches are a map. Solver: partial correctness, enclosure in the hard bounds, bracket invariant "
              "(sign change kept, nested brackets, iterate inside), IVT root in the bracket, extensionality. The model "
              "(solver with its bracket state, driver incl. direction iteration, direction and balance formulas) is tied to the "
              "code on every run: extracted solver vs numba_newton_raphson on analytic jitted functions, extracted driver vs the "
              "real _u10_from_bulk_rate_point/_u10_from_spectra on analytic jitted source terms, model formulas vs the "
              "implementation on its own ST4/ST6 fields.")
LEVEL_NOTE = ("Not proved (false in general, shown by counterexamples of the extracted model and the code): that a converged run "
              "is near a root - the code tests the step, not the residual; only newton_step_residual_partial (untouched "
              "Newton/secant final step) bounds the balance. Strict positivity is validated, 0 <= u is proved. The "
              "non-degeneracy clause (finite where a 2..40 m/s scan shows one sign change) and the residual at the returned wind "
              "(a root of the balance within 0.05 m/s = 5 x atol, in the sign-change sense where the balance jumps) are validated "
              "by execution on JONSWAP seas, not proved; three recorded findings (NaN when a solver step lands where the roughness "
              "solver raises, twice; a zero step at a bracket end ending the run). Source terms, roughness solver, wavenumbers and first guess are inputs taken from the "
              "implementation; NaN arithmetic and the roughness memory between evaluations are not modelled. Trusted: Coq kernel, "
              "extraction (R as binary64), numba compiling the jitted code to its Python semantics, harness tolerances.")
TECHNIQUE = ("Coq proof (invariant of the solver loop by induction over runs, IVT, list induction for the spectral sums, atan2/"
             "fmod lemmas) + extracted-model correspondence at three levels (solver, driver on analytic source terms, formulas "
             "on the implementation's own fields) + residual/scan/batch oracles on the real inversion")
DESIGN_REF = "DESIGN.md section 5 C11"
