"""C09 joint rotation / mirror invariance of source terms, roughness and stress.

Every base spectrum is put into ONE batch together with all its N rotations and its mirror image
(the batch axis is the rotation index), so a single implementation call yields everything the
relation needs.  The extracted Coq model is compared on the original, two rotations and the mirror.
"""
import json
import math
import os

import common as C
import props.C08 as G

RULE = ("one evaluation = one (base spectrum, rotation k or mirror, output) relation between implementation(original) and "
        "implementation(rotated), or one model-vs-implementation comparison of a stress / tail stress / mean direction / "
        "field; non-trivial = the compared quantity is not identically zero; distinct by hash of (grid, spectrum, wind, "
        "depth, roughness, parameters, k, output)")
ASSUMPTIONS = [
    "equality under rotation holds in R (theorems); on floats the rotated sums associate differently, so relations are "
    "checked at 1e-9 relative (fields: plus 1e-11 of the field maximum), directions as unit vectors at 1e-7 degree "
    "when the vector is not tiny, solver outputs (roughness, inverted wind) at twice the solver tolerance",
    "the root x0 of the WAM critical-height equation (numba_newton_raphson inside integrate_tail_frequency_distribution) "
    "is taken from the implementation and given to the model; its residual is checked by an oracle",
    "numba compiles the jitted loops to the Python semantics of the source",
]
TRUSTED = ["WAM tail stress: the Newton root x0 is an input of the model (solver not modelled; it is direction independent)"]

RT = 1e-9


def rot_E(E, k, N):
    return [[r[(j - k) % N] for j in range(N)] for r in E]


def mir_E(E, N):
    return [[r[(N - j) % N] for j in range(N)] for r in E]


SOLVER_KEY = "roughness:newton-convergence-differs-under-rotation"


def load_corpus():
    """deterministic cases kept from earlier runs (corpus/C09/*.json), evaluated first on every run"""
    d = os.path.join(C.VERIF, "corpus", "C09")
    out = []
    if os.path.isdir(d):
        for fn in sorted(os.listdir(d)):
            if fn.endswith(".json"):
                o = json.load(open(os.path.join(d, fn)))
                o["name"] = fn[:-5]
                out.append(o)
    return out


def ang_close(a, b, tol_deg=1e-7):
    d = (a - b + 180.0) % 360.0 - 180.0
    return abs(d) <= tol_deg


def run(ctx):
    rng = ctx.rng
    nbase = ctx.n(12, 300)
    bases = []
    cases = []
    corpus = load_corpus()
    for bi in range(nbase + len(corpus)):
        if bi < len(corpus):
            c0 = corpus[bi]
            grid = {"f": c0["frequency_hz"], "dir": c0["direction_deg"], "dirkind": "uniform", "fkind": "corpus"}
            windkind = c0["wind_speed_input_type"]
            nondefault = False
            gp, s4, s6, ro = dict(G.GEN_DEFAULT), dict(G.ST4_DEFAULT), dict(G.ST6_DEFAULT), dict(G.ROM_DEFAULT)
            p0 = {"U": c0["wind_speed"], "wd": c0["wind_direction"], "depth": float(c0["depth"]),
                  "z0": c0["roughness_length"], "E": c0["variance_density"], "skind": "corpus:" + c0["name"]}
            N = len(grid["dir"])
            step = 360.0 / N
        else:
            grid = G.gen_grid(rng, uniform_dirs=True, nd_choices=(16, 24, 36), nf_range=(8, 16))
            if bi - len(corpus) < 3:
                grid = G.gen_grid(rng, uniform_dirs=True, nd_choices=((16, 24, 36)[bi - len(corpus)],), nf_range=(8, 16))
            N = len(grid["dir"])
            step = 360.0 / N
            windkind = rng.choice(["u10", "u10", "u10", "friction_velocity"])
            nondefault = rng.random() < 0.5
            gp, s4, s6, ro = G.gen_params(rng, nondefault)
            if nondefault and rng.random() < 0.5:
                # band widths that are whole multiples of the bin width: the band edge falls on bin centres
                s4["saturation_integration_width_degrees"] = rng.choice([m * step for m in range(1, N) if 40 <= m * step < 90])
            p0 = G.gen_point(rng, grid, windkind)
            while p0["skind"] == "zero":
                p0 = G.gen_point(rng, grid, windkind)
            if rng.random() < 0.3:
                p0["wd"] = rng.choice([0.0, step, step / 2, 90.0, 180.0 + step / 2])
        pts = []
        for k in range(N):
            p = dict(p0)
            p["E"] = rot_E(p0["E"], k, N)
            p["wd"] = p0["wd"] + k * step
            p["role"] = ("rot", k)
            pts.append(p)
        pm = dict(p0)
        pm["E"] = mir_E(p0["E"], N)
        pm["wd"] = -p0["wd"]
        pm["role"] = ("mirror", 0)
        pts.append(pm)
        b = {"grid": grid, "windkind": windkind, "pts": pts, "gp": gp, "s4": s4, "s6": s6, "ro": ro,
             "nondefault": nondefault, "N": N, "step": step}
        bases.append(b)
        want = ["grid", "gen_rate", "gen_bulk", "st4_rate", "st4_bulk", "st6_rate", "st6_bulk", "stress", "tail",
                "tail_root", "st4_dir", "st6_dir", "rough", "stress_int"]
        c = G.case_of(b, want=want)
        if windkind == "u10" and bi % ctx.n(2, 4) == 0:
            c["want"].append("inversion")
            c["inv_guess"] = G.hexl([10.0] * len(pts))
            c["inv_diss"] = "st4"
        cases.append(c)
    res = ctx.impl("C09.py", {"cases": cases}, timeout=3400)["results"]

    # ------------------------------------------------------------------ model requests
    mlines, mindex = [], []
    for bi, (b, r) in enumerate(zip(bases, res)):
        if G.is_err(r) or G.is_err(r.get("grid")):
            continue
        sg = {k: [C.unfx(v) for v in r["grid"][k]] for k in r["grid"]}
        b["sg"] = sg
        N = b["N"]
        ks = [0, rng.randrange(1, N), rng.randrange(1, N), N]       # N = the mirror point
        b["model_points"] = sorted(set(ks))
        roots = None if G.is_err(r.get("tail_root")) else [C.unfx(v) for v in r["tail_root"]["root"]]
        for k in b["model_points"]:
            p = b["pts"][k]
            Ef = G.flat(p["E"])
            if k != 0:
                mlines.append(G.line_gen(b["windkind"], p["U"], p["wd"], p["depth"], p["z0"], b["gp"], sg, Ef))
                mindex.append((bi, k, "gen"))
                mlines.append(G.line_diss("st4", p["depth"], b["s4"], G.ST4_ORDER, sg, Ef))
                mindex.append((bi, k, "st4"))
                mlines.append(G.line_diss("st6", p["depth"], b["s6"], G.ST6_ORDER, sg, Ef))
                mindex.append((bi, k, "st6"))
            if roots is not None and roots[k] == roots[k]:
                for cmd in ("stress", "tail"):
                    mlines.append(G.line_gen(b["windkind"], p["U"], p["wd"], p["depth"], p["z0"], b["gp"], sg, Ef,
                                             cmd=cmd, extra=" " + C.fx(roots[k])))
                    mindex.append((bi, k, cmd))
            mlines.append(G.line_diss("ddir4", p["depth"], b["s4"], G.ST4_ORDER, sg, Ef))
            mindex.append((bi, k, "ddir4"))
            mlines.append(G.line_diss("ddir6", p["depth"], b["s6"], G.ST6_ORDER, sg, Ef))
            mindex.append((bi, k, "ddir6"))
    mres = ctx.model(mlines, timeout=3400)
    mod = dict(zip(mindex, mres))

    # ------------------------------------------------------------------ relations and comparisons
    for bi, (b, r) in enumerate(zip(bases, res)):
        g = b["grid"]
        N, step = b["N"], b["step"]
        nf = len(g["f"])
        n = nf * N
        p0 = b["pts"][0]
        ctx.tally("directions %d" % N)
        ctx.tally("spectrum " + p0["skind"])
        ctx.tally("wind input type " + b["windkind"])
        ctx.tally("depth " + ("infinite" if math.isinf(p0["depth"]) else "finite"))
        ctx.tally("parameters " + ("non-default" if b["nondefault"] else "default"))

        def rep(k, extra=None):
            role = b["pts"][k]["role"]
            d = G.replay_of(b, 0, {"transformation": "rotation by %d bins (%g degrees)" % (role[1], role[1] * step)
                                   if role[0] == "rot" else "mirror (direction -> -direction, wind direction negated)",
                                   "rotated_variance_density": b["pts"][k]["E"], "rotated_wind_direction": b["pts"][k]["wd"]})
            d.pop("point_index_in_batch", None)
            d.pop("batch_size", None)
            if extra:
                d.update(extra)
            return d

        if G.is_err(r):
            ctx.oracle_fail("evaluation raised %s" % r, rep(0))
            continue
        if G.is_err(r.get("grid")):
            ctx.oracle_fail("spectral_grid raised %s" % r["grid"], rep(0))
            continue
        sg = b["sg"]
        df, dth = sg["frequency_step"], sg["direction_step"]

        def fld(name, k):
            v = r.get(name)
            if v is None or G.is_err(v):
                return v if v is not None else {"error": "missing"}
            return G.unb64(v[k])

        def vec(name, k, sub=None):
            v = r.get(name)
            if v is None or G.is_err(v):
                return v if v is not None else {"error": "missing"}
            if sub is not None:
                v = v[sub]
            return C.unfx(v[k])

        def idx_map(k):
            """flat index of the ORIGINAL field that bin (i, j) of transformed point k must equal"""
            role = b["pts"][k]["role"]
            if role[0] == "rot":
                return lambda i, j: i * N + (j - role[1]) % N
            return lambda i, j: i * N + (N - j) % N

        def want_dir(k, d0):
            role = b["pts"][k]["role"]
            return d0 + role[1] * step if role[0] == "rot" else -d0

        # -------- fields: shift by k bins / mirrored
        for name in ("gen_rate", "st4_rate", "st6_rate"):
            f0 = fld(name, 0)
            if G.is_err(f0):
                ctx.oracle_fail("%s raised %s" % (name, f0), rep(0))
                continue
            scale = max(abs(v) for v in f0) if f0 else 0.0
            nz = scale > 0
            for k in range(1, N + 1):
                fk = fld(name, k)
                im = idx_map(k)
                ctx.count([name, bi, k, G.flat(p0["E"])[:48], p0["wd"]], nz)
                bad = None
                for i in range(nf):
                    for j in range(N):
                        if not C.close(fk[i * N + j], f0[im(i, j)], RT, 1e-11 * scale):
                            bad = (i, j)
                            break
                    if bad:
                        break
                if bad:
                    i, j = bad
                    ctx.oracle_fail("%s is not equivariant under %s: bin (%d,%d) of the transformed input is %r, the corresponding bin of the original is %r"
                                    % (name, rep(k)["transformation"], i, j, fk[i * N + j], f0[im(i, j)]),
                                    rep(k, {"output": name, "frequency_index": i, "direction_index": j,
                                            "transformed_value": fk[i * N + j], "original_value": f0[im(i, j)]}))
                    break
        # -------- bulk rates invariant
        for name, fname in (("gen_bulk", "gen_rate"), ("st4_bulk", "st4_rate"), ("st6_bulk", "st6_rate")):
            b0 = vec(name, 0)
            f0 = fld(fname, 0)
            if G.is_err(b0) or G.is_err(f0):
                if G.is_err(b0):
                    ctx.oracle_fail("%s raised %s" % (name, b0), rep(0))
                continue
            _, sa = G.bulk_terms(f0, df, dth, nf, N)
            for k in range(1, N + 1):
                bk = vec(name, k)
                ctx.count([name, bi, k, G.flat(p0["E"])[:48]], b0 != 0)
                if not C.close(bk, b0, RT, RT * sa):
                    ctx.oracle_fail("%s changes under %s: %r vs %r" % (name, rep(k)["transformation"], bk, b0),
                                    rep(k, {"output": name, "transformed_value": bk, "original_value": b0}))
                    break
        # -------- stress, tail stress: magnitude invariant, direction + alpha mod 360
        for name in ("stress", "tail", "stress_int"):
            if G.is_err(r.get(name)):
                if name != "stress_int":
                    ctx.oracle_fail("%s raised %s" % (name, r.get(name)), rep(0))
                else:
                    ctx.tally("stress with internal roughness raised")
                continue
            m0, d0 = vec(name, 0, "stress"), vec(name, 0, "direction")
            if m0 != m0:
                ctx.tally("%s: NaN on the original (roughness solver did not converge)" % name)
                continue
            mtol = RT if name != "stress_int" else 2e-5
            dtol = 1e-7 if name != "stress_int" else 1e-3
            for k in range(1, N + 1):
                mk, dk = vec(name, k, "stress"), vec(name, k, "direction")
                if name == "stress_int" and mk != mk:
                    # internal roughness did not converge for the transformed input (reported with the roughness relation)
                    ctx.tally("stress with internal roughness: NaN for the transformed input only")
                    continue
                ctx.count([name, bi, k, G.flat(p0["E"])[:48], p0["wd"]], m0 != 0)
                if not C.close(mk, m0, mtol, 0.0):
                    ctx.oracle_fail("%s magnitude changes under %s: %r vs %r" % (name, rep(k)["transformation"], mk, m0),
                                    rep(k, {"output": name + " magnitude", "transformed_value": mk, "original_value": m0}))
                    break
                if m0 > 0 and not ang_close(dk, want_dir(k, d0), dtol):
                    ctx.oracle_fail("%s direction under %s is %r, expected %r (mod 360)"
                                    % (name, rep(k)["transformation"], dk, want_dir(k, d0) % 360.0),
                                    rep(k, {"output": name + " direction", "transformed_value": dk, "original_value": d0}))
                    break
                if not (0.0 <= dk <= 360.0 or dk != dk):      # 360.0 itself can appear by rounding of (-tiny) % 360
                    ctx.oracle_fail("%s direction %r outside [0,360]" % (name, dk), rep(k))
                    break
        # -------- dissipation-weighted wave direction
        for name, bname in (("st4_dir", "st4_bulk"), ("st6_dir", "st6_bulk")):
            if G.is_err(r.get(name)):
                ctx.oracle_fail("%s raised %s" % (name, r.get(name)), rep(0))
                continue
            d0 = vec(name, 0)
            b0 = vec(bname, 0)
            if G.is_err(b0) or b0 == 0:
                ctx.tally("mean dissipation direction skipped (no dissipation)")
                continue
            toks = mod.get((bi, 0, "ddir4" if name == "st4_dir" else "ddir6"))
            wellcond = True
            if toks is not None and toks[0] != "ERR":
                kx, ky = C.unfx(toks[1]), C.unfx(toks[2])
                # |k-vector| against the sum of |terms| ~ |bulk| * k_max: skip nearly cancelling vectors
                kmax = (2 * math.pi * g["f"][-1]) ** 2 / 9.81 * 5
                wellcond = math.hypot(kx, ky) > 1e-6 * abs(b0) * kmax
            if not wellcond:
                ctx.tally("mean dissipation direction skipped (vector nearly cancels)")
                continue
            for k in range(1, N + 1):
                dk = vec(name, k)
                ctx.count([name, bi, k, G.flat(p0["E"])[:48]])
                if not ang_close(dk, want_dir(k, d0), 1e-6):
                    ctx.oracle_fail("%s under %s is %r, expected %r (mod 360)"
                                    % (name, rep(k)["transformation"], dk, want_dir(k, d0) % 360.0),
                                    rep(k, {"output": name, "transformed_value": dk, "original_value": d0}))
                    break
        # -------- roughness length (solver output): invariant at solver tolerance
        solver_reported = False
        if not G.is_err(r.get("rough")):
            z0 = vec("rough", 0)
            for k in range(1, N + 1):
                zk = vec("rough", k)
                ctx.count(["rough", bi, k, G.flat(p0["E"])[:48]])
                if z0 != z0 or zk != zk:
                    # the Newton iteration did not converge for at least one of the two inputs
                    if (z0 != z0) != (zk != zk):
                        ctx.tally("roughness: solver converged for only one of original / transformed input")
                        if not solver_reported:
                            solver_reported = True
                            ctx.oracle_fail("roughness() is %r for the original and %r after %s: the Newton iteration converges for only one of the two"
                                            % (z0, zk, rep(k)["transformation"]),
                                            rep(k, {"output": "roughness", "transformed_value": zk, "original_value": z0,
                                                    "roughness_of_every_rotation_then_mirror": [vec("rough", q) for q in range(N + 1)]}),
                                            key=SOLVER_KEY)
                    continue
                if abs(math.log(zk) - math.log(z0)) > 4e-6:
                    ctx.oracle_fail("roughness() changes under %s: %r vs %r" % (rep(k)["transformation"], zk, z0),
                                    rep(k, {"output": "roughness", "transformed_value": zk, "original_value": z0}))
                    break
            if z0 != z0:
                ctx.tally("roughness NaN on the original")
        else:
            ctx.oracle_fail("roughness() raised %s" % r.get("rough"), rep(0))
        # -------- inverted wind (speed invariant, direction + alpha), where the inversion returns a value
        if "inversion" in r:
            inv = r["inversion"]
            if G.is_err(inv):
                ctx.tally("wind inversion raised (%s)" % inv.get("error"))
            else:
                u0, d0 = C.unfx(inv["u10"][0]), C.unfx(inv["direction"][0])
                for k in range(1, N + 1):
                    uk, dk = C.unfx(inv["u10"][k]), C.unfx(inv["direction"][k])
                    if d0 == d0 and dk == dk and u0 != 0:
                        ctx.count(["inversion direction", bi, k])
                        if not ang_close(dk, want_dir(k, d0), 1e-4):
                            ctx.oracle_fail("estimated wind direction under %s is %r, expected %r (mod 360)"
                                            % (rep(k)["transformation"], dk, want_dir(k, d0) % 360.0),
                                            rep(k, {"output": "windspeed_and_direction_from_spectra direction",
                                                    "transformed_value": dk, "original_value": d0}))
                            break
                    if u0 != u0 or uk != uk or u0 == 0:
                        ctx.tally("estimated wind speed NaN/0 (solver found no wind; not compared)")
                        continue
                    ctx.count(["inversion speed", bi, k])
                    if abs(uk - u0) > 0.03:
                        ctx.oracle_fail("estimated wind speed under %s: %r m/s vs original %r m/s"
                                        % (rep(k)["transformation"], uk, u0),
                                        rep(k, {"output": "windspeed_and_direction_from_spectra u10",
                                                "transformed_value": uk, "original_value": u0}))
                        break
        # -------- tail root residual (the only solver output the model takes from the implementation)
        if not G.is_err(r.get("tail_root")):
            for k in (0,):
                x0 = C.unfx(r["tail_root"]["root"][k])
                if x0 == x0:
                    p = b["pts"][k]
                    gp = b["gp"]
                    ust = p["U"] * gp["vonkarman_constant"] / math.log(gp["elevation"] / p["z0"]) if b["windkind"] == "u10" else p["U"]
                    ch = p["z0"] * gp["gravitational_acceleration"] / ust**2
                    resid = math.log(ch) + 2 * x0 + gp["vonkarman_constant"] / (math.exp(x0) + gp["wave_age_tuning_parameter"])
                    ctx.count(["tail-root", bi])
                    if abs(resid) > 5e-3 and -10 < x0 < 0:
                        ctx.oracle_fail("root of the WAM critical height equation has residual %r at x0=%r" % (resid, x0),
                                        rep(0, {"output": "tail root", "x0": x0, "effective_charnock": ch}))
        # -------- the model on the original, two rotations and the mirror
        for k in b.get("model_points", []):
            p = b["pts"][k]
            for term, name, bname in (("gen", "gen_rate", "gen_bulk"), ("st4", "st4_rate", "st4_bulk"), ("st6", "st6_rate", "st6_bulk")):
                toks = mod.get((bi, k, term))
                if toks is None:
                    continue
                mf, mb = G.parse_field(toks, n)
                fk = fld(name, k)
                if mf is None or G.is_err(fk):
                    ctx.disagree("%s: model/implementation error on a transformed input" % term, rep(k))
                    continue
                ctx.count(["model", term, bi, k, G.flat(p["E"])[:48]], any(v != 0 for v in mf))
                i = G.field_diff(fk, mf)
                if i is not None:
                    ctx.disagree("%s on a transformed input (%s): implementation differs from the model at bin (%d,%d): impl %r model %r"
                                 % (term, rep(k)["transformation"], i // N, i % N, fk[i], mf[i]),
                                 rep(k, {"output": name, "frequency_index": i // N, "direction_index": i % N}))
            for cmd in ("stress", "tail"):
                toks = mod.get((bi, k, cmd))
                if toks is None or G.is_err(r.get(cmd)):
                    continue
                if toks[0] == "ERR":
                    ctx.disagree("%s: model error %s" % (cmd, " ".join(toks[:5])), rep(k))
                    continue
                vals = [C.unfx(t) for t in toks]
                if cmd == "stress":
                    mm, mdir, me, mn = vals
                else:
                    me, mn, mm, mdir = vals
                im, idr = vec(cmd, k, "stress"), vec(cmd, k, "direction")
                ctx.count(["model", cmd, bi, k, G.flat(p["E"])[:48], p["wd"]], mm != 0)
                sc = abs(me) + abs(mn)
                if not C.close(im, mm, RT, 1e-12 * sc):
                    ctx.disagree("%s magnitude: impl %r model %r (%s)" % (cmd, im, mm, rep(k)["transformation"]),
                                 rep(k, {"output": cmd + " magnitude", "impl_value": im, "model_value": mm}))
                elif mm > 0 and mdir == mdir and not ang_close(idr, mdir, 1e-7):
                    ctx.disagree("%s direction: impl %r model %r (%s)" % (cmd, idr, mdir, rep(k)["transformation"]),
                                 rep(k, {"output": cmd + " direction", "impl_value": idr, "model_value": mdir}))
                elif (mdir != mdir) != (idr != idr):
                    ctx.disagree("%s direction NaN mismatch: impl %r model %r" % (cmd, idr, mdir), rep(k))
            for cmd, name, bname in (("ddir4", "st4_dir", "st4_bulk"), ("ddir6", "st6_dir", "st6_bulk")):
                toks = mod.get((bi, k, cmd))
                if toks is None or toks[0] == "ERR" or G.is_err(r.get(name)):
                    continue
                md, kx, ky = (C.unfx(t) for t in toks[:3])
                b0 = vec(bname, k)
                if G.is_err(b0) or b0 == 0:
                    continue
                kmax = (2 * math.pi * g["f"][-1]) ** 2 / 9.81 * 5
                if math.hypot(kx, ky) <= 1e-6 * abs(b0) * kmax:
                    ctx.tally("model direction comparison skipped (vector nearly cancels)")
                    continue
                idr = vec(name, k)
                ctx.count(["model", cmd, bi, k, G.flat(p["E"])[:48]])
                if not ang_close(idr, md, 1e-6):
                    ctx.disagree("%s: impl %r model %r (%s)" % (name, idr, md, rep(k)["transformation"]),
                                 rep(k, {"output": name, "impl_value": idr, "model_value": md}))
        if bi < 2:
            ctx.sample({"grid": "%d x %d" % (nf, N), "spectrum": p0["skind"], "wind": [p0["U"], p0["wd"], b["windkind"]],
                        "stress original (mag, dir)": [vec("stress", 0, "stress"), vec("stress", 0, "direction")] if not G.is_err(r.get("stress")) else None,
                        "stress rotated by 1 bin": [vec("stress", 1, "stress"), vec("stress", 1, "direction")] if not G.is_err(r.get("stress")) else None,
                        "roughness original/rotated/mirror": [vec("rough", 0), vec("rough", 1), vec("rough", N)] if not G.is_err(r.get("rough")) else None})
    ctx.extra["max_relative_deviation_model_vs_impl"] = G.MAXDEV[0]


READY = True
LEVEL_TEXT = ("Theorems (Coq, every uniform direction grid theta_j = th0 + j 2pi/N with constant bin width, every N, every "
              "k < N, every spectrum/wind/depth/roughness/parameter set): turning spectrum and wind by k bins shifts the ST4 "
              "wind-input field, the ST4 dissipation field (band-integrated saturation over +-width with the wrapped mutual "
              "angle, its row maximum, cumulative term with wave-speed vector differences) and the ST6 dissipation field by k "
              "bins; bulk rates are invariant; the resolved stress, the WAM tail stress and the total stress vector rotate by "
              "alpha = k 360/N (magnitude invariant, direction in [0,360) with cos/sin equal to those of direction + alpha); the "
              "dissipation-weighted wave direction turns by alpha; the stress-balance function whose root is the roughness "
              "length is pointwise the same function, so any extensional solver returns the same roughness. Mirror versions "
              "(th0 = 0, j -> (N-j) mod N, wind direction negated): fields mirrored, bulk invariant, north component negated, "
              "directions negated. Proof technique: cyclic re-indexing of finite sums + angle addition + atan2 specification. "
              "Every run checks the relation on the real code (implementation(original) vs implementation(rotated) for every "
              "k and the mirror, N in {16,24,36}) and compares the extracted model with the implementation on the original, "
              "two rotations and the mirror.")
LEVEL_NOTE = ("Equalities hold in R; on floats the relation is checked at 1e-9 (solver outputs at solver tolerance). Not proved: "
              "the roughness / wind-inversion solvers themselves (only extensionality of the function they are applied to); the "
              "estimated wind speed/direction relation is checked on the implementation only where the inversion returns a "
              "finite value. Where the roughness iteration converges for only one of the two inputs the case is reported under "
              "the known-finding key roughness:newton-convergence-differs-under-rotation (solver fragility, corpus case "
              "corpus/C09/roughness_solver_rotation.json). The root x0 of the WAM "
              "critical-height equation is an input of the model. Standard-library real-number axioms only.")
TECHNIQUE = "Coq proof (cyclic re-indexing + angle addition) + relation check implementation(original) vs implementation(rotated) + extracted-model correspondence"
DESIGN_REF = "DESIGN.md section 5 C09"
