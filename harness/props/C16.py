"""C16 synthetic time series: lengths, time axis, variance identities, sqrt(c) scaling, seeds."""
import math

import numpy as np

import common as C

RULE = ("one evaluation = one (spectrum, sampling rate, signal length, component, seed); non-trivial = the resampled "
        "spectrum has energy in at least one non-zero FFT bin; distinct by hash of the full input")
ASSUMPTIONS = ["floating point rounding is not modelled (series compared at 1e-9 relative to its rms, variance "
               "identities at 1e-9 relative)",
               "numpy's generator is not modelled: the phases default_rng(seed).uniform(0, 2 pi, shape) are re-drawn by "
               "the harness and given to the model; that numpy's irfft computes its defining sum is validated by the "
               "correspondence, not proved",
               "spectra are NaN-free, non-negative, on an ascending frequency grid; direction grids have positive steps"]
COMPS = ["u", "v", "w", "x", "y", "z"]
TWO_PI = 2 * math.pi


def gen_fgrid(rng):
    nf = rng.randint(4, 48)
    kind = rng.choice(["uniform", "uniform0", "geometric", "jitter"])
    if kind == "uniform":
        df = rng.choice([1 / 64.0, 1 / 32.0, 3 / 128.0, 1 / 16.0])
        f0 = rng.randint(1, 6) / 64.0
        f = [f0 + i * df for i in range(nf)]
    elif kind == "uniform0":
        df = rng.choice([1 / 64.0, 1 / 32.0, 1 / 16.0, 1 / 8.0])
        f = [i * df for i in range(nf)]
    elif kind == "geometric":
        x = rng.randint(2, 6) / 64.0
        q = rng.choice([1.06, 1.1, 1.15])
        f = []
        for i in range(nf):
            v = round(x * 4096) / 4096.0
            if not f or v > f[-1]:
                f.append(v)
            x *= q
    else:
        f0 = rng.randint(1, 6) / 64.0
        f = [f0 + i / 32.0 + rng.randint(-12, 12) / 2048.0 for i in range(nf)]
    return kind, f


def gen_shape(rng, f):
    kind = rng.choice(["random", "peaked", "peaked", "zeros", "flat"])
    nf = len(f)
    if kind == "flat":
        c = C.dyadic(rng, 0.1, 2, 8)
        return kind, [c] * nf
    fp = f[rng.randint(0, nf - 1)] or f[min(1, nf - 1)]
    E = []
    for x in f:
        if kind == "random":
            E.append(C.dyadic(rng, 0.0, 2.0, 10))
        else:
            r = x / fp if fp > 0 else 1.0
            base = r ** 4 if r < 1 else r ** -4
            E.append(C.dyadic(rng, 0.5, 1.0, 10) * base)
    if kind == "zeros":
        E = [0.0 if rng.random() < 0.3 else v for v in E]
    return kind, E


def gen_dirs(rng):
    nd = rng.choice([3, 4, 8, 12, 24])
    if rng.random() < 0.7:
        # also axes that are not ascending in [0, 360): negative labels, or starting mid-circle and wrapping through north
        off = rng.choice([0.0, 5.0, 7.5, 90.0, 352.5, 200.0, 200.0, -90.0, -157.5])
        d = [off + j * 360.0 / nd for j in range(nd)]
        if rng.random() < 0.5:
            d = [x % 360.0 for x in d]
    else:
        # irregular grid; every cyclic gap < 180 degrees (otherwise direction_step is negative: not a grid)
        while True:
            cuts = sorted(rng.sample(range(0, 720), nd))
            d = [x / 2.0 for x in cuts]
            gaps = [(d[(j + 1) % nd] - d[j]) % 360.0 for j in range(nd)]
            if max(gaps) < 179.0:
                break
    return d


def wrap180(x):
    return (x + 180.0) % 360.0 - 180.0


def factor_abs2(comp, w, th):
    return {"z": 1.0, "w": w * w, "x": math.cos(th) ** 2, "y": math.sin(th) ** 2,
            "u": (w * math.cos(th)) ** 2, "v": (w * math.sin(th)) ** 2}[comp]


def run(ctx):
    _run_main(ctx)
    import reuse_common
    reuse_common.reuse_check(ctx, "C16")


def _run_main(ctx):
    rng = ctx.rng
    ncase = ctx.n(70, 1500)
    nmax = ctx.n(2000, 6000)
    cases = []
    metas = []
    mlines = []
    for ic in range(ncase):
        gk, f = gen_fgrid(rng)
        nf = len(f)
        two_d = rng.random() < 0.45
        r = rng.random()
        if r < 0.3:
            n = rng.randint(8, 40)
        elif r < 0.85:
            n = rng.randint(41, 600)
        else:
            n = rng.randint(601, nmax)
        if (not ctx.quick()) and ic % 250 == 0:
            n = rng.randint(15000, 20000)
        r = rng.random()
        if r < 0.6:
            fs = rng.choice([0.5, 1.0, 2.0, 2.5, 4.0, 5.0, 8.0, 10.0])
        else:
            fs = C.dyadic(rng, 0.5, 10.0, 8)
        if rng.random() < 0.25:
            # FFT bins that coincide exactly with nodes of the spectrum's grid (first and last node included)
            n = rng.choice([16, 32, 64, 128, 256, 512]) + rng.choice([0, 1])
            fs = rng.choice([0.5, 1.0, 2.0, 4.0, 8.0])
            ctx.tally("aligned FFT bins")
        if rng.random() < 0.15:
            # a spectrum that already has the NUMBER of bins and the bin WIDTH of the FFT grid but need not lie ON it
            # (a one-sided FFT estimate of the same record with the mean bin dropped, or bin centres): it is resampled
            # onto k fs/nfft like any other
            n = rng.randint(16, 400)
            N_ = 2 * (n // 2)
            dfft = fs / N_
            off = rng.choice([1.0, 1.0, 0.5, 0.0, 2.0])
            f = [(i + off) * dfft for i in range(N_ // 2)]
            nf = len(f)
            gk = "fft-count-and-step(offset %g bins)" % off
            ctx.tally("spectrum with the FFT grid's count and step, offset %g bins" % off)
        # the ends of the seed range are seeds like any other (0 is falsy in Python: a classic slip)
        seed = rng.choice([0, 0, 1, 2 ** 32 - 1]) if rng.random() < 0.2 else rng.randrange(0, 2 ** 32)
        seed2 = rng.randrange(0, 2 ** 32)
        while seed2 == seed:
            seed2 = rng.randrange(0, 2 ** 32)
        scale = rng.choice([4.0, 0.25, 16.0, C.dyadic(rng, 0.1, 10.0, 8)])
        ncomp = 6 if (n <= 200 and rng.random() < 0.4) else 2
        comps = COMPS if ncomp == 6 else rng.sample(COMPS, 2)
        m = {"grid": gk, "f": f, "fs": fs, "n": n, "seed": seed, "seed2": seed2, "scale": scale, "comps": comps,
             "two_d": two_d, "n_float": rng.random() < 0.25}
        N = 2 * (n // 2)
        M = N // 2
        if two_d:
            dirs = gen_dirs(rng)
            nd = len(dirs)
            skind = rng.choice(["single", "single", "multi"])
            sk, E1 = gen_shape(rng, f)
            j0 = rng.randrange(nd)
            if skind == "single":
                E = [[(E1[i] if j == j0 else 0.0) for j in range(nd)] for i in range(nf)]
            else:
                E = [[E1[i] * C.dyadic(rng, 0.0, 1.0, 8) for j in range(nd)] for i in range(nf)]
            m.update({"dirs": dirs, "E": E, "skind": skind, "shape": sk, "j0": j0})
            case = {"kind": "2d", "f": [C.fx(x) for x in f], "dirs": [C.fx(x) for x in dirs],
                    "E": [[C.fx(x) for x in row] for row in E]}
            ph = np.random.default_rng(seed).uniform(0, 2 * np.pi, (M, nd))
            cols = "%d %s" % (nd, " ".join(C.flist([E[i][j] for i in range(nf)]) for j in range(nd)))
            phs = "%d %s" % (M, " ".join(C.flist(ph[k]) for k in range(M)))
            body = "%s %s %s %s" % (C.flist(f), C.flist(dirs), cols, phs)
            cmd = "ss2"
        else:
            sk, E = gen_shape(rng, f)
            m.update({"E": E, "skind": "1d", "shape": sk})
            case = {"kind": "1d", "f": [C.fx(x) for x in f], "E": [C.fx(x) for x in E]}
            ph = np.random.default_rng(seed).uniform(0, 2 * np.pi, (M,))
            body = "%s %s %s" % (C.flist(f), C.flist(E), C.flist(ph))
            cmd = "ss1"
        m["lead"] = rng.random() < 0.35
        case["lead"] = m["lead"]
        case.update({"fs": C.fx(fs), "n": n, "n_float": m["n_float"], "components": comps, "seed": seed,
                     "seed2": seed2, "scale": C.fx(scale)})
        if N <= 2048:
            idx = list(range(N))
        else:
            idx = sorted(set([0, 1, N // 2, N - 1] + [rng.randrange(N) for _ in range(200)]))
        m["idx"] = idx
        m["ci"] = len(cases)
        m["ml0"] = len(mlines)
        cases.append(case)
        for comp in comps:
            mlines.append("%s %s %s %d %s %s" % (cmd, comp, C.fx(fs), n, body, C.flist([float(i) for i in idx])))
        mlines.append("fstep %s" % C.flist(f))
        mlines.append("dstep %s" % (C.flist(m["dirs"]) if two_d else "0"))
        mlines.append("grid %s %d" % (C.fx(fs), n))
        if not two_d:
            mlines.append("resample %s %s %s %d" % (C.flist(f), C.flist(E), C.fx(fs), n))
        metas.append(m)
    # edge stream: fewer than two FFT bins (frequency_step cannot be formed): the code raises, the model says so
    edge = []
    for n in (0, 1, 2, 3, 4, 5):
        case = {"kind": "1d", "f": [C.fx(x) for x in (0.0625, 0.125, 0.25)], "E": [C.fx(1.0)] * 3,
                "fs": C.fx(2.0), "n": n, "n_float": False, "components": ["z"], "seed": 1, "seed2": 2,
                "scale": C.fx(4.0)}
        edge.append((n, len(cases), len(mlines)))
        cases.append(case)
        M = n // 2
        mlines.append("ts1 z %s %d %s %s %s" % (C.fx(2.0), n, C.flist([0.0625, 0.125, 0.25]), C.flist([1.0] * 3),
                                                  C.flist([0.5] * M)))

    impl = ctx.impl("C16.py", {"cases": cases})["results"]
    mod = ctx.model(mlines, timeout=3000)

    for n, ci, ml in edge:
        im = impl[ci]
        mo = mod[ml]
        raised = isinstance(im, dict) and "error" in im
        ctx.tally("edge: n=%d %s" % (n, "raises" if raised else "returns"))
        ctx.count(["edge", n], False)
        if raised != (mo == ["X"]):
            ctx.disagree("signal_length %d: implementation %s, model %s" % (n, "raises" if raised else "returns",
                                                                             "raises" if mo == ["X"] else "returns"),
                         {"op": "surface_timeseries", "signal_length": n, "sampling_frequency": 2.0})

    for m in metas:
        im = impl[m["ci"]]
        f = m["f"]
        fs = m["fs"]
        n = m["n"]
        N = 2 * (n // 2)
        M = N // 2
        rep0 = {"op": "surface_timeseries", "sampling_frequency": fs, "signal_length": float(n) if m["n_float"] else n,
                "seed": m["seed"], "frequency": f, "variance_density": m["E"]}
        rep0["leading_time_dimension_of_length_one"] = bool(m.get("lead"))
        if m["two_d"]:
            rep0["direction"] = m["dirs"]
        ctx.tally("grid:" + m["grid"])
        ctx.tally("spectrum:" + m["skind"] + "/" + m["shape"])
        ctx.tally("n:even" if n % 2 == 0 else "n:odd")
        ctx.tally("n<=40" if n <= 40 else ("n<=600" if n <= 600 else ("n<=6000" if n <= 6000 else "n>6000")))
        if isinstance(im, dict) and "error" in im:
            ctx.oracle_fail("surface_timeseries raised %s" % im, rep0)
            continue
        # ---- grid / resampling correspondence
        # ---- bin widths of the spectrum's own (possibly irregular) grid
        fsm = [C.unfx(t) for t in mod[m["ml0"] + len(m["comps"])][1:]]
        fsi = [C.unfx(t) for t in im["fstep_input"]]
        if len(fsm) != len(fsi) or any(not C.close(a, b, 1e-12, 0, f[-1] - f[0]) for a, b in zip(fsm, fsi)):
            ctx.disagree("frequency_step of the input grid: impl %r model %r" % (fsi[:5], fsm[:5]), dict(rep0),
                         is_property_failure=True)
        if m["two_d"]:
            dsm = [C.unfx(t) for t in mod[m["ml0"] + len(m["comps"]) + 1][1:]]
            dsi = [C.unfx(t) for t in im["dstep_input"]]
            if len(dsm) != len(dsi) or any(not C.close(a, b, 1e-12, 1e-12) for a, b in zip(dsm, dsi)):
                ctx.disagree("direction_step: impl %r model %r" % (dsi[:5], dsm[:5]), dict(rep0), is_property_failure=True)
        g = mod[m["ml0"] + len(m["comps"]) + 2]
        gN = int(g[0])
        gM = int(g[1])
        gfreq = [C.unfx(t) for t in g[2:2 + gM]]
        gdf = [C.unfx(t) for t in g[3 + gM:3 + 2 * gM]]
        ifreq = [C.unfx(t) for t in im["resampled"]["freq"]]
        idf = [C.unfx(t) for t in im["resampled"]["df"]]
        if gN != N or gM != len(ifreq) or any(not C.close(a, b, 1e-12, 0, fs) for a, b in zip(gfreq, ifreq)) \
                or any(not C.close(a, b, 1e-9, 0, fs / N) for a, b in zip(gdf, idf)):
            ctx.disagree("FFT frequency grid / frequency_step differ from the model", dict(rep0, model_grid=gfreq[:4],
                         impl_grid=ifreq[:4], model_df=gdf[:4], impl_df=idf[:4]), is_property_failure=True)
        # frequency grid k*fs/nfft, steps fs/nfft (statement evaluated on the implementation)
        for k in range(M):
            if not C.close(ifreq[k], k * fs / N, 1e-12, 0, fs) or not C.close(idf[k], fs / N, 1e-9, 0, fs / N):
                ctx.oracle_fail("resampled grid: f[%d]=%r df=%r, expected %r and %r" % (k, ifreq[k], idf[k], k * fs / N, fs / N),
                                rep0)
                break
        iE = [C.unfx(t) for t in im["resampled"]["E"]]
        if not m["two_d"]:
            rs = mod[m["ml0"] + len(m["comps"]) + 3]
            mE = [C.unfx(t) for t in rs[1:]]
            emax = max(m["E"]) + 1e-300
            if len(mE) != len(iE) or any(not C.close(a, b, 1e-9, 0, emax) for a, b in zip(iE, mE)):
                k = next((k for k in range(min(len(iE), len(mE))) if not C.close(iE[k], mE[k], 1e-9, 0, emax)), -1)
                ctx.disagree("spectrum resampled to the FFT bins differs from linear interpolation with zero outside "
                             "(bin %d: impl %r model %r)" % (k, iE[k] if k >= 0 else None, mE[k] if k >= 0 else None),
                             dict(rep0, bin=k), is_property_failure=True)
        # expected variance per component from the implementation's own resampled spectrum
        if m["two_d"]:
            nd = len(m["dirs"])
            idth = [C.unfx(t) for t in im["resampled"]["dth"]]
            dth_expect = [wrap180(m["dirs"][(j + 1) % nd] - m["dirs"][j]) for j in range(nd)]
            if any(not C.close(a, b, 1e-12, 1e-12) for a, b in zip(idth, dth_expect)):
                ctx.oracle_fail("direction_step %r, expected %r" % (idth, dth_expect), rep0)
        for q, comp in enumerate(m["comps"]):
            rep = dict(rep0, component=comp)
            r = im["comp"][comp]
            t = [C.unfx(v) for v in r["time"]]
            z = [C.unfx(v) for v in r["series"]]
            key = [f, m["E"] if not m["two_d"] else [row[:4] for row in m["E"][:8]], fs, n, comp, m["seed"]]
            # energy in a non-zero bin?
            if m["two_d"]:
                nontriv = any(iE[k * nd + j] > 0 for k in range(1, M) for j in range(nd))
            else:
                nontriv = any(iE[k] > 0 for k in range(1, M))
            ctx.count(key, nontriv)
            ctx.tally("component:" + comp)
            # ---- lengths and time axis (implementation alone)
            if m.get("lead"):
                ctx.tally("spectrum with a leading time dimension of length one")
            if len(t) != len(z) or len(z) != N or r["shape"] != ([1, N] if m.get("lead") else [N]) or r["tshape"] != [N]:
                ctx.oracle_fail("len(time)=%d len(series)=%d shape %s, expected nfft=%d" % (len(t), len(z), r["shape"], N),
                                rep)
                continue
            tmax = N / fs
            bad = next((i for i in range(N) if not C.close(t[i], i / fs, 1e-12, 0, tmax)), None)
            if bad is not None:
                ctx.oracle_fail("time[%d]=%r, expected %r (spacing 1/fs from 0)" % (bad, t[bad], bad / fs), rep)
            # ---- correspondence of the whole series
            mo = mod[m["ml0"] + q]
            mz = [C.unfx(v) for v in mo[2:]]
            idx = m["idx"]
            za = np.array(z)
            rms = float(np.sqrt(np.mean(za * za)))
            mrms = math.sqrt(sum(v * v for v in mz) / max(1, len(mz)))
            sc = max(rms, mrms)
            if int(mo[0]) != N or len(mz) != len(idx):
                ctx.disagree("model nfft %s, implementation %d" % (mo[0], N), rep, is_property_failure=True)
            else:
                badi = next((i for i, j in enumerate(idx) if not C.close(z[j], mz[i], 1e-9, 1e-300, sc)), None)
                if badi is not None:
                    j = idx[badi]
                    rep2 = dict(rep, index=j, impl=z[j], model=mz[badi], rms=sc)
                    ctx.disagree("series[%d]: impl %r model %r (rms %r)" % (j, z[j], mz[badi], sc), rep2,
                                 is_property_failure=True)
            if ctx.evaluations <= 2:
                ctx.sample({"n": n, "fs": fs, "component": comp, "two_d": m["two_d"], "impl_head": z[:3], "model_head": mz[:3]})
            # ---- variance identities (1D and single-direction 2D), on the implementation alone
            var = float(np.var(za))
            want = None
            if not m["two_d"]:
                want = sum(iE[k] * idf[k] * factor_abs2(comp, TWO_PI * ifreq[k], 0.0) for k in range(1, M))
                # scale of the comparison: all the energy, including the mean (zero bin) that np.var subtracts
                cond = sum(iE[k] * idf[k] * factor_abs2("w" if comp in "uvw" else "z", TWO_PI * ifreq[k], 0.0)
                           for k in range(1, M)) + iE[0] * idf[0]
            elif m["skind"] == "single":
                j0 = m["j0"]
                th = math.radians(m["dirs"][j0])
                want = sum(iE[k * nd + j0] * idf[k] * idth[j0] * factor_abs2(comp, TWO_PI * ifreq[k], th)
                           for k in range(1, M))
                cond = sum(iE[k * nd + j0] * idf[k] * idth[j0] * factor_abs2("w" if comp in "uvw" else "z",
                                                                            TWO_PI * ifreq[k], th) for k in range(1, M)) \
                    + iE[j0] * idf[0] * idth[j0]
            if want is not None:
                ctx.tally("oracle:variance")
                if not C.close(var, want, 1e-9, 0, cond):
                    ctx.oracle_fail("component %s: sample variance %r, spectral variance of the resampled spectrum "
                                    "(zero-frequency bin excluded) %r" % (comp, var, want), dict(rep, variance=var, expected=want))
            # ---- seeds
            if not r["same"]:
                ctx.oracle_fail("two calls with seed %d gave different series" % m["seed"], rep)
            zo = [C.unfx(v) for v in r["other"]]
            if sc > 0 and M > 2 and nontriv and (want is None or want > 1e-12 * (cond + 1e-300)):
                if len(zo) == len(z) and all(a == b for a, b in zip(z, zo)):
                    ctx.oracle_fail("seeds %d and %d gave identical series" % (m["seed"], m["seed2"]),
                                    dict(rep, seed2=m["seed2"]))
            # ---- sqrt(c) scaling, same phases
            zs = [C.unfx(v) for v in r["scaled"]]
            sq = math.sqrt(m["scale"])
            if len(zs) != len(z) or any(not C.close(zs[i], sq * z[i], 1e-11, 1e-300, sq * sc) for i in range(len(z))):
                ctx.oracle_fail("spectrum * %r: series is not sqrt(%r) times the original" % (m["scale"], m["scale"]),
                                dict(rep, scale=m["scale"]))


READY = True
LEVEL_TEXT = ("Theorems (Coq, over R, every signal length, sampling rate, spectrum, phase array, component): nfft = 2(n/2) is "
              "even and n or n-1; the series and the time axis both have nfft samples; the code raises exactly for n < 4; "
              "t_i = i/fs (spacing 1/fs); FFT bins f_k = k fs/nfft and frequency_step of that grid is fs/nfft in every bin; "
              "|factor|^2 = 1, w^2, cos^2, sin^2, w^2 cos^2, w^2 sin^2 with cos^2+sin^2 splitting z into x,y and w into "
              "u,v; |amplitude|^2 = area E/2 |factor|^2; scaling the spectrum by c >= 0 multiplies the series by sqrt c "
              "with the same phases (1D and 2D); PARSEVAL in full: with nfft*irfft written as its defining real sum, for "
              "ANY coefficient list of length M >= 1 the population variance of the 2M samples equals "
              "sum_{k=1}^{M-1} 2|X_k|^2 (orthogonality of cos/sin(2 pi k i/N) over a full period proved by a "
              "telescoping Dirichlet sum; X_0 only sets the mean, no Nyquist term); hence for a non-negative 1D "
              "spectrum, and for a 2D spectrum whose energy is in one direction column (any column, non-negative "
              "direction step), var(series) = sum_{k>=1} (fs/nfft) dtheta E_k |factor_k|^2 with E_k the spectrum "
              "resampled linearly to the FFT bins (zero outside its grid); the resampled spectrum of a non-negative "
              "spectrum is non-negative. The model is tied to timeseries.py / spectrum.py / the interpolation code by "
              "comparing the whole series (all six components) of the extracted model with surface_timeseries on "
              "generated 1D and 2D spectra, the phases being re-drawn with numpy from the same seed.")
LEVEL_NOTE = ("Not proved: that numpy.fft.irfft computes its defining sum and that numpy's generator produces the phases "
              "(both validated by execution: the model is fed default_rng(seed).uniform(0,2pi,shape)); floating point "
              "rounding (series compared at 1e-9 of its rms, variance identities at 1e-9 relative). Seed reproducibility "
              "and seed sensitivity are checked on the implementation only. Spectra are NaN-free and non-negative; "
              "direction grids have all cyclic gaps < 180 degrees (a larger gap gives a negative direction_step and a "
              "NaN amplitude that numpy's skip-NaN sum silently drops: outside the premise). For series longer than 2048 "
              "samples the model is compared on about 200 random sample indices.")
TECHNIQUE = "Coq proof over R (Parseval by telescoping trigonometric sums) + extracted-model correspondence + variance oracles"
DESIGN_REF = "DESIGN.md section 5 C16"
TRUSTED = ["numpy.fft.irfft (defining sum validated by the correspondence of every sample)",
           "numpy.random.default_rng(seed).uniform: phases are inputs of the model, drawn by the harness with the same call"]
