"""C10 roughness lengths.

Correspondence (extracted Coq model coq/Model/Roughness.v vs the implementation, same inputs):
  * charnock_roughness_length_from_u10 / drag_coefficient_charnock (fixed-point iteration with Aitken
    steps, bound halving, per-element convergence flags, NaN rules) for scalars, arrays, DataArrays;
  * charnock_roughness_length (the closed formula);
  * tools.solvers.fixed_point_iteration on analytic vector functions (bounds, tolerances, budgets);
  * balance.solvers.numba_newton_raphson (Newton / secant / bisection hybrid with bracket) on analytic
    test functions, including wam_tail_stress.log_dimensionless_critical_height.
Oracles on the implementation alone: residual of the Charnock equation at the solver's own tolerance,
drag formula, NaN in <=> NaN out, monotone in U without the viscous term; Janssen roughness is NaN or
positive and, where an independent scan of the stress balance on (e^-20, 1) shows exactly one sign
change, satisfies rho_a u*^2 = total stress to 1e-4 relative."""
import math

import common as C

GRAV = 9.81
NU = 1.48e-5
KAPPA = 0.4
ELEV = 10.0
ATOL = 1e-4
RTOL = 1e-4

RULE = ("one evaluation = one wind-speed element of a Charnock call, one element of a generic fixed-point call, "
        "one Newton-hybrid run, or one (sea, wind) point of a Janssen batch; non-trivial = finite wind speed / finite guess / "
        "a run that takes more than one iteration / a sea whose scanned balance has exactly one sign change; distinct by input hash")
ASSUMPTIONS = ["floating point rounding is not modelled (model vs implementation compared at 1e-9 relative; a single "
               "tolerance-level difference per run is attributed to a convergence test decided within rounding error)",
               "convergence of the Charnock iteration within 100 iterations is validated by execution over U in [0.1,80], not proved",
               "the stress function of the Janssen roughness (resolved + WAM tail + viscous stress) is not modelled: the 1e-4 residual is "
               "checked on the implementation (roughness() fed back into stress())",
               "numba compiles balance/solvers.py faithfully",
               "the element-wise translator harness/translate_pointwise.py (Python AST -> Coq text over R, fail-closed) is trusted to map each accepted construct to its meaning: wavephysics/roughness.py (Charnock, Wu, drag) -> Generated/RoughnessSrc.v"]


def par_tokens(alpha, visc):
    return " ".join(C.fx(v) for v in (alpha, GRAV, NU, visc, KAPPA, ELEV))


def G_py(alpha, visc, U, z):
    us = KAPPA * U / math.log(ELEV / z)
    zv = visc * NU / us if us > 0 else 0.0
    return alpha * us * us / GRAV + zv


def gen_U(rng):
    r = rng.random()
    if r < 0.5:
        u = math.exp(rng.uniform(math.log(0.1), math.log(80)))
    elif r < 0.9:
        u = rng.uniform(0.1, 80)
    else:
        u = rng.choice([0.1, 80.0, 10.0, 0.125, 1.0, 33.0, 50.0])
    return C.dyadic(rng, u, u, 24)



def pregen(ctx):
    """regenerate coq/Generated/RoughnessSrc.v from the CURRENT wavephysics/roughness.py (fail-closed translator);
    Proofs/RoughnessGen.v proves the regenerated Charnock relation, Wu's first guess and the drag coefficient equal
    to the model's, so a changed formula breaks a proof obligation of Properties/C10.v"""
    import os, sys
    sys.path.insert(0, os.path.join(C.VERIF, "harness"))
    import translate_pointwise as TP
    TP.generate(os.path.join(C.REPO, "src", "ocean_science_utilities", "wavephysics", "roughness.py"),
                ["kwargs:drag_coefficient_wu", "kwargs:roughness_wu", "kwargs:charnock_roughness_length",
                 "kwargs:drag_coefficient"],
                os.path.join(C.COQ, "Generated", "RoughnessSrc.v"), "wavephysics/roughness.py")


JANSSEN_FINDING_KEY = "janssen:pm-sea-hs2.766-u17.5-charnock0.006-viscous1-not-at-the-single-root"


def known_janssen_case(sea, params_in_force):
    """the one recorded sea / configuration (narrow on purpose: any other failure is reported)"""
    try:
        return (abs(C.unfx(sea["hs"]) - 2.7657905754061116) < 1e-12 and abs(C.unfx(sea["U"]) - 17.512343559961906) < 1e-9
                and abs(C.unfx(params_in_force.get("charnock_constant", "0x0p+0")) - 0.006) < 1e-12
                and abs(C.unfx(params_in_force.get("viscous_stress_parameter", "0x0p+0")) - 1.0) < 1e-12)
    except Exception:  # noqa
        return False


def run(ctx):
    rng = ctx.rng
    cases = []
    mlines = []
    meta = []

    # ------------------------------------------------------------------ Charnock calls
    ncall = ctx.n(160, 4000)
    for i in range(ncall):
        form = rng.choice(["scalar", "scalar", "np_scalar", "0d", "ndarray", "ndarray", "dataarray", "dataarray",
                           "ndarray2d", "dataarray2d"])
        if form in ("scalar", "np_scalar", "0d"):
            n = rng.choice([1, 1, 2, 3])
            shape = None
        elif form.endswith("2d"):
            shape = [rng.choice([1, 2, 3]), rng.choice([1, 2, 4])]
            n = shape[0] * shape[1]
        else:
            n = rng.choice([1, 2, 3, 5, 8, 12, 25, 40])
            shape = None
        Us = [gen_U(rng) for _ in range(n)]
        nanmode = rng.random()
        if form not in ("scalar",) and nanmode < 0.3:
            for j in range(n):
                if rng.random() < 0.3:
                    Us[j] = float("nan")
        if form in ("ndarray", "dataarray") and nanmode > 0.97:
            Us = [float("nan")] * n
        alpha = None if rng.random() < 0.3 else C.dyadic(rng, *(lambda v: (v, v))(rng.uniform(0.005, 0.04)), 12)
        visc = None if rng.random() < 0.4 else rng.choice([0.0, 0.11, 0.11, C.dyadic(rng, 0.02, 0.5, 8)])
        maxit = None
        if form in ("ndarray", "dataarray") and rng.random() < 0.25:
            maxit = rng.choice([1, 2, 3, 4, 5, 6, 7, 8, 9, 12, 15])
        c = {"op": "charnock", "form": form, "U": [C.fx(v) for v in Us]}
        if shape:
            c["shape"] = shape
        if alpha is not None:
            c["alpha"] = C.fx(alpha)
        if visc is not None:
            c["visc"] = C.fx(visc)
        if maxit is not None:
            c["maxit"] = maxit
        cases.append(c)
        a_ = 0.012 if alpha is None else alpha
        v_ = 0.0 if visc is None else visc
        if form in ("scalar", "np_scalar", "0d"):
            for u in Us:
                mlines.append("charnock %s %d 1 %s" % (par_tokens(a_, v_), 100, C.fx(u)))
        else:
            mlines.append("charnock %s %d %s" % (par_tokens(a_, v_), maxit or 100, C.flist(Us)))
        meta.append(("charnock", dict(form=form, Us=Us, alpha=a_, visc=v_, maxit=maxit, shape=shape,
                                      passed=dict(alpha=alpha, visc=visc))))

    # ------------------------------------------------------------------ the closed formula
    for i in range(ctx.n(30, 400)):
        n = rng.choice([1, 3, 8])
        us = [rng.choice([0.0, -0.25, float("nan"), C.dyadic(rng, 1e-3, 3.0, 20), C.dyadic(rng, 1e-3, 3.0, 20)]) for _ in range(n)]
        alpha = C.dyadic(rng, 0.005, 0.04, 12)
        visc = rng.choice([0.0, 0.11, C.dyadic(rng, 0.02, 0.5, 8)])
        form = rng.choice(["ndarray", "dataarray"])
        cases.append({"op": "cfun", "form": form, "us": [C.fx(v) for v in us], "alpha": C.fx(alpha), "visc": C.fx(visc)})
        mlines.append("cfun %s %s" % (par_tokens(alpha, visc), C.flist(us)))
        meta.append(("cfun", dict(us=us, alpha=alpha, visc=visc, form=form)))

    # ------------------------------------------------------------------ generic fixed-point solver
    for i in range(ctx.n(120, 3000)):
        n = rng.choice([1, 2, 3, 6, 12])
        ids, aa, gg = [], [], []
        for _ in range(n):
            k = rng.choice([0, 1, 2, 3, 4])
            if k == 0:
                a = C.dyadic(rng, -8, 8, 10); g = C.dyadic(rng, -8, 8, 10)
            elif k == 1:
                a = C.dyadic(rng, -0.95, 0.95, 10); g = C.dyadic(rng, -3, 3, 10)
            elif k == 2:
                a = C.dyadic(rng, 0.1, 20, 10); g = C.dyadic(rng, -10, 30, 10)
            elif k == 3:
                a = C.dyadic(rng, 0.5, 2.9, 10); g = C.dyadic(rng, 0.05, 0.95, 10)
            else:
                a = C.dyadic(rng, 0.1, 2.5, 10); g = C.dyadic(rng, -1, 3, 10)
            if rng.random() < 0.08:
                g = float("nan")
            ids.append(k); aa.append(a); gg.append(g)
        bmode = rng.choice(["none", "none", "lo0", "box", "hi"])
        lo = hi = float("nan")
        if bmode == "lo0":
            lo = 0.0
        elif bmode == "box":
            lo = C.dyadic(rng, -2, 0.5, 6); hi = lo + C.dyadic(rng, 0.5, 6, 6)
        elif bmode == "hi":
            hi = C.dyadic(rng, 0.5, 8, 6)
        atol = rng.choice([1e-4, 1e-4, 1e-6, 1e-2, 1e-9])
        rtol = rng.choice([1e-4, 1e-4, 1e-6, 1e-2, 1e-9])
        if rng.random() < 0.25:
            # relative test decisive and coarse: which iterate scales the difference becomes visible
            atol = 1.0; rtol = rng.choice([0.05, 0.01, 0.1])
        maxit = rng.choice([1, 2, 3, 5, 7, 10, 20, 20, 100, 100, 100])
        ait = rng.random() < 0.75
        form = rng.choice(["ndarray", "dataarray"])
        cases.append({"op": "fp", "form": form, "ids": ids, "a": [C.fx(v) for v in aa], "guess": [C.fx(v) for v in gg],
                      "lo": C.fx(lo), "hi": C.fx(hi), "atol": C.fx(atol), "rtol": C.fx(rtol), "maxit": maxit, "aitken": ait})
        mlines.append("fp %s %s %s %s %d %s %d %s" % (C.fx(lo), C.fx(hi), C.fx(atol), C.fx(rtol), maxit, "T" if ait else "F", n,
                                                      " ".join("%d %s %s" % (k, C.fx(a), C.fx(g)) for k, a, g in zip(ids, aa, gg))))
        meta.append(("fp", dict(ids=ids, a=aa, guess=gg, lo=lo, hi=hi, atol=atol, rtol=rtol, maxit=maxit, aitken=ait, form=form)))

    # ------------------------------------------------------------------ Newton hybrid on analytic functions
    for i in range(ctx.n(200, 5000)):
        k = rng.choice([0, 1, 2, 2, 3, 4, 4, 5, 5])
        hlo = hhi = float("nan")
        if k == 0:
            a = C.dyadic(rng, 0.2, 5, 8) * rng.choice([-1, 1]); b = C.dyadic(rng, -10, 10, 8); c = 0.0
            guess = C.dyadic(rng, -12, 12, 10)
        elif k == 1:
            a = C.dyadic(rng, 0.05, 20, 10); b = 0.0; c = 0.0
            guess = C.dyadic(rng, -4, 4, 10)
        elif k == 2:
            if rng.random() < 0.6:
                a = -C.dyadic(rng, 0.1, 4, 8)            # monotone cubic
                b = C.dyadic(rng, -8, 8, 8)
                guess = C.dyadic(rng, -4, 4, 10)
            else:
                a = C.dyadic(rng, 0.5, 4, 8)             # three real roots possible; start near the outer root
                b = C.dyadic(rng, -0.5, 0.5, 8)
                guess = rng.choice([-1, 1]) * (math.sqrt(a) + C.dyadic(rng, 0.05, 1.0, 8))
            c = 0.0
        elif k == 3:
            a = C.dyadic(rng, 0.3, 3, 8); b = C.dyadic(rng, -3, 3, 8); c = C.dyadic(rng, -0.9, 0.9, 8)
            guess = b + C.dyadic(rng, -2, 2, 8)
        elif k == 4:
            a = C.dyadic(rng, 0.005, 0.05, 10); b = 0.4; c = C.dyadic(rng, 0.004, 0.02, 8)   # (charnock, kappa, wave-age tuning)
            guess = math.log(0.01) if rng.random() < 0.6 else C.dyadic(rng, -8, -0.5, 10)
            hlo, hhi = -10.0, 0.0
        else:
            a = 1.225; b = 0.4 * C.dyadic(rng, 2, 40, 10); c = math.log(10.0)
            # balance a*(b/(c-x))^2 - exp(x): in log-roughness, positive for small x
            guess = C.dyadic(rng, -14, -2, 10)
            hlo, hhi = -20.0, 0.0
        if rng.random() < 0.15 and k not in (4, 5):
            hlo = guess - C.dyadic(rng, 0.5, 6, 6); hhi = guess + C.dyadic(rng, 0.5, 6, 6)
        prof = rng.choice(["default", "default", "janssen", "custom"])
        cfg = dict(maxit=100, aitken=True, atol=1e-4, rtol=1e-4, h=1e-4, relstep=False, relax=0.9, eom=True)
        if prof == "janssen":
            cfg.update(aitken=False, atol=1e-6, rtol=1e-6)
        elif prof == "custom":
            cfg.update(maxit=rng.choice([2, 3, 5, 8, 20, 100]), aitken=rng.random() < 0.5,
                       atol=rng.choice([1e-4, 1e-6, 1e-2]), rtol=rng.choice([1e-4, 1e-6, 1e-2]),
                       h=rng.choice([1e-4, 1e-3, 1e-6]), relstep=rng.random() < 0.3,
                       relax=rng.choice([0.9, 1.0, 0.5]), eom=rng.random() < 0.6)
        if guess == 0.0:
            guess = 0.5
        cc = {"op": "newton", "id": k, "a": C.fx(a), "b": C.fx(b), "c": C.fx(c), "guess": C.fx(guess),
              "hlo": C.fx(hlo), "hhi": C.fx(hhi)}
        cc.update({kk: (C.fx(v) if isinstance(v, float) else v) for kk, v in cfg.items()})
        if prof == "default":
            cc["use_defaults"] = True      # call with the solver's own default arguments
        cases.append(cc)
        mlines.append("newton %d %s %s %s %s %s %s %d %s %s %s %s %s %s %s" % (
            k, C.fx(a), C.fx(b), C.fx(c), C.fx(guess), C.fx(hlo), C.fx(hhi), cfg["maxit"], "T" if cfg["aitken"] else "F",
            C.fx(cfg["atol"]), C.fx(cfg["rtol"]), C.fx(cfg["h"]), "T" if cfg["relstep"] else "F", C.fx(cfg["relax"]),
            "T" if cfg["eom"] else "F"))
        meta.append(("newton", dict(id=k, a=a, b=b, c=c, guess=guess, hard_bounds=[hlo, hhi], cfg=cfg, profile=prof)))

    # ------------------------------------------------------------------ one-parameter family (validated convergence)
    fam = []
    nfam = ctx.n(3000, 100000)
    for alpha, visc in ((0.012, 0.0), (0.005, 0.0), (0.04, 0.0), (0.012, 0.11)):
        m = nfam // 4
        Us = [0.1 * (800.0) ** (j / (m - 1)) for j in range(m)]
        for form in ("ndarray", "scalar"):
            if form == "scalar":
                sub = Us[::max(1, m // ctx.n(150, 2500))]
                cases.append({"op": "charnock", "form": "scalar", "U": [C.fx(v) for v in sub], "alpha": C.fx(alpha), "visc": C.fx(visc), "drag": False})
                fam.append((alpha, visc, form, sub)); meta.append(("fam", None))
            else:
                for s in range(0, m, 1000):
                    sub = Us[s:s + 1000]
                    cases.append({"op": "charnock", "form": "ndarray", "U": [C.fx(v) for v in sub], "alpha": C.fx(alpha), "visc": C.fx(visc), "drag": False})
                    fam.append((alpha, visc, form, sub)); meta.append(("fam", None))

    # ------------------------------------------------------------------ Janssen roughness (implementation only)
    jan = []
    jan_second, jan_cases = {}, {}
    nj = ctx.n(6, 60)
    scan = [-19.9 + 19.8 * j / 79 for j in range(80)]
    # corpus case of the recorded finding (known_findings.txt, key JANSSEN_FINDING_KEY): a Pierson-Moskowitz sea for which
    # roughness() returns a value that is not the (single) root of the stress balance
    cfg = [0.03 + (0.9 - 0.03) * j / 29 for j in range(30)]
    cdirs = [360.0 * j / 36 for j in range(36)]
    csea = {"hs": C.fx(2.7657905754061116), "fp": C.fx(0.14564828092690246), "md": C.fx(342.2974477218545),
            "width": C.fx(20.0), "shape": "pm", "depth": "nan", "U": C.fx(17.512343559961906), "wdir": C.fx(339.08258870351415)}
    cpar = {"viscous_stress_parameter": C.fx(1.0), "charnock_constant": C.fx(0.006)}
    ccase = {"op": "janssen", "f": [C.fx(v) for v in cfg], "dirs": [C.fx(v) for v in cdirs], "seas": [csea],
             "wind_type": "u10", "params": cpar, "scan": [C.fx(v) for v in scan]}
    cases.append(ccase)
    jan_second[len(jan)] = None
    jan_cases[len(jan)] = ccase
    jan.append(("u10", cpar, [csea])); meta.append(("janssen", None))
    for i in range(nj):
        nf = rng.choice([30, 40])
        fgrid = [0.03 + (0.9 - 0.03) * j / (nf - 1) for j in range(nf)]
        nd = rng.choice([24, 36])
        dirs = [360.0 * j / nd for j in range(nd)]
        typ = rng.choice(["u10", "u10", "friction_velocity", "ustar"])
        params = {}
        if rng.random() < 0.4:
            params["viscous_stress_parameter"] = C.fx(rng.choice([0.0, 0.1, 1.0]))
        if rng.random() < 0.3:
            params["growth_parameter_betamax"] = C.fx(rng.choice([1.33, 1.52, 1.75]))
        if rng.random() < 0.2:
            params["charnock_constant"] = C.fx(rng.choice([0.0095, 0.012, 0.015]))
        seas = []
        for p in range(rng.choice([4, 6, 8])):
            U10 = rng.uniform(6, 38)
            nu_ = rng.uniform(0.85, 2.5)                        # inverse wave age U10/cp of the sea
            fp = min(0.45, max(0.05, nu_ * GRAV / (2 * math.pi * U10)))
            hs = min(12.0, 0.26 * U10 * U10 / GRAV * (nu_ / 0.85) ** -1.65)
            md = rng.uniform(0, 360)
            wdir = md + rng.uniform(-40, 40)
            depth = float("inf") if rng.random() < 0.6 else rng.choice([15.0, 30.0, 80.0, float("nan")])
            cd = (0.8 + 0.065 * U10) / 1000
            U = U10 if typ == "u10" else math.sqrt(cd) * U10
            s = {"hs": C.fx(hs), "fp": C.fx(fp), "md": C.fx(md), "width": C.fx(rng.choice([20.0, 30.0, 40.0])),
                 "shape": rng.choice(["jonswap", "jonswap", "pm"]), "depth": C.fx(depth), "U": C.fx(U), "wdir": C.fx(wdir)}
            r = rng.random()
            if r < 0.06:
                s["U"] = "nan"; s["scan"] = False
            elif r < 0.10:
                s["U"] = C.fx(0.0); s["scan"] = False
            elif r < 0.14:
                s["nan_bin"] = True; s["scan"] = False
            elif r < 0.18:
                s["zero"] = True
            elif r < 0.30:
                s["swell"] = {"hs": C.fx(rng.uniform(0.5, 3)), "fp": C.fx(rng.uniform(0.05, 0.09)), "md": C.fx(rng.uniform(0, 360))}
            seas.append(s)
        case = {"op": "janssen", "f": [C.fx(v) for v in fgrid], "dirs": [C.fx(v) for v in dirs], "seas": seas,
                "wind_type": typ, "params": params, "scan": [C.fx(v) for v in scan]}
        if rng.random() < 0.5:
            # re-use of one generator object with changed parameters (calibration sweep)
            case["second"] = rng.choice([{"growth_parameter_betamax": C.fx(rng.choice([1.2, 1.75, 2.0]))},
                                         {"charnock_constant": C.fx(rng.choice([0.006, 0.015, 0.02]))}])
        cases.append(case)
        jan_second[len(jan)] = case.get("second")
        jan_cases[len(jan)] = case
        jan.append((typ, params, seas)); meta.append(("janssen", None))

    impl = ctx.impl("C10.py", {"cases": cases})["results"]
    mod = ctx.model(mlines)

    # ================================================================== evaluate
    mi = 0
    fi = 0
    ji = 0
    loose = []          # tolerance-level differences (candidate borderline convergence decisions)

    def cmp_solver(what, got, want, tol_abs, rep, key):
        """tight comparison; a difference inside the solver tolerance is parked in `loose`"""
        if C.close(got, want, 1e-9, 1e-300):
            return True
        if (not math.isnan(got)) and (not math.isnan(want)) and abs(got - want) <= tol_abs:
            loose.append((what, got, want, rep))
            return True
        ctx.disagree("%s: implementation %r, modelled solver %r" % (what, got, want), rep, key=key)
        return False

    for ci, (kind, info) in enumerate(meta):
        im = impl[ci]
        if kind == "charnock":
            Us = info["Us"]; alpha = info["alpha"]; visc = info["visc"]; form = info["form"]
            rep = {"op": "charnock_roughness_length_from_u10", "form": form, "U": Us, "shape": info["shape"],
                   "charnock_constant": info["passed"]["alpha"], "viscous_constant": info["passed"]["visc"], "max_iter": info["maxit"]}
            if form in ("scalar", "np_scalar", "0d"):
                rows = mod[mi:mi + len(Us)]; mi += len(Us)
                mz = [C.unfx(r[1]) for r in rows]; md = [C.unfx(r[2]) for r in rows]
            else:
                r = mod[mi]; mi += 1
                n = int(r[0]); mz = [C.unfx(v) for v in r[1:1 + n]]; md = [C.unfx(v) for v in r[1 + n:1 + 2 * n]]
            ctx.tally("charnock:" + form + ("-maxit" if info["maxit"] else ""))
            if isinstance(im, dict) and "error" in im:
                ctx.oracle_fail("charnock_roughness_length_from_u10 / drag_coefficient_charnock raised %s: %s (form=%s)"
                                % (im["error"], im["msg"], form), rep, key="roughness.charnock:%s-raises" % form)
                for u in Us:
                    ctx.count(["charnock", form, alpha, visc, u], False)
                continue
            iz = [C.unfx(v) for v in im["z"]]
            idr = [C.unfx(v) for v in im["drag"]] if "drag" in im else None
            if len(iz) != len(Us):
                ctx.oracle_fail("result has %d elements for %d wind speeds" % (len(iz), len(Us)), rep)
                continue
            for j, u in enumerate(Us):
                ctx.count(["charnock", form, alpha, visc, info["maxit"], u], not math.isnan(u))
                ctx.tally("U:nan" if math.isnan(u) else ("U<1" if u < 1 else ("U<20" if u < 20 else "U>=20")))
                rp = dict(rep); rp["index"] = j; rp["U_j"] = u; rp["z_impl"] = iz[j]; rp["z_model"] = mz[j]
                tolz = 2 * ATOL * max(abs(mz[j]) if not math.isnan(mz[j]) else 0, ATOL)
                cmp_solver("roughness for U=%r (alpha=%r visc=%r max_iter=%r)" % (u, alpha, visc, info["maxit"]),
                           iz[j], mz[j], tolz, rp, None)
                if idr is not None:
                    rp2 = dict(rp); rp2["drag_impl"] = idr[j]; rp2["drag_model"] = md[j]
                    cmp_solver("drag coefficient for U=%r" % u, idr[j], md[j], 1e-3 * abs(md[j]) if not math.isnan(md[j]) else 0, rp2, None)
                # ---------- oracles on the implementation alone
                if math.isnan(u):
                    if not math.isnan(iz[j]):
                        ctx.oracle_fail("missing wind speed gives roughness %r (must be missing)" % iz[j], rp)
                    if idr is not None and not math.isnan(idr[j]):
                        ctx.oracle_fail("missing wind speed gives drag %r (must be missing)" % idr[j], rp)
                    continue
                if info["maxit"] is None:
                    z = iz[j]
                    if not (z > 0 and math.isfinite(z)):
                        ctx.oracle_fail("roughness %r for U=%r is not a positive length (no convergence within the iteration budget?)" % (z, u), rp)
                        continue
                    res = abs(z - G_py(alpha, visc, u, z))
                    if res > ATOL * max(z, ATOL) * (1 + 1e-6):
                        ctx.oracle_fail("z0 = alpha u*^2/g + c nu/u* violated: |z0 - G(z0)| = %.3e > %.3e (U=%r alpha=%r visc=%r z0=%r)"
                                        % (res, ATOL * max(z, ATOL), u, alpha, visc, z), rp)
                    if idr is not None:
                        want = (KAPPA / math.log(ELEV / z)) ** 2
                        if not C.close(idr[j], want, 1e-12):
                            ctx.oracle_fail("drag coefficient %r is not (kappa/ln(10/z0))^2 = %r (U=%r)" % (idr[j], want, u), rp)
            # monotone in U without the viscous term (inside one call; beyond the solver tolerance)
            if visc == 0.0 and info["maxit"] is None and form not in ("scalar", "np_scalar", "0d"):
                fin = sorted((u, iz[j], idr[j] if idr else None) for j, u in enumerate(Us) if not math.isnan(u) and not math.isnan(iz[j]))
                for (u1, z1, d1), (u2, z2, d2) in zip(fin, fin[1:]):
                    if u2 > u1:
                        slack = 1.5 * ATOL * (max(z1, ATOL) + max(z2, ATOL))
                        if z2 < z1 - slack or (u2 >= u1 * 1.001 and max(z1, z2) > 1e-4 and not z2 > z1):
                            ctx.oracle_fail("roughness not increasing with U: z0(%r)=%r, z0(%r)=%r" % (u1, z1, u2, z2), rep)
                            break
                        if d1 is not None and u2 >= u1 * 1.001 and max(z1, z2) > 1e-4 and not d2 > d1:
                            ctx.oracle_fail("drag not increasing with U: Cd(%r)=%r, Cd(%r)=%r" % (u1, d1, u2, d2), rep)
                            break
            if ci < 2:
                ctx.sample({"charnock": {"form": form, "U": Us[:4], "impl": iz[:4], "model": mz[:4]}})
        elif kind == "cfun":
            r = mod[mi]; mi += 1
            mz = [C.unfx(v) for v in r[1:]]
            rep = {"op": "charnock_roughness_length", "friction_velocity": info["us"], "charnock_constant": info["alpha"],
                   "viscous_constant": info["visc"], "form": info["form"]}
            ctx.tally("cfun")
            if isinstance(im, dict) and "error" in im:
                ctx.oracle_fail("charnock_roughness_length raised %s: %s" % (im["error"], im["msg"]), rep)
                continue
            iz = [C.unfx(v) for v in im["z"]]
            for j, us in enumerate(info["us"]):
                ctx.count(["cfun", info["alpha"], info["visc"], us], not math.isnan(us) and us > 0)
                want = float("nan") if math.isnan(us) else info["alpha"] * us * us / GRAV + (info["visc"] * NU / us if us > 0 else 0.0)
                if not C.close(iz[j], mz[j], 1e-12) or not C.close(iz[j], want, 1e-12):
                    rp = dict(rep); rp["index"] = j; rp["impl"] = iz[j]; rp["model"] = mz[j]
                    ctx.disagree("charnock_roughness_length(u*=%r) = %r, alpha u*^2/g + c nu/u* = %r" % (us, iz[j], want), rp,
                                 is_property_failure=True)
        elif kind == "fp":
            r = mod[mi]; mi += 1
            mx = [C.unfx(v) for v in r[1:]]
            rep = {"op": "fixed_point_iteration", "function_ids": info["ids"], "a": info["a"], "guess": info["guess"],
                   "bounds": [info["lo"], info["hi"]], "atol": info["atol"], "rtol": info["rtol"], "max_iter": info["maxit"],
                   "aitken_acceleration": info["aitken"], "form": info["form"],
                   "functions": "0: a+sin x; 1: a cos x; 2: sqrt(|x|+a); 3: a x (1-x); 4: a exp(-x)"}
            ctx.tally("fp:%s:%s" % (info["form"], "aitken" if info["aitken"] else "plain"))
            if isinstance(im, dict) and "error" in im:
                ctx.disagree("fixed_point_iteration raised %s: %s" % (im["error"], im["msg"]), rep)
                continue
            ix = [C.unfx(v) for v in im["x"]]
            for j in range(len(mx)):
                g = info["guess"][j]
                ctx.count(["fp", info["ids"][j], info["a"][j], g, info["lo"], info["hi"], info["atol"], info["rtol"], info["maxit"], info["aitken"], j, len(mx)],
                          not math.isnan(g))
                ctx.tally("fp-out:" + ("nan" if math.isnan(ix[j]) else "value"))
                rp = dict(rep); rp["index"] = j; rp["impl"] = ix[j]; rp["model"] = mx[j]
                tol = 4 * max(info["atol"], info["rtol"] * abs(mx[j]) if not math.isnan(mx[j]) else 0)
                cmp_solver("fixed_point_iteration element %d (function %d, a=%r, guess=%r)" % (j, info["ids"][j], info["a"][j], g),
                           ix[j], mx[j], tol, rp, None)
                if math.isnan(g) and not math.isnan(ix[j]):
                    ctx.oracle_fail("NaN guess gives %r (must stay NaN)" % ix[j], rp)
        elif kind == "newton":
            r = mod[mi]; mi += 1
            rep = {"op": "numba_newton_raphson", "function_id": info["id"], "args": [info["a"], info["b"], info["c"]],
                   "guess": info["guess"], "hard_bounds": info["hard_bounds"], "config": info["cfg"],
                   "functions": "0: a x+b; 1: exp x-a; 2: x^3-a x+b; 3: tanh(a(x-b))+c; 4: log_dimensionless_critical_height(x,a,b,c); 5: a (b/(c-x))^2-exp x"}
            ctx.tally("newton:f%d:%s" % (info["id"], info["profile"]))
            mstat = r[0]
            if isinstance(im, dict) and "error" in im:
                ctx.disagree("numba_newton_raphson raised %s: %s" % (im["error"], im["msg"]), rep)
                continue
            ist = im["status"]
            ctx.count(["newton", info["id"], info["a"], info["b"], info["c"], info["guess"], info["hard_bounds"], sorted(info["cfg"].items())],
                      mstat in ("C", "M"))
            ctx.tally("newton-result:" + (mstat if mstat != "F" else "F" + r[1]))
            # trajectory: the points at which f was evaluated, in order (model: logging closure; impl: logging test function)
            mtr = [C.unfx(v) for v in r[6:]]
            itr = [C.unfx(v) for v in im.get("trace", [])]
            npre = 0
            for u, v in zip(itr, mtr):
                if not C.close(u, v, 1e-9, 1e-12):
                    break
                npre += 1
            same_traj = npre == len(mtr) == len(itr)
            mres = ("F" + r[1]) if mstat == "F" else "ok"
            mxv = None if mstat == "F" else C.unfx(r[1])
            ixv = C.unfx(im["x"]) if ist == "ok" else None
            rp = dict(rep); rp["impl"] = {"status": ist, "x": ixv, "evaluations": len(itr)}
            rp["model"] = {"status": mres, "x": mxv, "evaluations": len(mtr)}
            rp["first_different_evaluation"] = npre
            rp["impl_trace"] = itr[max(0, npre - 2):npre + 3]; rp["model_trace"] = mtr[max(0, npre - 2):npre + 3]
            same_res = (ist == mres) and (mxv is None or C.close(ixv, mxv, 1e-8, 1e-10))
            if same_traj and same_res:
                pass
            elif (not same_traj) and npre >= min(len(mtr), len(itr)) - 2 and npre >= 3 and ist == mres == "ok" and \
                    abs(ixv - mxv) <= 4 * max(info["cfg"]["atol"], info["cfg"]["rtol"] * abs(mxv)):
                # identical up to the last iteration: the final convergence test was decided within rounding error
                loose.append(("newton trajectory (last step)", ixv, mxv, rp))
            else:
                ctx.disagree("numba_newton_raphson departs from the modelled solver at evaluation %d of %d/%d: implementation %s %r, model %s %r "
                             "(F0 ZeroDivisionError, F1 stationary point, F2 no convergence)"
                             % (npre, len(itr), len(mtr), ist, ixv, mres, mxv), rp)
            # bracket invariant, observed on the model run: lo <= x <= hi when bounded
            lo_, hi_, bd = C.unfx(r[2]), C.unfx(r[3]), r[4] == "T"
            if bd and mstat == "C" and not (lo_ - 1e-12 <= mxv <= hi_ + 1e-12):
                ctx.disagree("model run leaves its own bracket: %r not in [%r, %r]" % (mxv, lo_, hi_), rp)
        elif kind == "fam":
            alpha, visc, form, Us = fam[fi]; fi += 1
            rep = {"op": "charnock family", "form": form, "charnock_constant": alpha, "viscous_constant": visc,
                   "U_first": Us[0], "U_last": Us[-1], "n": len(Us)}
            if isinstance(im, dict) and "error" in im:
                ctx.oracle_fail("family scan raised %s" % im, rep, key="roughness.charnock:%s-raises" % form)
                continue
            iz = [C.unfx(v) for v in im["z"]]
            ctx.tally("family:" + form, len(iz))
            worst = 0.0
            for u, z in zip(Us, iz):
                ctx.count(["fam", form, alpha, visc, u])
                if not (z > 0 and math.isfinite(z)):
                    ctx.oracle_fail("family scan: roughness %r for U=%r alpha=%r visc=%r (no convergence within 100 iterations)" % (z, u, alpha, visc),
                                    {"op": "charnock_roughness_length_from_u10", "form": form, "U": [u], "charnock_constant": alpha, "viscous_constant": visc})
                    break
                res = abs(z - G_py(alpha, visc, u, z)) / (ATOL * max(z, ATOL))
                worst = max(worst, res)
                if res > 1 + 1e-6:
                    ctx.oracle_fail("family scan: |z0 - G(z0)| = %.3e x tolerance at U=%r alpha=%r visc=%r" % (res, u, alpha, visc),
                                    {"op": "charnock_roughness_length_from_u10", "form": form, "U": [u], "charnock_constant": alpha, "viscous_constant": visc, "z_impl": z})
                    break
            if visc == 0.0:
                for j in range(len(iz) - 1):
                    z1, z2 = iz[j], iz[j + 1]
                    slack = 1.5 * ATOL * (max(z1, ATOL) + max(z2, ATOL)) if form == "scalar" else 0.0
                    if not z2 > z1 - slack:
                        ctx.oracle_fail("family scan (%s): z0(%r)=%r >= z0(%r)=%r" % (form, Us[j], z1, Us[j + 1], z2),
                                        {"op": "charnock_roughness_length_from_u10", "form": form, "U": [Us[j], Us[j + 1]],
                                         "charnock_constant": alpha, "viscous_constant": visc, "z_impl": [z1, z2]})
                        break
            ctx.extra.setdefault("charnock_family_worst_residual_over_tolerance", {})["%s alpha=%g visc=%g" % (form, alpha, visc)] = round(worst, 4)
        elif kind == "janssen":
            typ, params, seas = jan[ji]; ji += 1
            rep = {"op": "WindGeneration(st4).roughness -> stress", "wind_type": typ, "parameters": {k: C.unfx(v) for k, v in params.items()},
                   "seas": [{k: (C.unfx(v) if isinstance(v, str) and k not in ("shape",) else v) for k, v in s.items() if k != "swell"} for s in seas]}
            if isinstance(im, dict) and "error" in im:
                ctx.oracle_fail("Janssen roughness batch raised %s: %s" % (im["error"], im["msg"]), rep)
                continue
            iz = [C.unfx(v) for v in im["z"]]
            def _same(a_, b_):
                a_ = [C.unfx(v) for v in a_]; b_ = [C.unfx(v) for v in b_]
                return len(a_) == len(b_) and all((x != x and y != y) or C.close(x, y, 1e-9, 1e-300) for x, y in zip(a_, b_))
            wz = im.get("wrapper_z")
            if wz is not None:
                ctx.tally("janssen: module-level wrapper janssen_roughness_length")
                if isinstance(wz, dict):
                    ctx.oracle_fail("roughness.janssen_roughness_length raised %s: %s" % (wz.get("error"), wz.get("msg")), rep)
                elif not _same(wz, im["z"]):
                    ctx.oracle_fail("roughness.janssen_roughness_length(u*, spectrum, balance, direction) = %r but "
                                    "WindGeneration.roughness(u*, ..., wind_speed_input_type='friction_velocity') = %r"
                                    % ([C.unfx(v) for v in wz][:4], [C.unfx(v) for v in im["z"]][:4]), rep)
            ww = im.get("whole_winds")
            if ww is not None:
                ctx.tally("janssen: whole-number winds as integers")
                if "error" in ww:
                    ctx.oracle_fail("roughness() with integer wind speeds raised %s: %s" % (ww.get("error"), ww.get("msg")), rep)
                elif not _same(ww["int"], ww["float"]):
                    ctx.oracle_fail("roughness() of whole-number winds given as integers is %r, given as floats %r"
                                    % ([C.unfx(v) for v in ww["int"]][:4], [C.unfx(v) for v in ww["float"]][:4]), rep)
            for p, s in enumerate(seas):
                z = iz[p]
                pt = im["points"][p]
                rp = dict(rep); rp["point"] = p; rp["z_impl"] = z
                special = "U-nan" if s["U"] == "nan" else ("U-zero" if C.unfx(s["U"]) == 0.0 else ("nan-bin" if s.get("nan_bin") else None))
                if not (math.isnan(z) or (z > 0 and math.isfinite(z))):
                    ctx.oracle_fail("Janssen roughness %r is neither missing nor a positive length" % z, rp)
                if special:
                    ctx.count(["janssen", ji, p, special], False)
                    ctx.tally("janssen:" + special)
                    if not math.isnan(z):
                        ctx.oracle_fail("Janssen roughness %r for %s input (must be missing)" % (z, special), rp)
                    continue
                sc = [C.unfx(v) for v in pt.get("scan", [])]
                clean = sc and all(math.isfinite(v) for v in sc)
                changes = sum(1 for a, b in zip(sc, sc[1:]) if (a > 0) != (b > 0)) if clean else -1
                single = clean and changes == 1
                ctx.count(["janssen", typ, sorted(params.items()), s["hs"], s["fp"], s["U"], s["depth"], s.get("swell") is not None], single)
                ctx.tally("janssen:" + ("single-root" if single else ("scan-undefined" if not clean else "sign-changes=%d" % changes)))
                if single:
                    if math.isnan(z):
                        ctx.tally("janssen:single-root-but-missing")
                        continue
                    if "lhs" not in pt:
                        ctx.oracle_fail("stress() raised at the returned roughness %r: %s" % (z, pt.get("residual_error")), rp)
                        continue
                    lhs = C.unfx(pt["lhs"]); st = C.unfx(pt["stress"])
                    rel = abs(lhs - st) / lhs if lhs > 0 else float("inf")
                    ctx.extra["janssen_worst_relative_residual"] = max(ctx.extra.get("janssen_worst_relative_residual", 0.0), rel)
                    if not rel <= 1e-4:
                        rp["rho_ustar2"] = lhs; rp["total_stress"] = st
                        ctx.oracle_fail("stress balance violated at the returned roughness: rho u*^2 = %r, total stress = %r (relative %.2e > 1e-4); "
                                        "the scanned balance has a single sign change on (e^-20, 1)" % (lhs, st, rel), rp,
                                        key=(JANSSEN_FINDING_KEY if known_janssen_case(s, params) else None))
                    # the returned root lies in the scan cell that holds the sign change
                    xs = [-19.9 + 19.8 * j / 79 for j in range(80)]
                    jj = [j for j in range(79) if (sc[j] > 0) != (sc[j + 1] > 0)][0]
                    if not (xs[jj] - 0.26 <= math.log(z) <= xs[jj + 1] + 0.26):
                        ctx.oracle_fail("returned roughness ln z0 = %.3f is not at the scanned root in [%.3f, %.3f]" % (math.log(z), xs[jj], xs[jj + 1]), rp,
                                        key=(JANSSEN_FINDING_KEY if known_janssen_case(s, params) else None))
            sec = im.get("second")
            if sec:
                z2s = [C.unfx(v) for v in sec["z"]]
                for p, pt in enumerate(sec["points"]):
                    if "scan" not in pt:
                        continue
                    sc = [C.unfx(v) for v in pt["scan"]]
                    clean = sc and all(math.isfinite(v) for v in sc)
                    changes = sum(1 for a, b in zip(sc, sc[1:]) if (a > 0) != (b > 0)) if clean else -1
                    ctx.count(["janssen-second-configuration", ji, p], clean and changes == 1)
                    ctx.tally("janssen second configuration on the same generator object")
                    if clean and changes == 1 and "lhs" in pt:
                        lhs = C.unfx(pt["lhs"]); st = C.unfx(pt["stress"])
                        rel = abs(lhs - st) / lhs if lhs > 0 else float("inf")
                        if not rel <= 1e-4:
                            rp = dict(rep); rp["point"] = p; rp["z_impl"] = z2s[p]; rp["first_configuration_z"] = iz[p]
                            rp["note"] = "second roughness() call on the same generator object after update_parameters()"
                            rp["second_configuration"] = jan_second.get(ji - 1)
                            rp["payload_case"] = jan_cases.get(ji - 1)
                            rp["rho_ustar2"] = lhs; rp["total_stress"] = st
                            ctx.oracle_fail("after update_parameters() on the same generator object the returned roughness does not satisfy the "
                                            "stress balance of the configuration in force: rho u*^2 = %r, total stress = %r (relative %.2e > 1e-4)"
                                            % (lhs, st, rel), rp,
                                            key=(JANSSEN_FINDING_KEY if known_janssen_case(
                                                seas[p], dict(params, **(jan_second.get(ji - 1) or {}))) else None))
            if ji == 1:
                ctx.sample({"janssen": {"wind_type": typ, "z0": iz[:4]}})

    nsingle = ctx.distribution.get("janssen:single-root", 0)
    nmiss = ctx.distribution.get("janssen:single-root-but-missing", 0)
    if nsingle >= 5 and nmiss == nsingle:
        ctx.disagree("roughness() returns NaN for every one of the %d single-root seas: the Janssen solver no longer works" % nsingle,
                     {"op": "WindGeneration(st4).roughness", "single_root_seas": nsingle})
    # tolerance-level differences: one (quick) / three (thorough) are attributed to a borderline convergence test
    allowed = ctx.n(1, 3)
    if len(loose) > allowed:
        for what, got, want, rp in loose[:5]:
            ctx.disagree("%s: implementation %r, modelled solver %r (inside the solver tolerance, but %d such differences in one run)"
                         % (what, got, want, len(loose)), rp)
    else:
        ctx.tally("tolerance-level-difference(borderline)", len(loose))


READY = True
LEVEL_TEXT = ("Theorems (Coq, real-number model of roughness.py, tools/solvers.py and balance/solvers.py): the Charnock relation and the drag "
              "coefficient are the stated formulas; a plain Charnock step from a positive iterate is positive; for ANY vector function, batch and "
              "configuration whose last budgeted iteration is not an Aitken step (default 100), every output of fixed_point_iteration that is not NaN "
              "was produced by a plain step x = bound(F(prev)) with |x-prev| < atol and |x-prev|/max(|prev|,atol) < rtol, and a NaN guess gives NaN "
              "(hence missing wind speed gives missing roughness and drag); without the viscous term the exact root of the Charnock equation on "
              "(0, 10 e^-2) is unique and strictly increasing in U, and so is the drag; for ANY function f and configuration the Newton/secant/"
              "bisection hybrid keeps its bracket bookkeeping sound (stored values belong to stored bounds; once bounded the signs differ, the "
              "iterate stays inside, the bracket never grows or gets lost), for continuous f the final bracket contains a root, and 'converged' means "
              "a small last step; the Janssen roughness is exp(log-root): missing or positive. The model is tied to the code by running the extracted "
              "model against the Charnock functions (scalar/array/DataArray, NaNs, budgets), fixed_point_iteration on analytic vector functions and "
              "numba_newton_raphson on analytic test functions incl. the real log_dimensionless_critical_height (1e-9 relative).")
LEVEL_NOTE = ("NOT proved, validated by execution only: convergence of the Charnock iteration within 100 iterations (family scan U in [0.1,80], "
              "10^5 points in thorough); the residual |z0 - G(z0)| <= 1e-4 max(z0,1e-4) of the implicit equation at the returned value (the solver's "
              "own tolerance - for z0 < 1e-4 m this is an absolute 1e-8 m, i.e. loose in relative terms); monotonicity of returned values; the 1e-4 "
              "stress-balance residual of the Janssen roughness - the stress function (resolved wave stress + WAM tail + viscous) is not modelled, the "
              "residual is evaluated on the implementation (roughness() fed back into stress()) on ST4 wind seas whose scanned balance has one sign "
              "change. No rounding-error bound. Trusted: Coq kernel, extraction, numba, harness tolerances; axioms: standard-library reals + classic.")
TECHNIQUE = "Coq proof (definitional laws, loop invariants by induction, exact-root monotonicity, bracket invariant + IVT) + extracted-model correspondence + residual oracles"
DESIGN_REF = "DESIGN.md section 5 C10"


def replay(ctx, obj):
    """re-run one recorded input on the implementation under test (and the model where it applies)"""
    inp = obj.get("input") or {}
    op = inp.get("op")
    if op == "charnock_roughness_length_from_u10":
        Us = inp["U"]; form = inp.get("form", "ndarray")
        alpha = inp.get("charnock_constant"); visc = inp.get("viscous_constant"); maxit = inp.get("max_iter")
        c = {"op": "charnock", "form": form, "U": [C.fx(v) for v in Us]}
        if inp.get("shape"):
            c["shape"] = inp["shape"]
        if alpha is not None:
            c["alpha"] = C.fx(alpha)
        if visc is not None:
            c["visc"] = C.fx(visc)
        if maxit:
            c["maxit"] = maxit
        a_ = 0.012 if alpha is None else alpha; v_ = 0.0 if visc is None else visc
        im = ctx.impl("C10.py", {"cases": [c]})["results"][0]
        if form in ("scalar", "np_scalar", "0d"):
            mz = [C.unfx(ctx.model(["charnock %s 100 1 %s" % (par_tokens(a_, v_), C.fx(u))])[0][1]) for u in Us]
        else:
            r = ctx.model(["charnock %s %d %s" % (par_tokens(a_, v_), maxit or 100, C.flist(Us))])[0]
            mz = [C.unfx(v) for v in r[1:1 + int(r[0])]]
        print("implementation:", im if "error" in im else [C.unfx(v) for v in im["z"]])
        print("model         :", mz)
        if "error" in im:
            ctx.oracle_fail("raised %s: %s" % (im["error"], im["msg"]), inp, key="roughness.charnock:%s-raises" % form); return
        iz = [C.unfx(v) for v in im["z"]]
        for j, u in enumerate(Us):
            ctx.count(["replay", u])
            z = iz[j]
            if math.isnan(u):
                if not math.isnan(z):
                    ctx.oracle_fail("missing wind speed gives roughness %r" % z, inp)
            elif not maxit and not (z > 0 and math.isfinite(z)):
                ctx.oracle_fail("roughness %r for U=%r is not a positive length" % (z, u), inp)
            elif not maxit and abs(z - G_py(a_, v_, u, z)) > ATOL * max(z, ATOL) * (1 + 1e-6):
                ctx.oracle_fail("|z0 - G(z0)| = %.3e > %.3e at U=%r" % (abs(z - G_py(a_, v_, u, z)), ATOL * max(z, ATOL), u), inp)
            elif not C.close(z, mz[j], 1e-9, 1e-300):
                ctx.disagree("U=%r: implementation %r, modelled solver %r" % (u, z, mz[j]), inp)
    elif op == "numba_newton_raphson":
        cfg = inp["config"]; a, b, c_ = inp["args"]; hlo, hhi = inp["hard_bounds"]
        cc = {"op": "newton", "id": inp["function_id"], "a": C.fx(a), "b": C.fx(b), "c": C.fx(c_), "guess": C.fx(inp["guess"]),
              "hlo": C.fx(hlo), "hhi": C.fx(hhi)}
        cc.update({kk: (C.fx(v) if isinstance(v, float) else v) for kk, v in cfg.items()})
        im = ctx.impl("C10.py", {"cases": [cc]})["results"][0]
        r = ctx.model(["newton %d %s %s %s %s %s %s %d %s %s %s %s %s %s %s" % (
            inp["function_id"], C.fx(a), C.fx(b), C.fx(c_), C.fx(inp["guess"]), C.fx(hlo), C.fx(hhi), cfg["maxit"],
            "T" if cfg["aitken"] else "F", C.fx(cfg["atol"]), C.fx(cfg["rtol"]), C.fx(cfg["h"]), "T" if cfg["relstep"] else "F",
            C.fx(cfg["relax"]), "T" if cfg["eom"] else "F")])[0]
        print("implementation:", {k: (v if k != "trace" else [C.unfx(t) for t in v]) for k, v in im.items()})
        print("model         :", r[0], r[1], "evaluated at", [C.unfx(v) for v in r[6:]])
        ctx.count("replay")
        mtr = [C.unfx(v) for v in r[6:]]; itr = [C.unfx(v) for v in im.get("trace", [])]
        if len(mtr) != len(itr) or any(not C.close(u, v, 1e-9, 1e-12) for u, v in zip(itr, mtr)):
            ctx.disagree("numba_newton_raphson departs from the modelled solver", inp)
    else:
        print("replay: op %r is replayed by re-running ./check C10 with VERIF_SEED=%r (the check is deterministic per seed)" % (op, obj.get("seed")))
