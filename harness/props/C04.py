"""C04 peak parameters.

Correspondence: the extracted Coq model (Model/Peak.v: band mask with 0 outside, first NaN-skipping argmax, values read at
that index, a1/b1 of 2D spectra, NaN depth -> deep water, the Newton solver with its batch-wide exit test) against
peak_index / peak_frequency / peak_period / peak_direction / peak_directional_spread / peak_wavenumber / depth and
inverse_intrinsic_dispersion_relation.  Oracles on the implementation alone: brute-force first in-band maximiser,
values at the index, residual of the dispersion relation, batch point = single spectrum.
"""
from fractions import Fraction
import math

import common as C
import props.C01 as G

RULE = ("one evaluation = one (spectrum point, band) pair compared on index/frequency/period/direction/spread, or one "
        "(point) wavenumber, or one solver point; non-trivial = some finite in-band density is positive (the premise of "
        "peak_in_band); distinct by hash of (grid, band, densities, a1, b1, depth)")
ASSUMPTIONS = ["floating point rounding is not modelled; 2D densities are generated so that directional sums are exact "
               "(ties stay ties in both worlds)",
               "xarray vectorised indexing / argmax(skipna) / where are validated by the layouts, not modelled",
               "convergence of the Newton iteration is not proved: the theorem is conditional on leaving the loop through "
               "the tolerance test; the residual is checked on the implementation for every generated point",
               "+-inf densities and non-positive depths are outside the model"]

NAN = float("nan")
INF = float("inf")
GRAV = 9.81


# ------------------------------------------------------------------------------------------
# generators
# ------------------------------------------------------------------------------------------
def gen_e1d(rng, f):
    nf = len(f)
    kind = rng.choice(["levels", "levels", "multipeak", "plateau", "peak_first", "peak_last", "random", "unimodal",
                       "allzero", "allnan", "negative", "single"])
    lv = [0.0, 0.5, 1.0, 1.5, 2.0, 3.0]
    if kind == "levels":
        e = [rng.choice(lv) for _ in f]
    elif kind == "multipeak":
        e = [C.dyadic(rng, 0, 1, 6) for _ in f]
        top = C.dyadic(rng, 2, 4, 4)
        for _ in range(rng.randint(2, 4)):
            e[rng.randrange(nf)] = top          # several exact ties for the maximum
    elif kind == "plateau":
        v = rng.choice(lv[1:])
        e = [v] * nf
        if nf > 2 and rng.random() < 0.5:
            e[0] = 0.0
    elif kind == "peak_first":
        e = [C.dyadic(rng, 0, 1, 6) for _ in f]
        e[0] = 4.0
    elif kind == "peak_last":
        e = [C.dyadic(rng, 0, 1, 6) for _ in f]
        e[-1] = 4.0
    elif kind == "random":
        e = [C.dyadic(rng, 0, 8, 10) for _ in f]
    elif kind == "unimodal":
        k0 = rng.randrange(nf)
        e = [C.dyadic(rng, 4, 4, 4) / (1 + abs(i - k0)) for i in range(nf)]
    elif kind == "allzero":
        e = [0.0] * nf
    elif kind == "allnan":
        e = [NAN] * nf
    elif kind == "negative":
        e = [-C.dyadic(rng, 0.5, 2, 4) for _ in f]
        if rng.random() < 0.5:
            e[rng.randrange(nf)] = 0.5
    else:
        e = [0.0] * nf
        e[rng.randrange(nf)] = 2.0
    if kind != "allnan" and rng.random() < 0.4:
        pn = rng.choice([0.1, 0.3, 0.6])
        e = [NAN if rng.random() < pn else x for x in e]
    return kind, e


def gen_ab(rng, nf):
    a = []
    b = []
    for _ in range(nf):
        r = rng.random()
        if r < 0.08:
            x, y = NAN, C.dyadic(rng, -0.5, 0.5, 6)
        elif r < 0.12:
            x, y = C.dyadic(rng, -0.5, 0.5, 6), NAN
        elif r < 0.30:
            x, y = rng.choice([(0.0, 0.5), (0.0, -0.5), (0.5, 0.0), (-0.5, 0.0), (0.0, 0.0), (-0.25, 0.25), (1.0, 0.0),
                               (0.0, -1.0), (0.75, 0.75)])
        else:
            x, y = C.dyadic(rng, -0.7, 0.7, 8), C.dyadic(rng, -0.7, 0.7, 8)
        a.append(x)
        b.append(y)
    return a, b


def gen_E2d(rng, nf, nd):
    kind = rng.choice(["levels", "levels", "random", "tiesrows", "allzero", "allnan", "onedir"])
    rows = []
    base = [rng.randint(0, 16) / 8.0 for _ in range(nd)]
    for i in range(nf):
        if kind == "levels":
            row = [rng.choice([0.0, 0.5, 1.0, 2.0]) for _ in range(nd)]
        elif kind == "random":
            row = [rng.randint(0, 64) / 8.0 for _ in range(nd)]
        elif kind == "tiesrows":
            row = list(base)
            if rng.random() < 0.5:
                rng.shuffle(row)                 # same sum on a uniform grid: exact tie in e(f)
            if rng.random() < 0.3:
                row = [0.0] * nd
        elif kind == "allzero":
            row = [0.0] * nd
        elif kind == "allnan":
            row = [NAN] * nd
        else:
            row = [0.0] * nd
            row[rng.randrange(nd)] = rng.randint(1, 16) / 8.0
        if kind not in ("allnan",) and rng.random() < 0.25:
            row = [NAN if rng.random() < 0.2 else x for x in row]
        rows.append(row)
    return kind, rows


def gen_depth(rng):
    r = rng.random()
    if r < 0.15:
        return NAN
    if r < 0.35:
        return INF
    if r < 0.55:
        return C.dyadic(rng, 0.5, 8.0, 6)
    if r < 0.85:
        return C.dyadic(rng, 8.0, 200.0, 8)
    return C.dyadic(rng, 200.0, 6000.0, 8)


def gen_case(rng):
    kind = "2d" if rng.random() < 0.3 else "1d"
    r = rng.random()
    nf = rng.randint(1, 3) if r < 0.1 else (rng.randint(4, 12) if r < 0.7 else rng.randint(13, 36))
    gk, f = G.gen_freq(rng, nf)
    if f[0] == 0.0 and rng.random() < 0.6:
        f = [x + 1.0 / 64 for x in f]          # a peak at f = 0 makes the solver run to its iteration limit
    layout = rng.choice(["scalar", "time", "time", "timelat", "flat"])
    if layout == "scalar":
        shape, npts = [], 1
    elif layout == "time":
        npts = rng.randint(1, 5)
        shape = [npts]
    else:
        shape = [rng.randint(1, 3), rng.randint(1, 3)]
        npts = shape[0] * shape[1]
    c = {"kind": kind, "layout": layout, "shape": shape, "f": f, "th": None, "E": [], "a1": None, "b1": None,
         "depth": [gen_depth(rng) for _ in range(npts)], "tags": {"grid": gk, "dens": [], "dirs": None}}
    if kind == "1d":
        c["a1"], c["b1"] = [], []
        for _ in range(npts):
            k, e = gen_e1d(rng, f)
            a, b = gen_ab(rng, nf)
            c["E"].append(e); c["a1"].append(a); c["b1"].append(b); c["tags"]["dens"].append(k)
    else:
        dk, th = G.gen_dirs(rng)
        c["th"] = th
        c["tags"]["dirs"] = dk
        for _ in range(npts):
            k, rows = gen_E2d(rng, nf, len(th))
            c["E"].append(rows); c["tags"]["dens"].append(k)
    c["bands"], c["tags"]["bands"] = G.gen_bands(rng, f, rng.randint(3, 6))
    return c


def payload_case(c):
    p = G.payload_case(c)
    p["op"] = "peak"
    p["depth"] = G.hexify(c["depth"])
    if c["kind"] == "1d":
        p["a1"] = G.hexify(c["a1"])
        p["b1"] = G.hexify(c["b1"])
    return p


def model_lines(c):
    out = []
    bt = G.bands_tok(c["bands"])
    for i, p in enumerate(c["E"]):
        if c["kind"] == "1d":
            out.append("p1 %s %s %s %s %s" % (C.flist(c["f"]), C.flist(p), C.flist(c["a1"][i]), C.flist(c["b1"][i]), bt))
        else:
            rows = "%d %s" % (len(p), " ".join(C.flist(r) for r in p))
            out.append("p2 %s %s %s %s" % (C.flist(c["th"]), C.flist(c["f"]), rows, bt))
    if c["kind"] == "1d":
        pts = " ".join("%s %s" % (C.flist(p), C.fx(d)) for p, d in zip(c["E"], c["depth"]))
        out.append("kw %s %d %s" % (C.flist(c["f"]), len(c["E"]), pts))
    else:
        pts = " ".join("%d %s %s" % (len(p), " ".join(C.flist(r) for r in p), C.fx(d)) for p, d in zip(c["E"], c["depth"]))
        out.append("kw2 %s %s %d %s" % (C.flist(c["th"]), C.flist(c["f"]), len(c["E"]), pts))
    return out


# ------------------------------------------------------------------------------------------
def isbad(x):
    return math.isnan(x) or math.isinf(x)


def angdiff(a, b):
    d = (a - b) % 360.0
    return min(d, 360.0 - d)


def omega_py(k, d):
    if math.isinf(d):
        return math.sqrt(GRAV * k)
    return math.sqrt(GRAV * k * math.tanh(k * d))


def exact_e(c, p):
    """densities of a point as exact rationals (None = NaN)"""
    if c["kind"] == "1d":
        return [None if math.isnan(x) else Fraction(x) for x in p]
    e, _ = G.e_of_point(c, p, exact=True)
    return e


def ab_at(c, pi, k):
    """(a1, b1) at bin k as floats (nan possible), computed independently of model and implementation"""
    if c["kind"] == "1d":
        return c["a1"][pi][k], c["b1"][pi][k]
    ds = [float(x) for x in G.dstep_fr(c["th"])]
    row = c["E"][pi][k]
    e = math.fsum(x * d for x, d in zip(row, ds) if not math.isnan(x))
    na = math.fsum(x * math.cos(t * math.pi / 180) * d for x, t, d in zip(row, c["th"], ds) if not math.isnan(x))
    nb = math.fsum(x * math.sin(t * math.pi / 180) * d for x, t, d in zip(row, c["th"], ds) if not math.isnan(x))
    if e == 0:
        if na == 0 and nb == 0:
            return NAN, NAN           # 0/0
        return None, None             # x/0 = +-inf: direction of an infinite vector, not compared
    return na / e, nb / e


def brute_peak(f, e, lo, hi):
    """first maximiser of e over lo <= f < hi ignoring NaN; None when no finite in-band value"""
    best = None
    for i, (x, v) in enumerate(zip(f, e)):
        if lo <= x < hi and v is not None:
            if best is None or v > e[best]:
                best = i
    return best


def evaluate(ctx, cases):
    impl = ctx.impl("C04.py", {"cases": [payload_case(c) for c in cases]})["results"]
    lines = []
    for c in cases:
        lines += model_lines(c)
    mod = ctx.model(lines)
    mp = 0
    for ci, c in enumerate(cases):
        im = impl[ci]
        npts = len(c["E"])
        mrows = mod[mp:mp + npts]
        mkw = mod[mp + npts]
        mp += npts + 1
        nb = len(c["bands"])
        lead = [] if c["layout"] == "scalar" else ([npts] if c["layout"] in ("time", "flat") else list(c["shape"]))
        base = {"op": "peak", "kind": c["kind"], "layout": c["layout"], "shape": c["shape"], "frequency": c["f"],
                "direction": c["th"], "variance_density_per_point": c["E"], "a1_per_point": c["a1"], "b1_per_point": c["b1"],
                "depth_per_point": c["depth"], "tags": c["tags"]}
        ctx.tally("kind:" + c["kind"]); ctx.tally("layout:" + c["layout"])
        for k in c["tags"]["dens"]:
            ctx.tally("density:" + k)
        if isinstance(im, dict) and "error" in im:
            ctx.oracle_fail("peak functions raised %s: %s" % (im["error"], im.get("msg")), base)
            continue
        exs = [exact_e(c, p) for p in c["E"]]
        for bi, (lo, hi) in enumerate(c["bands"]):
            b = im["bands"][bi]
            bk = c["tags"]["bands"][bi]
            m = [[mrows[pi][5 * bi + j] for j in range(5)] for pi in range(npts)]
            midx = [int(r[0]) for r in m]
            repb = dict(base, fmin=lo, fmax=hi, band_kind=bk)
            ctx.tally("band:" + bk)
            premise = []
            for pi in range(npts):
                premise.append(any((lo <= x < hi) and v is not None and v > 0 for x, v in zip(c["f"], exs[pi])))
            if any(i < 0 for i in midx):
                # an all-NaN member: numpy's nanargmax raises for the whole batch (outside the property's premise)
                for pi in range(npts):
                    ctx.count(["allnan", c["f"], lo, hi, c["E"][pi]], False)
                ctx.tally("edge: all-NaN member, peak_index raises")
                if not (isinstance(b["index"], dict) and b["index"].get("error") == "ValueError"):
                    ctx.disagree("peak_index returned %r for a batch with an all-NaN member (model: numpy raises)" % (b["index"],),
                                 repb, is_property_failure=False)
                continue
            for nm in ("index", "frequency", "period", "direction", "spread"):
                if isinstance(b[nm], dict):
                    ctx.oracle_fail("peak_%s raised %s: %s" % (nm, b[nm].get("error"), b[nm].get("msg")), dict(repb, call=nm))
            if any(isinstance(b[nm], dict) for nm in ("index", "frequency", "period", "direction", "spread")):
                continue
            if b["index_shape"] != lead:
                ctx.oracle_fail("peak_index has shape %r, leading dimensions are %r" % (b["index_shape"], lead), repb)
                continue
            for pi in range(npts):
                rep = dict(repb, point=pi)
                ii = int(C.unfx(b["index"][pi]))
                fi = C.unfx(b["frequency"][pi]); ti = C.unfx(b["period"][pi])
                di = C.unfx(b["direction"][pi]); si = C.unfx(b["spread"][pi])
                mi = midx[pi]
                ctx.count([c["f"], lo, hi, c["E"][pi], (c["a1"] or [None] * npts)[pi], (c["b1"] or [None] * npts)[pi], c["th"]],
                          premise[pi])
                ctx.tally("premise holds" if premise[pi] else "edge: no positive in-band bin")
                # ---- brute-force oracle on the implementation alone (the statement of the property)
                if premise[pi]:
                    bp = brute_peak(c["f"], exs[pi], lo, hi)
                    if ii != bp:
                        why = "not in the band" if not (0 <= ii < len(c["f"]) and lo <= c["f"][ii] < hi) else (
                            "not the first maximiser" if exs[pi][ii] == exs[pi][bp] else "not a maximiser")
                        ctx.oracle_fail("peak_index(%r, %r) = %d, first in-band maximiser of e is %d (%s)" % (lo, hi, ii, bp, why),
                                        dict(rep, impl=ii, expected=bp))
                        continue
                    tie = sum(1 for x, v in zip(c["f"], exs[pi]) if lo <= x < hi and v is not None and v == exs[pi][bp])
                    if tie > 1:
                        ctx.tally("tie for the maximum")
                    glob = brute_peak(c["f"], exs[pi], -INF, INF)
                    if glob != bp:
                        ctx.tally("global maximum outside band")
                    if bp == 0:
                        ctx.tally("peak at first bin")
                    if bp == len(c["f"]) - 1:
                        ctx.tally("peak at last bin")
                # ---- model vs implementation
                if ii != mi:
                    ctx.disagree("peak_index(%r, %r) = %d, model (first NaN-skipping argmax of e masked to the band) = %d"
                                 % (lo, hi, ii, mi), dict(rep, impl=ii, model=mi), is_property_failure=premise[pi])
                    continue
                if not (0 <= ii < len(c["f"])):
                    ctx.oracle_fail("peak index %d outside the grid" % ii, rep)
                    continue
                # values at the index (oracle: read from the inputs directly)
                if fi != c["f"][ii]:
                    ctx.oracle_fail("peak_frequency = %r, grid frequency at the peak index %d is %r" % (fi, ii, c["f"][ii]),
                                    dict(rep, impl=fi))
                want_t = INF if c["f"][ii] == 0 else 1.0 / c["f"][ii]
                if not C.close(ti, want_t, 1e-15, 0.0):
                    ctx.oracle_fail("peak_period = %r, reciprocal of the peak frequency is %r" % (ti, want_t), dict(rep, impl=ti))
                mt = C.unfx(m[pi][2])
                if (math.isnan(mt) != (c["f"][ii] == 0)) or (not math.isnan(mt) and not C.close(ti, mt, 1e-15, 0.0)):
                    ctx.disagree("peak_period %r vs model %r" % (ti, mt), dict(rep, impl=ti, model=mt), is_property_failure=True)
                # the property itself: direction and spread are the per-frequency values at the peak index
                nfq = len(c["f"])
                dpf = C.unfx(im["dir_pf"][pi * nfq + ii]); spf = C.unfx(im["spr_pf"][pi * nfq + ii])
                if not C.close(di, dpf, 1e-13, 0.0) or not C.close(si, spf, 1e-13, 0.0):
                    ctx.oracle_fail("peak direction/spread = %r/%r, per-frequency direction/spread at the peak index %d = %r/%r"
                                    % (di, si, ii, dpf, spf), dict(rep, impl=[di, si], expected=[dpf, spf]))
                a, bb = ab_at(c, pi, ii)
                md = C.unfx(m[pi][3]); ms = C.unfx(m[pi][4])
                if a is None:
                    ctx.tally("skipped: e = 0 with non-zero directional numerators (negative direction steps)")
                    continue
                if math.isnan(a) or math.isnan(bb):
                    if not math.isnan(di) or not math.isnan(si):
                        ctx.oracle_fail("direction/spread = %r/%r although a1/b1 at the peak are missing" % (di, si), rep)
                    if not (math.isnan(md) and math.isnan(ms)):
                        ctx.disagree("model direction/spread %r/%r for missing a1/b1" % (md, ms), rep)
                    continue
                r = math.hypot(a, bb)
                if r < 1e-6 and not (a == 0 and bb == 0):
                    ctx.tally("skipped: direction of a near-zero vector")
                else:
                    want_d = math.degrees(math.atan2(bb, a))
                    if math.isnan(di) or angdiff(di, want_d) > 1e-7:
                        ctx.oracle_fail("peak_direction = %r, atan2(b1, a1) at the peak index = %r" % (di, want_d), dict(rep, impl=di))
                    elif math.isnan(md) or angdiff(di, md) > 1e-7:
                        ctx.disagree("peak_direction %r vs model %r" % (di, md), dict(rep, impl=di, model=md), is_property_failure=True)
                q = 2 - 2 * r
                if abs(q) < 1e-9:
                    ctx.tally("skipped: spread at |m1| = 1")
                elif q < 0:
                    if not math.isnan(si) or not math.isnan(ms):
                        ctx.disagree("spread %r (model %r) for a1^2+b1^2 > 1" % (si, ms), rep, is_property_failure=False)
                else:
                    if math.isnan(si) or abs((si * math.pi / 180) ** 2 - q) > 1e-9:
                        ctx.oracle_fail("peak_directional_spread = %r, sqrt(2-2|m1|) at the peak index = %r"
                                        % (si, math.degrees(math.sqrt(q))), dict(rep, impl=si))
                    elif math.isnan(ms) or abs((ms * math.pi / 180) ** 2 - q) > 1e-9:
                        ctx.disagree("spread: model %r vs %r" % (ms, si), rep)
            if bi == 0:
                for nm in ("index", "frequency", "period", "direction", "spread"):
                    d = b.get("d_" + nm)
                    if isinstance(d, dict) or any(not C.close(C.unfx(x), C.unfx(y), 0.0, 0.0) for x, y in zip(d, b[nm])):
                        ctx.oracle_fail("peak_%s() differs from peak_%s(0, inf): %r vs %r" % (nm, nm, d, b[nm]), dict(repb, call=nm))
        # ---------------- depth and peak wavenumber (default band)
        dep_i = [C.unfx(v) for v in im["depth"]]
        for pi in range(npts):
            want = INF if math.isnan(c["depth"][pi]) else c["depth"][pi]
            if dep_i[pi] != want:
                ctx.oracle_fail("depth property = %r for dataset depth %r (missing depth must mean deep water)" % (dep_i[pi], c["depth"][pi]),
                                dict(base, point=pi))
        kw = im["wavenumber"]
        if mkw[0] == "E":
            ctx.tally("edge: all-NaN member, peak_wavenumber raises")
            if not (isinstance(kw, dict) and kw.get("error") == "ValueError"):
                ctx.disagree("peak_wavenumber returned %r for a batch with an all-NaN member" % (kw,), base)
            continue
        if isinstance(kw, dict):
            ctx.oracle_fail("peak_wavenumber raised %s: %s" % (kw.get("error"), kw.get("msg")), dict(base, call="peak_wavenumber"))
            continue
        if im["wavenumber_shape"] != lead:
            ctx.oracle_fail("peak_wavenumber has shape %r, leading dimensions are %r" % (im["wavenumber_shape"], lead), base)
            continue
        status = mkw[0]
        mk = [C.unfx(t) for t in mkw[2:]]
        ctx.tally("solver: left through the tolerance test" if status == "C" else "solver: iteration limit (a point has w = 0 or NaN)")
        for pi in range(npts):
            ki = C.unfx(kw[pi])
            bp = brute_peak(c["f"], exs[pi], 0.0, INF)
            prem = any(x >= 0 and v is not None and v > 0 for x, v in zip(c["f"], exs[pi]))
            rep = dict(base, point=pi, call="peak_wavenumber", impl=ki, model=mk[pi])
            ctx.count(["kw", c["f"], c["E"][pi], c["depth"][pi], c["th"]], prem and status == "C")
            d = INF if math.isnan(c["depth"][pi]) else c["depth"][pi]
            ctx.tally("depth: " + ("nan" if math.isnan(c["depth"][pi]) else ("inf" if math.isinf(d) else "finite")))
            if isbad(mk[pi]) or isbad(ki):
                if prem and status == "C" and bp is not None and c["f"][bp] > 0 and isbad(ki):
                    ctx.oracle_fail("peak wavenumber is %r at peak frequency %r, depth %r" % (ki, c["f"][bp], c["depth"][pi]), rep)
                elif not (isbad(mk[pi]) and isbad(ki)):
                    ctx.disagree("peak_wavenumber %r vs model %r" % (ki, mk[pi]), rep, is_property_failure=False)
                continue
            if not C.close(ki, mk[pi], 2e-3, 0.0):
                ctx.disagree("peak_wavenumber = %r, model solver = %r" % (ki, mk[pi]), rep, is_property_failure=False)
            if prem and status == "C" and bp is not None and c["f"][bp] > 0:
                w = 2 * math.pi * c["f"][bp]
                res = abs(omega_py(ki, d) - w)
                if ki <= 0 or res > 1e-3 * w * (1 + 1e-6):
                    ctx.oracle_fail("peak wavenumber k = %r does not satisfy the dispersion relation at the peak frequency %r "
                                    "for depth %r: |omega(k,d) - w| / w = %.3e" % (ki, c["f"][bp], d, res / w), rep)
        if ci < 3:
            ctx.sample({"case": {"kind": c["kind"], "layout": c["layout"], "shape": c["shape"], "nf": len(c["f"]), "band": c["bands"][-1]},
                        "impl_index": im["bands"][-1]["index"] if not isinstance(im["bands"][-1]["index"], dict) else "raises",
                        "model_index": [mrows[pi][5 * (nb - 1)] for pi in range(npts)],
                        "impl_wavenumber": im["wavenumber"], "model_wavenumber": mkw[:8]})


def solver_cases(ctx, rng, n):
    cases = []
    for _ in range(n):
        m = rng.choice([1, 1, 2, 3, 5, 8, 20])
        kind = rng.choice(["mixed", "mixed", "deep", "shallow", "intermediate"])
        w = []
        d = []
        for _ in range(m):
            w.append(C.dyadic(rng, 0.05, 8.0, 10) if rng.random() < 0.9 else C.dyadic(rng, 0.005, 0.05, 8))
            if kind == "deep":
                d.append(INF)
            elif kind == "shallow":
                d.append(C.dyadic(rng, 0.1, 2.0, 6))
            elif kind == "intermediate":
                # k d of order one: depth about g / w^2
                d.append(C.dyadic(rng, 0.3, 3.0, 8) * GRAV / (w[-1] ** 2))
            else:
                d.append(gen_depth(rng))
                if math.isnan(d[-1]):
                    d[-1] = INF
        cases.append((w, d, kind))
    impl = ctx.impl("C04.py", {"cases": [{"op": "kinv", "w": G.hexify(w), "depth": G.hexify(d)} for w, d, _ in cases]})["results"]
    mod = ctx.model(["kinv %d %s" % (len(w), " ".join("%s %s" % (C.fx(a), C.fx(b)) for a, b in zip(w, d))) for w, d, _ in cases])
    for (w, d, kind), im, mo in zip(cases, impl, mod):
        rep = {"op": "inverse_intrinsic_dispersion_relation", "angular_frequency": w, "depth": d, "kind": kind}
        ctx.tally("solver batch: " + kind)
        if isinstance(im, dict) and "error" in im:
            ctx.oracle_fail("inverse_intrinsic_dispersion_relation raised %s" % im, rep)
            continue
        status = mo[0]
        mk = [C.unfx(t) for t in mo[2:]]
        ki = [C.unfx(t) for t in im["k"]]
        ctx.tally("solver status " + status)
        for j in range(len(w)):
            ctx.count(["kinv", w[j], d[j], len(w)], status == "C")
            rj = dict(rep, point=j, impl=ki[j], model=mk[j])
            if isbad(ki[j]) or isbad(mk[j]):
                if not (isbad(ki[j]) and isbad(mk[j])):
                    ctx.disagree("solver %r vs model %r" % (ki[j], mk[j]), rj)
                continue
            if not C.close(ki[j], mk[j], 2e-3, 0.0):
                ctx.disagree("inverse_intrinsic_dispersion_relation = %r, model = %r" % (ki[j], mk[j]), rj)
            if status == "C":
                res = abs(omega_py(ki[j], d[j]) - w[j])
                if ki[j] <= 0 or res > 1e-3 * w[j] * (1 + 1e-6):
                    ctx.oracle_fail("k = %r violates the dispersion relation for w = %r, depth = %r: relative residual %.3e"
                                    % (ki[j], w[j], d[j], res / w[j]), rj)
                om = C.unfx(im["omega"][j])
                if not C.close(om, omega_py(ki[j], d[j]), 1e-12, 0.0):
                    ctx.oracle_fail("intrinsic_dispersion_relation(k=%r, d=%r) = %r, sqrt(g k tanh(k d)) = %r"
                                    % (ki[j], d[j], om, omega_py(ki[j], d[j])), rj)


def batch_vs_single(ctx, rng, n):
    """point i of a batch must equal the same spectrum evaluated alone (index, frequency, direction, spread)"""
    base = []
    while len(base) < n:
        c = gen_case(rng)
        if len(c["E"]) < 2 or "allnan" in c["tags"]["dens"]:
            continue
        base.append(c)
    allc = []
    pis = []
    for c in base:
        pi = rng.randrange(len(c["E"]))
        s = dict(c, layout="scalar", shape=[], E=[c["E"][pi]], depth=[c["depth"][pi]],
                 a1=[c["a1"][pi]] if c["a1"] else None, b1=[c["b1"][pi]] if c["b1"] else None,
                 tags=dict(c["tags"], dens=[c["tags"]["dens"][pi]]))
        allc += [c, s]
        pis.append(pi)
    impl = ctx.impl("C04.py", {"cases": [payload_case(c) for c in allc]})["results"]
    for q, c in enumerate(base):
        r0, r1 = impl[2 * q], impl[2 * q + 1]
        pi = pis[q]
        rep = {"op": "peak-batch-vs-single", "kind": c["kind"], "layout": c["layout"], "shape": c["shape"], "frequency": c["f"],
               "direction": c["th"], "variance_density_per_point": c["E"], "a1_per_point": c["a1"], "b1_per_point": c["b1"],
               "depth_per_point": c["depth"], "point": pi}
        if "error" in r0 or "error" in r1:
            ctx.oracle_fail("peak functions raised: %r" % ([r for r in (r0, r1) if "error" in r][:1],), rep)
            continue
        allnan_other = c["kind"] == "1d" and any(all(math.isnan(x) for x in e) for j, e in enumerate(c["E"]) if j != pi)
        for bi, (lo, hi) in enumerate(c["bands"]):
            ctx.count(["bvs", c["f"], lo, hi, c["E"][pi]], True)
            for nm in ("index", "frequency", "period", "direction", "spread"):
                a = r0["bands"][bi][nm]; s = r1["bands"][bi][nm]
                if isinstance(a, dict) and isinstance(s, dict):
                    ctx.tally("edge: all-NaN spectrum raises inside and outside a batch")
                    continue
                if isinstance(s, dict) or (isinstance(a, dict) and not allnan_other):
                    ctx.oracle_fail("peak_%s raised inside/outside a batch: %r / %r" % (nm, a, s), dict(rep, fmin=lo, fmax=hi))
                    continue
                if isinstance(a, dict):
                    ctx.tally("edge: another member of the batch is all-NaN")
                    continue
                if not C.close(C.unfx(a[pi]), C.unfx(s[0]), 1e-12, 0.0):
                    ctx.oracle_fail("peak_%s of point %d inside the batch is %r, of the same spectrum alone %r"
                                    % (nm, pi, C.unfx(a[pi]), C.unfx(s[0])), dict(rep, fmin=lo, fmax=hi, call=nm))
        ctx.tally("law: batch point = single spectrum")
        a = r0["wavenumber"]; s = r1["wavenumber"]
        if not isinstance(a, dict) and not isinstance(s, dict):
            x, y = C.unfx(a[pi]), C.unfx(s[0])
            if not (isbad(x) or isbad(y)) and not C.close(x, y, 2e-3, 0.0):
                ctx.oracle_fail("peak_wavenumber of point %d inside the batch is %r, alone %r" % (pi, x, y), rep)


CORPUS = [
    {"kind": "1d", "layout": "time", "shape": [3], "f": [0.0, 0.125, 0.25, 0.5, 1.0, 2.0], "th": None,
     "E": [[9.0, 3.0, NAN, 3.0, 1.0, 0.5], [0.0, 1.0, 2.0, 2.0, 2.0, 0.0], [NAN, 0.5, 0.25, 4.0, NAN, 4.0]],
     "a1": [[0.5, -0.5, 0.0, 0.0, 0.25, NAN]] * 3, "b1": [[0.5, 0.5, 0.0, -0.5, NAN, 0.25]] * 3,
     "depth": [12.0, NAN, INF],
     "bands": [(0.0, INF), (0.125, 2.0), (0.25, 1.0), (0.5, 0.5), (0.3, 0.4)],
     "tags": {"grid": "corpus", "dens": ["corpus"] * 3, "dirs": None,
              "bands": ["default", "grid", "grid", "single_eq", "empty_between"]}},
    {"kind": "2d", "layout": "timelat", "shape": [2, 1], "f": [0.0625, 0.125, 0.25, 0.5], "th": [0.0, 90.0, 180.0, 270.0],
     "E": [[[1.0, 0.0, 0.0, 0.0], [0.5, 0.5, 0.5, 0.5], [0.0, 2.0, 0.0, 0.0], [0.0, 0.0, NAN, 2.0]],
           [[0.0, 0.0, 0.0, 0.0], [NAN, NAN, NAN, NAN], [0.0, 0.0, 1.0, 1.0], [1.0, 1.0, 0.0, 0.0]]],
     "a1": None, "b1": None, "depth": [5.0, NAN],
     "bands": [(0.0, INF), (0.125, 0.5), (0.0625, 0.25)],
     "tags": {"grid": "corpus", "dens": ["corpus"] * 2, "dirs": "corpus", "bands": ["default", "grid", "grid"]}},
]


def run(ctx):
    _run_main(ctx)
    import reuse_common
    reuse_common.reuse_check(ctx, "C04")


def _run_main(ctx):
    rng = ctx.rng
    n = ctx.n(330, 6000)
    cases = list(CORPUS)
    while len(cases) < n:
        cases.append(gen_case(rng))
    chunk = 800
    for s in range(0, len(cases), chunk):
        evaluate(ctx, cases[s:s + chunk])
    solver_cases(ctx, rng, ctx.n(400, 8000))
    batch_vs_single(ctx, rng, ctx.n(40, 600))


def replay(ctx, obj):
    inp = obj.get("input", obj)
    if inp.get("op") == "inverse_intrinsic_dispersion_relation":
        return
    c = {"kind": inp["kind"], "layout": inp["layout"], "shape": inp["shape"], "f": inp["frequency"], "th": inp.get("direction"),
         "E": inp["variance_density_per_point"], "a1": inp.get("a1_per_point"), "b1": inp.get("b1_per_point"),
         "depth": inp["depth_per_point"], "bands": [(0.0, INF), (inp.get("fmin", 0.0), inp.get("fmax", INF))],
         "tags": {"grid": "replay", "dens": ["replay"] * len(inp["variance_density_per_point"]), "bands": ["default", "replay"], "dirs": None}}
    evaluate(ctx, [c])


READY = True
LEVEL_TEXT = ("Theorems (Coq, every grid size, band, NaN mask, batch size): the scan returns the first index of the maximum with "
              "missing values ignored (maximal, strictly larger than everything before); when some finite in-band density is "
              "positive the peak index lies in the band fmin <= f < fmax and is the first in-band maximiser; frequency, period, "
              "direction and spread are the values at that index; batch members are independent; leaving the Newton loop of "
              "the dispersion solver through its tolerance test implies |omega(k,d)-w| < 1e-3 w for every point (same number "
              "1..10 of Newton steps from each point's own first guess), in particular for the peak wavenumber at "
              "w = 2 pi f_peak with NaN depth read as deep water. The model is tied to spectrum.py / lineardispersion.py by "
              "running the extracted model and the real code on generated 1D/2D spectra (ties, plateaus, peaks at the ends and "
              "outside the band, per-point depths) in all layouts.")
LEVEL_NOTE = ("Not proved: convergence of the Newton iteration (the solver theorem is conditional on the exit test; the residual "
              "is checked on the implementation for every generated point). Outside the premise and compared only against the "
              "faithful model: all-NaN members (numpy raises), bands without a positive bin (index of the first 0 / NaN-skipping "
              "maximum). Trusted: Coq kernel, extraction (R as binary64, libm), harness tolerances (indices exact, angles 1e-7 "
              "deg, wavenumbers 2e-3 relative = 2 x solver tolerance).")
TECHNIQUE = "Coq proof (scan invariant by induction over the list, partial correctness of the solver loop) + extracted-model correspondence + brute-force and residual oracles"
DESIGN_REF = "DESIGN.md section 5 C04"
