"""C01 spectral moments and integral wave parameters.

Correspondence: the extracted Coq model (Model/Moments.v: band mask, (e*f^n).fillna(0), trapezoid, hm0/tm01/tm02,
directional integration for 2D spectra) against WaveSpectrum.frequency_moment/m0/m1/m2/hm0/tm01/tm02 and the bulk
properties, on spectra built in every layout.  Oracles on the implementation alone: exact rational trapezoid of the
implementation's own data, scale / sum laws, Tm02 <= Tm01 and the 1/f bounds, batch point = single spectrum,
default-argument entry points.
"""
from fractions import Fraction
import math

import common as C

RULE = ("one evaluation = one (spectrum point, band) pair compared on 5 moments + m0/m1/m2/hm0/tm01/tm02; "
        "non-trivial = the band holds >= 2 grid points and the zeroth moment is non-zero; distinct by hash of "
        "(frequency grid, band, densities of the point incl. NaN mask, direction grid)")
ASSUMPTIONS = ["floating point rounding is not modelled: comparison at 1e-9 relative to the sum of |segment terms|",
               "xarray dimension handling (isel by boolean mask, integrate along 'frequency', broadcasting) is "
               "validated by the layouts (), (time), (time,latitude), flattened - not modelled",
               "spectra with +-inf densities are outside the model (R has no infinities)"]

NAN = float("nan")
INF = float("inf")
POWERS = [0, 1, 2, 3, 4]
RT = 1e-9


# ------------------------------------------------------------------------------------------
# generators
# ------------------------------------------------------------------------------------------
def gen_freq(rng, nf):
    """strictly increasing, non-uniform, multiples of 1/256 (so f**4 is exact in binary64)"""
    kind = rng.choice(["uniform", "nonuniform", "nonuniform", "geometric", "twoscale"])
    start = rng.choice([0, 0, rng.randint(1, 40), rng.randint(1, 8)])
    f = [start]
    step = rng.randint(1, 24)
    for i in range(1, nf):
        if kind == "uniform":
            d = step
        elif kind == "nonuniform":
            d = rng.randint(1, 40)
        elif kind == "geometric":
            d = max(1, int(round(max(f[-1], 4) * 0.15)))
        else:
            d = step if i < nf // 2 else step * 4
        f.append(f[-1] + d)
    if rng.random() < 0.1:
        return kind + "-wide", [v / 16.0 for v in f]     # up to ~100 Hz: a finite default fmax would show
    return kind, [v / 256.0 for v in f]


def gen_density(rng, f, kind=None):
    nf = len(f)
    kind = kind or rng.choice(["pm", "pm", "random", "random", "sparse", "bimodal", "signed", "single",
                               "allzero", "allnan", "plateau"])
    if kind == "pm":
        k0 = rng.randrange(nf)
        fp = max(f[k0], 1.0 / 256)
        e = []
        for v in f:
            if v <= 0:
                e.append(0.0)
            else:
                e.append(C.dyadic(rng, 0.5, 4.0, 10) * (fp / v) ** 5 * math.exp(-1.25 * (fp / v) ** 4))
        e = [C.dyadic(rng, x, x, 14) if x > 1e-12 else 0.0 for x in e]      # no denormals: their products lose all precision
    elif kind == "random":
        e = [C.dyadic(rng, 0.0, 8.0, 12) for _ in f]
    elif kind == "sparse":
        e = [C.dyadic(rng, 0.0, 8.0, 12) if rng.random() < 0.25 else 0.0 for _ in f]
    elif kind == "bimodal":
        a = rng.randrange(nf); b = rng.randrange(nf)
        e = [C.dyadic(rng, 0, 1, 8) + (4.0 if i == a else 0.0) + (3.0 if i == b else 0.0) for i in range(nf)]
    elif kind == "signed":
        e = [C.dyadic(rng, -4.0, 8.0, 12) for _ in f]
    elif kind == "single":
        k = rng.randrange(nf)
        e = [0.0] * nf
        e[k] = C.dyadic(rng, 0.25, 8.0, 8)
    elif kind == "allzero":
        e = [0.0] * nf
    elif kind == "allnan":
        e = [NAN] * nf
    else:  # plateau
        v = C.dyadic(rng, 0.5, 4, 6)
        e = [v] * nf
    # NaN bins
    r = rng.random()
    if kind != "allnan" and r < 0.45:
        pn = rng.choice([0.05, 0.2, 0.5])
        e = [NAN if rng.random() < pn else x for x in e]
    if kind != "allnan" and rng.random() < 0.1 and nf > 1:
        e[rng.choice([0, nf - 1])] = NAN       # NaN at an end point of the grid
    return kind, e


def gen_dirs(rng):
    nd = rng.choice([4, 5, 8, 12, 24, 36])
    kind = rng.choice(["uniform", "uniform", "uniform0", "nonuniform", "neg"])
    if kind == "uniform":
        d0 = rng.choice([0.0, 5.0, 7.5, 100.0, 350.0])
        th = [(d0 + i * 360.0 / nd) for i in range(nd)]
        if rng.random() < 0.5:
            th = [t % 360.0 for t in th]
    elif kind == "uniform0":
        th = [i * 360.0 / nd for i in range(nd)]
    elif kind == "neg":
        th = [-180.0 + i * 360.0 / nd for i in range(nd)]
    else:
        w = [rng.randint(1, 8) for _ in range(nd)]
        tot = sum(w)
        acc = 0
        th = []
        for x in w:
            th.append(round(acc * 360.0 / tot * 4) / 4.0)
            acc += x
        if len(set(th)) < nd:
            th = [i * 360.0 / nd for i in range(nd)]
    if rng.random() < 0.08:
        return kind + "-descending", th[::-1]       # negative steps: the wrap must leave them negative
    return kind, th


def gen_bands(rng, f, nb):
    nf = len(f)
    eps = 1.0 / 1024
    bands = [(0.0, INF)]
    kinds = ["default"]
    while len(bands) < nb:
        k = rng.choice(["grid", "grid", "grid", "gridpm", "gridpm", "empty_between", "empty_above", "empty_rev", "single",
                        "single_eq", "upper_open", "upper_open", "lower_only", "lower_only", "last_excluded", "first_only",
                        "below0"])
        i = rng.randrange(nf); j = rng.randrange(nf)
        i, j = min(i, j), max(i, j)
        if k == "grid":
            b = (f[i], f[j])                       # exactly on grid points: f[j] excluded, f[i] included
        elif k == "gridpm":
            b = (f[i] + rng.choice([-eps, eps]), f[j] + rng.choice([-eps, eps]))
        elif k == "empty_between":
            b = (f[i] + eps, f[i] + 2 * eps)
        elif k == "empty_above":
            b = (f[-1] + eps, INF)
        elif k == "empty_rev":
            b = (f[j] + eps, f[i])
        elif k == "single":
            b = (f[i], f[i] + eps)
        elif k == "single_eq":
            b = (f[i], f[i])                       # empty: f < fmax fails
        elif k == "upper_open":
            b = (f[i], INF)
        elif k == "lower_only":
            b = (0.0, f[j])
        elif k == "last_excluded":
            b = (0.0, f[-1])
        elif k == "first_only":
            b = (f[0], f[min(1, nf - 1)])
        else:
            b = (-1.0, f[j] + eps)
        bands.append(b)
        kinds.append(k)
    return bands, kinds


def gen_case(rng, big=False):
    kind = "2d" if rng.random() < 0.3 else "1d"
    r = rng.random()
    nf = rng.randint(1, 3) if r < 0.12 else (rng.randint(4, 16) if r < 0.7 else rng.randint(17, 40))
    gk, f = gen_freq(rng, nf)
    layout = rng.choice(["scalar", "time", "time", "timelat", "flat"])
    if layout == "scalar":
        shape = []
        npts = 1
    elif layout == "time":
        npts = rng.randint(1, 4)
        shape = [npts]
    else:
        shape = [rng.randint(1, 3), rng.randint(1, 3)]
        npts = shape[0] * shape[1]
    th = None
    dk = None
    E = []
    dens = []
    if kind == "1d":
        for _ in range(npts):
            k, e = gen_density(rng, f)
            dens.append(k)
            E.append(e)
    else:
        dk, th = gen_dirs(rng)
        for _ in range(npts):
            k = rng.choice(["random", "random", "sparse", "rownan", "allzero", "allnan", "signed"])
            dens.append(k)
            rows = []
            for i in range(nf):
                if k == "allzero":
                    row = [0.0] * len(th)
                elif k == "allnan":
                    row = [NAN] * len(th)
                elif k == "signed":
                    row = [C.dyadic(rng, -1.0, 2.0, 8) for _ in th]
                elif k == "sparse":
                    row = [C.dyadic(rng, 0, 2, 8) if rng.random() < 0.2 else 0.0 for _ in th]
                else:
                    row = [C.dyadic(rng, 0, 2, 8) for _ in th]
                if k == "rownan" and rng.random() < 0.3:
                    row = [NAN] * len(th)
                elif k != "allnan" and rng.random() < 0.3:
                    row = [NAN if rng.random() < 0.15 else x for x in row]
                rows.append(row)
            E.append(rows)
    bands, bkinds = gen_bands(rng, f, rng.randint(4, 7))
    return {"kind": kind, "layout": layout, "shape": shape, "f": f, "th": th, "E": E, "bands": bands,
            "tags": {"grid": gk, "dens": dens, "bands": bkinds, "dirs": dk}}


# ------------------------------------------------------------------------------------------
# encoding
# ------------------------------------------------------------------------------------------
def hexify(x):
    if isinstance(x, (list, tuple)):
        return [hexify(v) for v in x]
    return C.fx(x)


def payload_case(c):
    return {"kind": c["kind"], "layout": c["layout"], "shape": c["shape"], "f": hexify(c["f"]),
            "th": hexify(c["th"]) if c["th"] is not None else None, "E": hexify(c["E"]),
            "bands": hexify(c["bands"]), "powers": POWERS}


def bands_tok(bands):
    return "%d %s" % (len(bands), " ".join("%s %s" % (C.fx(a), C.fx(b)) for a, b in bands))


def model_lines(c):
    out = []
    for p in c["E"]:
        if c["kind"] == "1d":
            out.append("s1 %s %s %s" % (C.flist(c["f"]), C.flist(p), bands_tok(c["bands"])))
        else:
            rows = "%d %s" % (len(p), " ".join(C.flist(r) for r in p))
            out.append("s2 %s %s %s %s" % (C.flist(c["th"]), C.flist(c["f"]), rows, bands_tok(c["bands"])))
    return out


def parse_model(c, toks):
    """-> dict(dstep, e, bands=[8 floats])"""
    pos = 0
    res = {}
    if c["kind"] == "2d":
        n = int(toks[pos]); pos += 1
        res["dstep"] = [C.unfx(t) for t in toks[pos:pos + n]]; pos += n
        n = int(toks[pos]); pos += 1
        res["e"] = [C.unfx(t) for t in toks[pos:pos + n]]; pos += n
    res["bands"] = []
    for _ in c["bands"]:
        res["bands"].append([C.unfx(t) for t in toks[pos:pos + 8]])
        pos += 8
    return res


# ------------------------------------------------------------------------------------------
# reference arithmetic (exact rationals) on the implementation's own inputs
# ------------------------------------------------------------------------------------------
def fr(x):
    return Fraction(x)


def wrap360_fr(d):
    return (d + 180) % 360 - 180


def dstep_fr(th):
    t = [fr(v) for v in th]
    d = [t[i + 1] - t[i] for i in range(len(t) - 1)] + [t[0] - t[-1]]
    return [wrap360_fr(x) for x in d]


def e_of_point(c, p, exact=False):
    """1D density of a point: list of float/Fraction with None for NaN; plus |.| scale per bin"""
    if c["kind"] == "1d":
        if exact:
            return [None if math.isnan(x) else fr(x) for x in p], [0 if math.isnan(x) else abs(fr(x)) for x in p]
        return [None if math.isnan(x) else x for x in p], [0.0 if math.isnan(x) else abs(x) for x in p]
    ds = dstep_fr(c["th"])
    if not exact:
        ds = [float(x) for x in ds]
    e = []
    sc = []
    for row in p:
        if exact:
            terms = [fr(x) * d for x, d in zip(row, ds) if not math.isnan(x)]
            e.append(sum(terms, Fraction(0)))
            sc.append(sum((abs(t) for t in terms), Fraction(0)))
        else:
            terms = [x * d for x, d in zip(row, ds) if not math.isnan(x)]
            e.append(math.fsum(terms))
            sc.append(math.fsum(abs(t) for t in terms))
    return e, sc


def in_band(lo, hi, x):
    return lo <= x < hi


def moment_ref(f, e, lo, hi, n, exact):
    idx = [i for i, x in enumerate(f) if in_band(lo, hi, x)]
    zero = Fraction(0) if exact else 0.0
    if exact:
        g = [(fr(f[i]), (zero if e[i] is None else e[i] * fr(f[i]) ** n)) for i in idx]
    else:
        g = [(f[i], (zero if e[i] is None else e[i] * f[i] ** n)) for i in idx]
    tot = zero
    half = Fraction(1, 2) if exact else 0.5
    for (x0, y0), (x1, y1) in zip(g, g[1:]):
        tot += (x1 - x0) * half * (y1 + y0)
    return tot, len(idx)


# ------------------------------------------------------------------------------------------
# evaluation of a list of cases
# ------------------------------------------------------------------------------------------
def isbad(x):
    return math.isnan(x) or math.isinf(x)


def evaluate(ctx, cases, exact_upto):
    impl = ctx.impl("C01.py", {"cases": [payload_case(c) for c in cases]})["results"]
    lines = []
    for c in cases:
        lines += model_lines(c)
    mod = ctx.model(lines)
    mp = 0
    results = []
    for ci, c in enumerate(cases):
        im = impl[ci]
        npts = len(c["E"])
        mrows = [parse_model(c, mod[mp + i]) for i in range(npts)]
        mp += npts
        results.append((im, mrows))
        base = {"op": "moments", "kind": c["kind"], "layout": c["layout"], "shape": c["shape"],
                "frequency": c["f"], "direction": c["th"], "variance_density_per_point": c["E"], "tags": c["tags"]}
        ctx.tally("kind:" + c["kind"]); ctx.tally("layout:" + c["layout"]); ctx.tally("grid:" + c["tags"]["grid"])
        ctx.tally("nf<=3" if len(c["f"]) <= 3 else ("nf<=16" if len(c["f"]) <= 16 else "nf>16"))
        if c["f"][0] == 0.0:
            ctx.tally("grid-starts-at-0")
        if isinstance(im, dict) and "error" in im:
            ctx.oracle_fail("moment functions raised %s: %s" % (im["error"], im.get("msg")), base, key=None)
            continue
        # expected leading shape
        lead = [] if c["layout"] == "scalar" else ([npts] if c["layout"] in ("time", "flat") else list(c["shape"]))
        if c["kind"] == "2d":
            ds_i = [C.unfx(v) for v in im["dstep"]]
            ds_m = mrows[0]["dstep"]
            ds_x = [float(v) for v in dstep_fr(c["th"])]
            if len(ds_i) != len(ds_m) or any(not C.close(a, b, 1e-12, 1e-12) for a, b in zip(ds_i, ds_m)):
                ctx.disagree("direction_step differs from the wrapped difference: impl %r model %r" % (ds_i, ds_m),
                             dict(base, impl=ds_i, model=ds_m), is_property_failure=True)
            if any(not C.close(a, b, 1e-12, 1e-12) for a, b in zip(ds_i, ds_x)):
                ctx.oracle_fail("direction_step is not the wrapped difference of the direction grid: %r vs %r" % (ds_i, ds_x),
                                dict(base, impl=ds_i, expected=ds_x))
        for pi in range(npts):
            p = c["E"][pi]
            e_fl, e_sc = e_of_point(c, p)
            dk = c["tags"]["dens"][pi]
            ctx.tally("density:" + dk)
            rep0 = dict(base, point=pi, variance_density=p)
            if c["kind"] == "2d":
                nf = len(c["f"])
                e_i = [C.unfx(v) for v in im["e"][pi * nf:(pi + 1) * nf]]
                e_m = mrows[pi]["e"]
                for k in range(nf):
                    if not C.close(e_i[k], e_m[k], RT, 1e-300, e_sc[k]) or not C.close(e_i[k], e_fl[k], RT, 1e-300, e_sc[k]):
                        ctx.disagree("2D e(f) at bin %d is not sum_j fillna0(E_ij)*dtheta_j: impl %r model %r exact %r"
                                     % (k, e_i[k], e_m[k], e_fl[k]), dict(rep0, bin=k, impl=e_i[k], model=e_m[k]),
                                     is_property_failure=True)
                        break
            for bi, (lo, hi) in enumerate(c["bands"]):
                b = im["bands"][bi]
                bk = c["tags"]["bands"][bi]
                mb = mrows[pi]["bands"][bi]
                nin = sum(1 for x in c["f"] if in_band(lo, hi, x))
                rep = dict(rep0, fmin=lo, fmax=hi, band_kind=bk, points_in_band=nin)
                ctx.tally("band:" + bk)
                ctx.tally("in-band points: %s" % ("0" if nin == 0 else ("1" if nin == 1 else ">=2")))
                if b.get("shape") != lead:
                    ctx.oracle_fail("result has shape %r, leading dimensions are %r" % (b.get("shape"), lead), rep)
                # scales
                S = []
                for n in POWERS:
                    idx = [i for i, x in enumerate(c["f"]) if in_band(lo, hi, x)]
                    g = [(c["f"][i], e_sc[i] * c["f"][i] ** n) for i in idx]
                    S.append(sum(abs(x1 - x0) * 0.5 * (y1 + y0) for (x0, y0), (x1, y1) in zip(g, g[1:])))
                nontriv = nin >= 2 and mb[0] != 0.0
                ctx.count([c["f"], lo, hi, [None if (isinstance(v, float) and math.isnan(v)) else v for v in
                                            (p if c["kind"] == "1d" else sum(p, []))], c["th"]], nontriv)
                bad = False
                for nm_ in ("m0", "m1", "m2", "hm0", "tm01", "tm02"):
                    if isinstance(b.get(nm_), list) and pi >= len(b[nm_]):
                        ctx.oracle_fail("%s(%r, %r) returns %d values for a batch of more spectra: there is no value at the "
                                        "position of spectrum %d (results are read by position)" % (nm_, lo, hi, len(b[nm_]), pi),
                                        dict(rep, call=nm_))
                        bad = True
                        break
                if bad:
                    continue
                for n in POWERS:
                    vi = C.unfx(b["fm"][n][pi])
                    if not C.close(vi, mb[n], RT, 1e-300, S[n]):
                        ctx.disagree("frequency_moment(%d, %r, %r) = %r, trapezoid of e*f^%d over the band = %r"
                                     % (n, lo, hi, vi, n, mb[n]), dict(rep, power=n, impl=vi, model=mb[n]),
                                     is_property_failure=True)
                        bad = True
                        break
                if bad:
                    continue
                for nm, n in (("m0", 0), ("m1", 1), ("m2", 2)):
                    vi = C.unfx(b[nm][pi])
                    if not C.close(vi, mb[n], RT, 1e-300, S[n]):
                        ctx.disagree("%s(%r, %r) = %r but the order-%d moment is %r" % (nm, lo, hi, vi, n, mb[n]),
                                     dict(rep, call=nm, impl=vi, model=mb[n]), is_property_failure=True)
                        bad = True
                if bad:
                    continue
                m0v, m1v, m2v = mb[0], mb[1], mb[2]
                hm, t1, t2 = mb[5], mb[6], mb[7]
                hi_ = C.unfx(b["hm0"][pi]); t1i = C.unfx(b["tm01"][pi]); t2i = C.unfx(b["tm02"][pi])
                # hm0 through its square
                if S[0] > 0 and abs(m0v) <= 1e-7 * S[0] and m0v != 0.0:
                    ctx.tally("skipped: m0 cancels")
                elif math.isnan(hm):
                    if not isbad(hi_):
                        ctx.disagree("hm0 = %r for negative m0 = %r" % (hi_, m0v), dict(rep, call="hm0", impl=hi_), is_property_failure=True)
                elif isbad(hi_) or hi_ < 0 or not C.close((hi_ / 4.0) ** 2, m0v, 4 * RT, 1e-300, S[0]):
                    ctx.disagree("hm0(%r, %r) = %r, 4*sqrt(m0) = %r" % (lo, hi, hi_, hm), dict(rep, call="hm0", impl=hi_, model=hm),
                                 is_property_failure=True)
                # tm01 = m0/m1
                if S[1] == 0.0:
                    if not (isbad(t1i) and math.isnan(t1)):
                        ctx.disagree("tm01 = %r with m1 = 0 (model %r)" % (t1i, t1), dict(rep, call="tm01", impl=t1i), is_property_failure=True)
                elif abs(m1v) < 1e-6 * S[1]:
                    ctx.tally("skipped: m1 cancels")
                else:
                    tol = 4 * RT * (S[0] / abs(m1v) + abs(m0v) / abs(m1v) * (S[1] / abs(m1v))) + 1e-300
                    if isbad(t1i) or math.isnan(t1) or abs(t1i - t1) > tol:
                        ctx.disagree("tm01(%r, %r) = %r, m0/m1 = %r" % (lo, hi, t1i, t1), dict(rep, call="tm01", impl=t1i, model=t1),
                                     is_property_failure=True)
                # tm02 = sqrt(m0/m2), through its square
                if S[2] == 0.0:
                    if not (isbad(t2i) and math.isnan(t2)):
                        ctx.disagree("tm02 = %r with m2 = 0 (model %r)" % (t2i, t2), dict(rep, call="tm02", impl=t2i), is_property_failure=True)
                elif abs(m2v) < 1e-6 * S[2] or (S[0] > 0 and abs(m0v) <= 1e-7 * S[0] and m0v != 0.0):
                    ctx.tally("skipped: m2 or m0 cancels")
                elif math.isnan(t2):
                    if not isbad(t2i):
                        ctx.disagree("tm02 = %r for negative m0/m2" % t2i, dict(rep, call="tm02", impl=t2i), is_property_failure=True)
                else:
                    tol = 4 * RT * (S[0] / abs(m2v) + abs(m0v) / abs(m2v) * (S[2] / abs(m2v))) + 1e-300
                    if isbad(t2i) or t2i < 0 or abs(t2i * t2i - m0v / m2v) > tol:
                        ctx.disagree("tm02(%r, %r) = %r, sqrt(m0/m2) = %r" % (lo, hi, t2i, t2), dict(rep, call="tm02", impl=t2i, model=t2),
                                     is_property_failure=True)
                # ---------------- oracles on the implementation alone
                # (1) order and bounds for non-negative spectra
                nonneg = all((x is None) or x >= 0 for x in e_fl) and all(d >= 0 for d in (mrows[0].get("dstep") or [0]))
                vm0, vm1, vm2 = C.unfx(b["m0"][pi]), C.unfx(b["m1"][pi]), C.unfx(b["m2"][pi])
                inb = [x for x in c["f"] if in_band(lo, hi, x)]
                if nonneg and vm1 > 1e-200 and vm2 > 1e-200 and vm0 > 1e-200 and not isbad(t1i) and not isbad(t2i):
                    ctx.tally("order-law checked")
                    if t2i > t1i * (1 + 1e-9):
                        ctx.oracle_fail("Tm02 = %r > Tm01 = %r for a non-negative spectrum" % (t2i, t1i), dict(rep, tm01=t1i, tm02=t2i))
                    if inb and inb[0] > 0:
                        if t1i > (1 / inb[0]) * (1 + 1e-9) or t2i < (1 / inb[-1]) * (1 - 1e-9):
                            ctx.oracle_fail("periods outside [1/f_last, 1/f_first] = [%r, %r]: Tm02 %r Tm01 %r"
                                            % (1 / inb[-1], 1 / inb[0], t2i, t1i), dict(rep, tm01=t1i, tm02=t2i))
                if nin <= 1:
                    for n in POWERS:
                        if C.unfx(b["fm"][n][pi]) != 0.0:
                            ctx.oracle_fail("band with %d grid point(s) has moment %r" % (nin, C.unfx(b["fm"][n][pi])), dict(rep, power=n))
                            break
                # (2) default-argument entry points and aliases
                if bi == 0:
                    for nm, ref in (("d_m0", "m0"), ("d_m1", "m1"), ("d_m2", "m2"), ("d_hm0", "hm0"), ("d_tm01", "tm01"),
                                    ("d_tm02", "tm02"), ("significant_waveheight", "hm0"), ("mean_period", "tm01"),
                                    ("zero_crossing_period", "tm02")):
                        a = C.unfx(b[nm][pi]); r = C.unfx(b[ref][pi])
                        if not C.close(a, r, 1e-13, 0.0):
                            ctx.oracle_fail("%s = %r differs from %s(0, inf) = %r" % (nm, a, ref, r), dict(rep, call=nm))
                # (3) exact rational trapezoid of the implementation's own data
                if ci < exact_upto:
                    e_ex, _ = e_of_point(c, p, exact=True)
                    for n in POWERS:
                        ex, _ = moment_ref(c["f"], e_ex, lo, hi, n, True)
                        vi = C.unfx(b["fm"][n][pi])
                        if isbad(vi) or abs(Fraction(vi) - ex) > Fraction(RT) * Fraction(S[n]) + Fraction(1, 10 ** 300):
                            ctx.oracle_fail("frequency_moment(%d, %r, %r) = %r, exact trapezoid of its own data = %r"
                                            % (n, lo, hi, vi, float(ex)), dict(rep, power=n, impl=vi, exact=float(ex)))
                            break
                    ctx.tally("exact-rational oracle")
        if ci < 3:
            ctx.sample({"case": {"kind": c["kind"], "layout": c["layout"], "shape": c["shape"], "nf": len(c["f"]),
                                 "band": c["bands"][1] if len(c["bands"]) > 1 else c["bands"][0]},
                        "impl_m0_m1_m2": [im["bands"][min(1, len(c["bands"]) - 1)][k][0] for k in ("m0", "m1", "m2")],
                        "model_m0_m1_m2": [C.fx(v) for v in mrows[0]["bands"][min(1, len(c["bands"]) - 1)][:3]]})
    return results


# ------------------------------------------------------------------------------------------
# law oracles: scaling, sums, single point of a batch
# ------------------------------------------------------------------------------------------
def map_density(E, fn):
    if isinstance(E, list):
        return [map_density(v, fn) for v in E]
    return fn(E)


def zip_density(A, B, fn):
    if isinstance(A, list):
        return [zip_density(a, b, fn) for a, b in zip(A, B)]
    return fn(A, B)


def laws(ctx, rng, ncases):
    base = []
    while len(base) < ncases:
        c = gen_case(rng)
        if any(k in ("allnan",) for k in c["tags"]["dens"]):
            continue
        base.append(c)
    allc = []
    meta = []
    for c in base:
        cs = rng.choice([0.25, 0.5, 2.0, 4.0, 3.0, 0.0, 16.0])
        sc = dict(c, E=map_density(c["E"], lambda x: x * cs))
        other_vals = map_density(c["E"], lambda x: x if math.isnan(x) else C.dyadic(rng, 0.0, 4.0, 10))  # same NaN mask
        oc = dict(c, E=other_vals)
        su = dict(c, E=zip_density(c["E"], other_vals, lambda a, b: a + b))
        pi = rng.randrange(len(c["E"]))
        single = dict(c, layout="scalar", shape=[], E=[c["E"][pi]],
                      tags=dict(c["tags"], dens=[c["tags"]["dens"][pi]]))
        allc += [c, sc, oc, su, single]
        meta.append((cs, pi))
    impl = ctx.impl("C01.py", {"cases": [payload_case(c) for c in allc]})["results"]
    for q, c in enumerate(base):
        cs, pi = meta[q]
        r0, r1, r2, r3, r4 = impl[5 * q:5 * q + 5]
        rep = {"op": "moment-laws", "kind": c["kind"], "layout": c["layout"], "shape": c["shape"], "frequency": c["f"],
               "direction": c["th"], "variance_density_per_point": c["E"], "scale_factor": cs,
               "second_spectrum_per_point": allc[5 * q + 2]["E"], "single_point": pi}
        if any(isinstance(r, dict) and "error" in r for r in (r0, r1, r2, r3, r4)):
            ctx.oracle_fail("moment functions raised: %r" % [r for r in (r0, r1, r2, r3, r4) if "error" in r][:1], rep)
            continue
        npts = len(c["E"])
        for pj in range(npts):
            _, e_sc = e_of_point(c, c["E"][pj])
            _, o_sc = e_of_point(c, allc[5 * q + 2]["E"][pj])
            for bi, (lo, hi) in enumerate(c["bands"]):
                ctx.count(["law", c["f"], lo, hi, q, pj], True)
                repb = dict(rep, point=pj, fmin=lo, fmax=hi)
                idx = [i for i, x in enumerate(c["f"]) if in_band(lo, hi, x)]
                ok = True
                for n in POWERS:
                    g = [(c["f"][i], (e_sc[i] + o_sc[i]) * c["f"][i] ** n) for i in idx]
                    S = sum(abs(x1 - x0) * 0.5 * (y1 + y0) for (x0, y0), (x1, y1) in zip(g, g[1:]))
                    a = C.unfx(r0["bands"][bi]["fm"][n][pj]); s = C.unfx(r1["bands"][bi]["fm"][n][pj])
                    o = C.unfx(r2["bands"][bi]["fm"][n][pj]); t = C.unfx(r3["bands"][bi]["fm"][n][pj])
                    if not C.close(s, cs * a, RT, 1e-300, cs * S):
                        ctx.oracle_fail("moment %d of %r * e is %r, %r * moment = %r" % (n, cs, s, cs, cs * a), dict(repb, power=n))
                        ok = False
                        break
                    if not C.close(t, a + o, RT, 1e-300, S):
                        ctx.oracle_fail("moment %d of e + e' is %r, sum of moments = %r" % (n, t, a + o), dict(repb, power=n))
                        ok = False
                        break
                if not ok:
                    continue
                ctx.tally("law: scale+sum")
                h0 = C.unfx(r0["bands"][bi]["hm0"][pj]); h1 = C.unfx(r1["bands"][bi]["hm0"][pj])
                if not isbad(h0) and not isbad(h1) and cs > 0:
                    if not C.close(h1 * h1, cs * h0 * h0, 1e-8, 1e-300):
                        ctx.oracle_fail("hm0 of %r * e is %r, sqrt(%r) * hm0 = %r" % (cs, h1, cs, math.sqrt(cs) * h0), repb)
                if cs > 0:
                    for nm in ("tm01", "tm02"):
                        a = C.unfx(r0["bands"][bi][nm][pj]); s = C.unfx(r1["bands"][bi][nm][pj])
                        m0v = C.unfx(r0["bands"][bi]["m0"][pj])
                        if isbad(a) or isbad(s) or m0v <= 0:
                            continue
                        if c["tags"]["dens"][pj] == "signed":
                            continue
                        if not C.close(a, s, 1e-8, 0.0):
                            ctx.oracle_fail("%s changes under scaling by %r: %r -> %r" % (nm, cs, a, s), dict(repb, call=nm))
                # batch point == the same spectrum alone
                if pj == pi:
                    for nm in ("m0", "m1", "m2", "hm0", "tm01", "tm02"):
                        a = C.unfx(r0["bands"][bi][nm][pj]); s = C.unfx(r4["bands"][bi][nm][0])
                        if not C.close(a, s, 1e-12, 1e-300):
                            ctx.oracle_fail("%s of point %d inside the batch is %r, of the same spectrum alone %r" % (nm, pj, a, s),
                                            dict(repb, call=nm))
                    ctx.tally("law: batch point = single spectrum")


CORPUS = [
    # band limits exactly on grid points, NaN bin inside, grid from f = 0
    {"kind": "1d", "layout": "time", "shape": [2], "f": [0.0, 0.125, 0.25, 0.5, 1.0], "th": None,
     "E": [[1.0, 2.0, NAN, 4.0, 1.0], [0.0, 0.0, 3.0, NAN, 2.0]],
     "bands": [(0.0, INF), (0.125, INF), (0.125, 0.5), (0.25, 0.25), (0.5, 0.5 + 1 / 1024), (2.0, INF), (0.0, 1.0)],
     "tags": {"grid": "corpus", "dens": ["corpus", "corpus"], "bands": ["default", "upper_open", "grid", "single_eq", "single",
                                                                   "empty_above", "last_excluded"], "dirs": None}},
    {"kind": "2d", "layout": "timelat", "shape": [1, 2], "f": [0.0, 0.25, 0.5, 0.75], "th": [350.0, 80.0, 170.0, 260.0],
     "E": [[[1.0, 2.0, NAN, 0.5], [NAN, NAN, NAN, NAN], [0.0, 1.0, 1.0, 0.0], [2.0, 0.0, 0.0, 1.0]],
           [[0.0, 0.0, 0.0, 0.0], [1.0, 1.0, 1.0, 1.0], [NAN, 3.0, 0.0, 0.0], [0.5, 0.5, 0.5, 0.5]]],
     "bands": [(0.0, INF), (0.25, 0.75), (0.25, 0.5), (0.3, 0.4)],
     "tags": {"grid": "corpus", "dens": ["corpus", "corpus"], "bands": ["default", "grid", "single", "empty_between"], "dirs": "corpus"}},
]


def run(ctx):
    _run_main(ctx)
    import reuse_common
    reuse_common.reuse_check(ctx, "C01")


def _run_main(ctx):
    rng = ctx.rng
    n = ctx.n(230, 4000)
    cases = list(CORPUS)
    while len(cases) < n:
        cases.append(gen_case(rng))
    chunk = 600
    exact = ctx.n(120, 1200)
    done = 0
    for s in range(0, len(cases), chunk):
        part = cases[s:s + chunk]
        evaluate(ctx, part, max(0, min(len(part), exact - done)))
        done += len(part)
    laws(ctx, rng, ctx.n(40, 400))


def replay(ctx, obj):
    inp = obj.get("input", obj)
    c = {"kind": inp["kind"], "layout": inp["layout"], "shape": inp["shape"], "f": inp["frequency"], "th": inp.get("direction"),
         "E": inp["variance_density_per_point"],
         "bands": [(inp.get("fmin", 0.0), inp.get("fmax", INF))],
         "tags": {"grid": "replay", "dens": ["replay"] * len(inp["variance_density_per_point"]), "bands": ["replay"], "dirs": None}}
    if c["bands"][0] != (0.0, INF):
        c["bands"].insert(0, (0.0, INF)); c["tags"]["bands"].insert(0, "default")
    evaluate(ctx, [c], 1)


READY = True
LEVEL_TEXT = ("Theorems (Coq, every grid size, band, NaN mask, power n:nat, batch size): the n-th moment of the model equals "
              "the trapezoid segment sum over the grid points with fmin <= f < fmax of fill0(e)*f^n (NaN counted as zero after "
              "the product); bands with at most one point give 0; moments are linear (scale, sum under the same NaN mask); "
              "Hm0 scales with sqrt(c), Tm01/Tm02 are scale invariant; for non-negative spectra on strictly increasing grids "
              "m1^2 <= m0 m2 (weighted Cauchy-Schwarz on the endpoint-weight form of the trapezoid), hence Tm02 <= Tm01 and "
              "1/f_last <= Tm02 <= Tm01 <= 1/f_first of the band; batch points are independent; for 2D spectra e(f) is the "
              "skip-NaN directional sum with the wrapped step, never NaN, linear and sign preserving. The model is tied to "
              "spectrum.py by running the extracted model and the real classes on generated 1D/2D spectra in the layouts "
              "(), (time), (time,latitude), flattened, with every kind of band.")
LEVEL_NOTE = ("Trusted: Coq kernel, extraction (R as binary64), harness tolerances (1e-9 relative to the sum of |segment terms|). "
              "Validated only by execution: xarray's dimension handling and numpy's summation order; floating-point rounding is "
              "not modelled; +-inf densities are outside the model.")
TECHNIQUE = "Coq proof (induction over the point list, weighted Cauchy-Schwarz) + extracted-model correspondence + exact-rational and algebraic-law oracles"
DESIGN_REF = "DESIGN.md section 5 C01"
