"""C14 periodic coordinates and angular data interpolate across the wrap.

Correspondence: extracted Coq model (Model/Interp.v periodic branches + Model/Periodic.v) vs
enclosing_points_1d / interpolation_weights_1d with a period, wrapped_difference,
NdInterpolator._periodic_data_interpolator (through interpolate_dataset_along_axis,
interpolate_track_data_arrray / interpolate_at_points / interpolate_dataset, the spectrum wrappers),
interpolate_periodic (direct, interpolate_dataframe_time, Track.interpolate).
Oracles: +k*period shift equality, no target out of range, cyclic bracketing with weights in [0,1],
short-arc membership, output range, exact-rational evaluation along the periodic axis.
"""
import math
from fractions import Fraction

import numpy as np

import common as C
from props import C13 as B

NAN = float("nan")
isnan = B.isnan

RULE = ("one evaluation = one call of the real code (grid, period, data layout, NaN mask, target vector) compared element-wise "
        "with the extracted model and checked against the shift / short-arc / range oracles; non-trivial = at least one finite "
        "output whose bracketing bin or data pair crosses the wrap; distinct by full input hash")
ASSUMPTIONS = [
    "periodic grids are strictly monotone, span less than one period and all cyclic gaps are below half a period (the code computes the bin width with wrapped_difference, range [-P/2, P/2))",
    "NdInterpolator accumulates the unit vectors in complex64: angles are compared at 3e-5 deg / |mean vector| (pairs with |mean vector| < 0.05 are counted and skipped)",
    "an output equal to the upper end of the range (360.0) is accepted: numpy's float modulo of a tiny negative number rounds to the period",
    "periodic data of NdInterpolator are returned in [0, period) whatever discontinuity was declared (the code passes discont=period); the property only asks for an equivalent angle",
    "floating point rounding is not modelled (dyadic inputs make both sides take the same branches)",
    "the element-wise translator harness/translate_pointwise.py (Python AST -> Coq text over R, fail-closed) is trusted to map each accepted construct to its meaning: tools/math.py wrapped_difference -> Generated/MathSrc.v",
]

PERIODS = [360.0, 360.0, 360.0, 400.0, 24.0, 2.0]


def angdiff(a, b, P):
    d = abs(a - b) % P
    return min(d, P - d)


def wrap(d, P, disc=None):
    """exact (Fraction) wrapped difference into [disc - P, disc)"""
    P = Fraction(P)
    disc = P / 2 if disc is None else Fraction(disc)
    v = (Fraction(d) + P - disc) % P - P + disc
    return v


def gen_pgrid(rng, P, nmin=4, nmax=72):
    """strictly ascending grid over one period with arbitrary start; all cyclic gaps < P/2"""
    n = rng.choice([4, 4, 5, 6, 8, 12, 16, 24, 36, 72, rng.randint(nmin, nmax)])
    den = 8 if P >= 24 else 256
    unit = P / n
    start = B.lat(rng, -P, 2 * P, den)
    uniform = rng.random() < 0.4
    g = []
    for i in range(n):
        off = 0.0 if uniform else B.lat(rng, -0.3 * unit, 0.3 * unit, den)
        g.append(round((start + i * unit + off) * den) / den)
    g = sorted(set(g))
    if len(g) < 4:
        return gen_pgrid(rng, P, nmin, nmax)
    gaps = [g[i + 1] - g[i] for i in range(len(g) - 1)] + [g[0] + P - g[-1]]
    if min(gaps) <= 0 or max(gaps) >= P / 2 or g[-1] - g[0] >= P:
        return gen_pgrid(rng, P, nmin, nmax)
    return g


def gen_ptargets(rng, asc, P, m):
    den = 64 if P >= 24 else 1024
    out = []
    lim = 1000.0 if P >= 24 else 8.0 * P
    for _ in range(m):
        r = rng.random()
        k = rng.randint(-3, 3)
        if r < 0.2:
            out.append(("node+kP", rng.choice(asc) + k * P))
        elif r < 0.35:
            # the bin that spans the wrap
            w = asc[0] + P - asc[-1]
            out.append(("seam-bin", asc[-1] + B.lat(rng, 0, w, den) + k * P))
        elif r < 0.45:
            i = rng.randrange(len(asc) - 1)
            out.append(("mid+kP", (asc[i] + asc[i + 1]) / 2 + k * P))
        else:
            out.append(("anywhere", B.lat(rng, -lim, lim, den)))
    return out


def cyclic_bracket(grid, x, P):
    """exact: indices (i0, i1) of the cyclic neighbours in storage order and t in [0,1).
    Ascending grid: grid[i0] <= x < grid[i1] (mod P).  Descending grid: grid[i0] >= x > grid[i1] (mod P),
    i.e. the same statement in the mirrored coordinate grid[0] - x, so that i1 = i0 + 1 (mod n) in both cases."""
    n = len(grid)
    if grid[0] > grid[-1]:
        g = [Fraction(grid[0]) - Fraction(v) for v in grid]
        X = Fraction(grid[0]) - Fraction(x)
    else:
        g = [Fraction(v) for v in grid]
        X = Fraction(x)
    X = (X - g[0]) % Fraction(P) + g[0]
    k = max(j for j in range(n) if g[j] <= X)
    nxt = (k + 1) % n
    width = (g[nxt] - g[k]) % Fraction(P)
    t = (X - g[k]) / width
    return k, nxt, t


# ---------------------------------------------------------------------------------------------
# unit level: wrapped_difference, enclosing + weights with a period
# ---------------------------------------------------------------------------------------------


def stream_wdiff(ctx, ncases):
    rng = ctx.rng
    cases, lines, meta = [], [], []
    for _ in range(ncases):
        P = rng.choice(PERIODS)
        disc = rng.choice([None, P, P / 2, 0.0, P / 4])
        ds = [B.lat(rng, -5 * P, 5 * P, 64) for _ in range(rng.randint(1, 12))] + \
             [rng.choice([0.0, P / 2, -P / 2, P, -P, 3 * P / 2])]
        cases.append({"op": "wdiff", "delta": [C.fx(v) for v in ds], "period": C.fx(P),
                      "disc": None if disc is None else C.fx(disc)})
        lines.append("wdiff %s %s %s" % (C.fx(P), C.fx(P / 2 if disc is None else disc), C.flist(ds)))
        meta.append((P, disc, ds))
    impl = ctx.impl("C14.py", {"cases": cases})["results"]
    mod = ctx.model(lines)
    for (P, disc, ds), im, mo in zip(meta, impl, mod):
        rep = {"op": "wrapped_difference", "delta": ds, "period": P, "discont": disc}
        ctx.count(["wdiff", P, disc, ds])
        ctx.tally("wrapped_difference")
        if isinstance(im, dict):
            ctx.oracle_fail("wrapped_difference raised %s" % im, rep)
            continue
        dd = P / 2 if disc is None else disc
        for j, d in enumerate(ds):
            g = C.unfx(im[j])
            e = float(wrap(d, P, dd))
            if abs(g - e) > 1e-9:
                ctx.oracle_fail("wrapped_difference(%r, period=%r, discont=%r) = %r, expected %r in [%r, %r)" %
                                (d, P, disc, g, e, dd - P, dd), dict(rep, index=j))
                break
            if not C.close(g, C.unfx(mo[j]), 1e-12, 1e-12):
                ctx.disagree("wrapped_difference differs from the model", dict(rep, index=j))
                break


def stream_penc(ctx, ncases):
    def period_fn(rng, asc):
        return period_fn.P

    def grid_fn(rng):
        period_fn.P = rng.choice(PERIODS)
        return gen_pgrid(rng, period_fn.P)

    def target_fn(rng, asc, P):
        tg = gen_ptargets(rng, asc, P, rng.randint(2, 10))
        # add a shifted copy of every target: x and x + k*P must agree
        k = rng.choice([-2, -1, 1, 2, 3])
        return tg + [("shifted", v + k * P) for _, v in tg]

    rng = ctx.rng
    cases, lines, meta = [], [], []
    for _ in range(ncases):
        asc = grid_fn(rng)
        P = period_fn.P
        desc = rng.random() < 0.3
        xp = list(reversed(asc)) if desc else asc
        tg = target_fn(rng, asc, P)
        xs = [v for _, v in tg]
        cases.append({"op": "enc", "xp": [C.fx(v) for v in xp], "x": [C.fx(v) for v in xs], "period": C.fx(P)})
        lines.append("enc %s %s %s" % (B.opt_tok(P), C.flist(xp), C.flist(xs)))
        meta.append((xp, xs, tg, P, desc))
    impl = ctx.impl("C14.py", {"cases": cases})["results"]
    mod = ctx.model(lines)
    for (xp, xs, tg, P, desc), im, mo in zip(meta, impl, mod):
        n = len(xp)
        rep = {"op": "enclosing_points_1d + interpolation_weights_1d", "xp": xp, "x": xs, "period": P}
        ctx.count(["penc", xp, xs, P], True)
        ctx.tally("penc:%s" % ("descending" if desc else "ascending"))
        ctx.tally("penc:period=%g" % P)
        ctx.tally("penc:nodes<=8" if n <= 8 else ("penc:nodes<=24" if n <= 24 else "penc:nodes>24"))
        for k, _ in tg:
            ctx.tally("penc-target:%s" % k)
        if isinstance(im, dict) and "error" in im:
            ctx.oracle_fail("enclosing/weights raised %s" % im, rep)
            continue
        half = len(xs) // 2
        for j, x in enumerate(xs):
            mi0, mi1 = int(mo[4 * j]), int(mo[4 * j + 1])
            mfl, mfn = C.unfx(mo[4 * j + 2]), C.unfx(mo[4 * j + 3])
            i0, i1 = im["idx"][0][j], im["idx"][1][j]
            wl0, wl1 = C.unfx(im["wl"][0][j]), C.unfx(im["wl"][1][j])
            wn0, wn1 = C.unfx(im["wn"][0][j]), C.unfx(im["wn"][1][j])
            rep_j = dict(rep, target_index=j, target=x, impl_indices=[i0, i1], model_indices=[mi0, mi1],
                         impl_weights_linear=[wl0, wl1], model_frac_linear=mfl)
            e0, e1, t = cyclic_bracket(xp, x, P)
            obad = None
            if (i0, i1) != (e0, e1):
                obad = "indices %s are not the cyclic neighbours %s of the target" % ((i0, i1), (e0, e1))
            elif isnan(wl0) or isnan(wl1):
                obad = "a periodic target is out of range (weights %r, %r)" % (wl0, wl1)
            elif abs(wl1 - float(t)) > 1e-9 or abs(wl0 + wl1 - 1) > 1e-12 or not (-1e-12 <= wl1 <= 1 + 1e-12):
                obad = "weights (%r, %r) are not (1-t, t), t=%r" % (wl0, wl1, float(t))
            elif j >= half:
                q = j - half
                if (im["idx"][0][q], im["idx"][1][q]) != (i0, i1) or abs(C.unfx(im["wl"][1][q]) - wl1) > 1e-9:
                    obad = "targets %r and %r differ by a multiple of the period but give different indices/weights" % (xs[q], x)
            if obad:
                ctx.oracle_fail("periodic enclosing_points_1d/interpolation_weights_1d: " + obad, rep_j)
                break
            if (i0, i1) != (mi0, mi1) or not C.close(wl1, mfl, 1e-12, 1e-13) or \
                    (t != Fraction(1, 2) and not C.close(wn1, mfn, 0, 0)):
                ctx.disagree("periodic enclosing/weights differ from the model: impl %s %r/%r, model %s %r/%r" %
                             ((i0, i1), wl1, wn1, (mi0, mi1), mfl, mfn), rep_j)
                break


# ---------------------------------------------------------------------------------------------
# angular data helpers
# ---------------------------------------------------------------------------------------------


def gen_angles(rng, shape, axis, P, conv):
    """angular data along `axis`: random walks that cross the seam in both senses, jumps up to
    just below / above half a period"""
    n = shape[axis]
    den = 8 if P >= 24 else 256
    other = [s for i, s in enumerate(shape) if i != axis]
    npass = int(np.prod(other)) if other else 1
    rows = np.empty((n, npass))
    for j in range(npass):
        a = B.lat(rng, 0, P, den)
        kind = rng.choice(["walk", "walk", "bigjumps", "seam"])
        for i in range(n):
            rows[i, j] = a
            if kind == "walk":
                a += B.lat(rng, -P / 6, P / 6, den)
            elif kind == "seam":
                a = rng.choice([0.0, P]) + B.lat(rng, -P / 20, P / 20, den)
            else:
                a += rng.choice([-1, 1]) * rng.choice([P / 2 - 1.0 / den, P / 2 - 4.0 / den, P / 2 + 1.0 / den,
                                                       P / 2 + 4.0 / den, P / 3, P / 4])
    if conv == "0..P":
        rows = rows % P
    elif conv == "-P/2..P/2":
        rows = (rows + P / 2) % P - P / 2
    arr_ = np.moveaxis(rows.reshape([n] + other), 0, axis)
    return np.ascontiguousarray(arr_)


def check_angular(ctx, rep, what, got, want, vec, P, lo, hi, skip_counter="angles:ill-conditioned-skipped", tol_scale=3e-5):
    """angles vs model (mod P, condition aware), range [lo, hi]"""
    g = np.asarray(got, dtype="float64").reshape(-1)
    w = np.asarray(want, dtype="float64").reshape(-1)
    if g.shape != w.shape:
        ctx.oracle_fail("%s: output has %d values, expected %d" % (what, g.size, w.size), rep)
        return False
    for q in range(g.size):
        if isnan(g[q]) or isnan(w[q]):
            if not (isnan(g[q]) and isnan(w[q])):
                ctx.disagree("%s: element %d is %r, model %r" % (what, q, float(g[q]), float(w[q])), dict(rep, index=q))
                return False
            continue
        if not (lo - 1e-9 <= g[q] <= hi + 1e-9):
            ctx.oracle_fail("%s: angle %r outside [%r, %r)" % (what, float(g[q]), lo, hi), dict(rep, index=q))
            return False
        mag = 1.0
        if vec is not None:
            re, im = vec[q]
            mag = math.hypot(re, im)
            if mag < 0.05:
                ctx.tally(skip_counter)
                continue
        tol = tol_scale * (P / 360.0) / mag + 1e-9 if vec is not None else 1e-9 * P
        if angdiff(g[q], w[q], P) > tol:
            ctx.disagree("%s: element %d is %r, model %r (|mean vector| %.3g)" % (what, q, float(g[q]), float(w[q]), mag),
                         dict(rep, index=q))
            return False
    return True


def short_arc_ok(a, b, r, P, tol):
    """r lies on the shorter arc from a to b (closed), modulo P; None when a, b are (nearly) antipodal"""
    d = float(wrap(Fraction(b) - Fraction(a), P))
    if abs(abs(d) - P / 2) < 1e-6 * P:
        return None
    e = float(wrap(Fraction(r) - Fraction(a), P))
    if d >= 0:
        return -tol <= e <= d + tol
    return d - tol <= e <= tol


# ---------------------------------------------------------------------------------------------
# datasets: periodic coordinate and / or periodic data along one axis
# ---------------------------------------------------------------------------------------------


def gen_paxis_case(rng):
    mode = rng.choice(["pcoord", "pcoord", "pdata", "pdata", "both"])
    explicit = rng.random() < 0.35
    P = rng.choice(PERIODS) if explicit else 360.0
    Pd = rng.choice(PERIODS) if explicit else 360.0
    nearest = rng.random() < 0.2
    coords = {}
    if mode in ("pcoord", "both"):
        cname = rng.choice(["theta", "heading_axis"]) if explicit else rng.choice(["direction", "longitude"])
        asc = gen_pgrid(rng, P)
        kind = "float"
        tg = gen_ptargets(rng, asc, P, rng.randint(2, 8))
        k = rng.choice([-2, -1, 1, 2])
        tg = tg + [("shifted", v + k * P) for _, v in tg]
        if rng.random() < 0.2:
            # exactly the grid's own nodes, as many targets as nodes, in another order or convention (a [0,360)
            # grid requested as [-180,180), rolled, reversed, one period up): the result is labelled with the
            # REQUESTED values in the REQUESTED order
            how = rng.choice(["rolled", "reversed", "plus-period", "other-convention"])
            nodes = list(asc)
            if how == "rolled":
                r_ = rng.randrange(1, len(nodes)) if len(nodes) > 1 else 0
                nodes = nodes[r_:] + nodes[:r_]
            elif how == "reversed":
                nodes = nodes[::-1]
            elif how == "plus-period":
                nodes = [v + P for v in nodes]
            else:
                nodes = [v - P if v >= asc[0] + P / 2 else v for v in nodes]
            tg = [("node-set:" + how, v) for v in nodes]
        period = P
    else:
        kind = "time" if rng.random() < 0.5 else "float"
        cname = "time" if kind == "time" else rng.choice(["x", "frequency"])
        asc = B.gen_grid(rng, rng.choice([2, 3, 5, 8, 13, 20]), kind)
        tg = B.gen_targets(rng, asc, rng.randint(1, 10), kind)
        period = None
    desc = rng.random() < 0.25
    grid = list(reversed(asc)) if desc else asc
    n = len(grid)
    coords[cname] = B.coord_desc(kind, grid)
    dims_pool = [d for d in ["a", "b", "station", "frequency_band"] if d != cname]
    vars_, arrays, info = [], {}, {}
    nvars = rng.randint(1, 2)
    for q in range(nvars):
        periodic_var = mode in ("pdata", "both") and (q == 0 or rng.random() < 0.5)
        if periodic_var:
            nm = (rng.choice(["heading", "course"]) if explicit else
                  rng.choice(["mean_direction", "peakDirection", "wave_direction_sea", "longitude"])) + ("" if q == 0 else "_%d" % q)
            if nm.startswith("longitude") and nm != "longitude":
                nm = "mean_direction_%d" % q
            if nm == "longitude" and cname == "longitude":
                nm = "mean_direction"
        else:
            nm = rng.choice(["u", "hs", "variance_density"]) + ("" if q == 0 else "_%d" % q)
        if nm in arrays:
            continue
        rank = rng.choice([1, 2, 2, 3])
        axis = rng.randrange(rank)
        others = rng.sample(dims_pool, rank - 1)
        dims = others[:axis] + [cname] + others[axis:]
        shape = []
        for d in dims:
            if d == cname:
                shape.append(n)
            else:
                if d not in coords:
                    coords[d] = B.coord_desc("float", [float(i) for i in range(rng.randint(1, 3))])
                shape.append(len(coords[d]["values"]))
        if periodic_var:
            conv = rng.choice(["0..P", "-P/2..P/2", "any"])
            a = gen_angles(rng, shape, axis, Pd, conv)
        else:
            conv = None
            _, a = B.gen_values(rng, shape, axis, grid)
        nk = B.add_nans(rng, a, axis, rng.choice(["none", "none", "none", "isolated", "node"]))
        vars_.append({"name": nm, "dims": dims, "shape": shape, "data": B.hexlist(a)})
        arrays[nm] = a
        info[nm] = {"axis": axis, "rank": rank, "periodic": periodic_var, "nan": nk, "dims": dims, "conv": conv}
    case = {"op": "ds_axis", "coord": cname, "nearest": nearest,
            "targets": B.tgt(kind, [v for _, v in tg]), "ds": {"coords": coords, "vars": vars_}}
    if explicit:
        case["periodic_coordinates"] = {cname: P} if period is not None else {}
        case["periodic_data"] = {}
        for nm, inf in info.items():
            if inf["periodic"]:
                inf["disc"] = rng.choice([Pd, Pd, Pd / 2])
                case["periodic_data"][nm] = [Pd, inf["disc"]]
    meta = {"grid": grid, "asc": asc, "desc": desc, "kind": kind, "cname": cname, "nearest": nearest, "tg": tg,
            "arrays": arrays, "info": info, "period": period, "Pd": Pd, "mode": mode, "explicit": explicit}
    return case, meta


def spec_axis_periodic(grid, rows, x, P, nearest):
    """exact evaluation along a periodic coordinate (non periodic data)"""
    i0, i1, t = cyclic_bracket(grid, x, P)
    valid = [all(not isnan(v) for v in r) for r in rows]

    def val(i):
        return [Fraction(v) for v in rows[i]] if valid[i] else None
    if t == 0:
        return [val(i0)]
    if nearest:
        if t < Fraction(1, 2):
            return [val(i0)]
        if t > Fraction(1, 2):
            return [val(i1)]
        return [val(i0), val(i1)]
    if valid[i0] and valid[i1]:
        return [[(1 - t) * Fraction(u) + t * Fraction(v) for u, v in zip(rows[i0], rows[i1])]]
    if valid[i0]:
        return [val(i0) if (1 - t) > Fraction(1, 2) else None]
    if valid[i1]:
        return [val(i1) if t > Fraction(1, 2) else None]
    return [None]


def stream_paxis(ctx, ncases):
    rng = ctx.rng
    cases, metas = [], []
    for _ in range(ncases):
        c, m = gen_paxis_case(rng)
        cases.append(c)
        metas.append(m)
    impl = ctx.impl("C14.py", {"cases": cases})["results"]
    jobs, where = [], []
    for ci, m in enumerate(metas):
        xs = [v for _, v in m["tg"]]
        for nm, inf in m["info"].items():
            jobs.append(B.AxisJob(m["grid"], B.rows_of(m["arrays"][nm], inf["axis"]), xs, m["nearest"],
                                  period=m["period"], dper=(m["Pd"] if inf["periodic"] else None)))
            where.append((ci, nm))
    res = B.run_axis_jobs(ctx, jobs, periodic_driver=True)
    model = dict(zip(where, res))
    for ci, (c, m, im) in enumerate(zip(cases, metas, impl)):
        xs = [v for _, v in m["tg"]]
        rep = {"op": "interpolate_dataset_along_axis", "case": c}
        ctx.tally("paxis:%s" % m["mode"])
        ctx.tally("paxis:%s" % ("explicit-periods" if m["explicit"] else "default-names"))
        ctx.tally("paxis:%s" % ("descending" if m["desc"] else "ascending"))
        ctx.tally("paxis-mode:%s" % ("nearest" if m["nearest"] else "linear"))
        for k, _ in m["tg"]:
            ctx.tally("paxis-target:%s" % k)
        if isinstance(im, dict) and "error" in im:
            ctx.oracle_fail("interpolate_dataset_along_axis raised %s: %s" % (im["error"], im["msg"]), rep)
            ctx.count(["paxis", c], False)
            continue
        nontriv = False
        for nm, inf in m["info"].items():
            a = m["arrays"][nm]
            got = B.unhexarr(im["vars"][nm])
            rows_m, vec_m = model[(ci, nm)]
            shape = list(a.shape)
            want = B.from_rows(rows_m, shape, inf["axis"])
            if list(got.shape) != list(want.shape):
                ctx.oracle_fail("variable %s has shape %s, expected %s" % (nm, list(got.shape), list(want.shape)), dict(rep, variable=nm))
                break
            rows = B.rows_of(a, inf["axis"])
            grows = B.rows_of(got, inf["axis"])
            if np.isfinite(got).any():
                nontriv = True
            if m["nearest"]:
                if m["period"] is not None:
                    ties = set(j for j, x in enumerate(xs) if cyclic_bracket(m["grid"], x, m["period"])[2] == Fraction(1, 2))
                else:
                    ties = B.tie_indices(m["grid"], xs)
                if ties:
                    ctx.tally("nearest-mode ties excluded from the model comparison", len(ties))
                    got = B.blank_rows(got, inf["axis"], ties)
                    want = B.blank_rows(want, inf["axis"], ties)
            ctx.tally("paxis-var:%s" % ("angular" if inf["periodic"] else "plain"))
            ctx.tally("paxis-nan:%s" % inf["nan"])
            bad = False
            # ---- oracles
            if m["period"] is not None and not str(m["tg"][0][0]).startswith("node-set"):
                half = len(xs) // 2
                for j in range(half, len(xs)):
                    u, v = grows[j - half], grows[j]
                    for p_, (uu, vv) in enumerate(zip(u, v)):
                        same = (isnan(uu) and isnan(vv)) or (not isnan(uu) and not isnan(vv) and
                                                             (angdiff(uu, vv, m["Pd"]) if inf["periodic"] else abs(uu - vv)) <= 1e-6 * max(1.0, abs(uu)))
                        if not same:
                            ctx.oracle_fail("variable %s: targets %r and %r differ by a multiple of the period %r but give %r and %r" %
                                            (nm, xs[j - half], xs[j], m["period"], uu, vv), dict(rep, variable=nm, target_index=j))
                            bad = True
                            break
                    if bad:
                        break
                if bad:
                    break
                if not np.isnan(a).any() and np.isnan(got).any():
                    ctx.oracle_fail("variable %s: finite data on a periodic axis gave a missing value (a periodic target is never out of range)" % nm,
                                    dict(rep, variable=nm))
                    break
                if not inf["periodic"]:
                    for j, x in enumerate(xs):
                        answers = spec_axis_periodic(m["grid"], rows, x, m["period"], m["nearest"])
                        if not B.matches(grows[j], answers, 1e-10):
                            e = answers[0]
                            ctx.oracle_fail("variable %s at %s=%r is %s; cyclic piecewise-linear value %s" %
                                            (nm, m["cname"], x, grows[j][:5], "missing" if e is None else [float(v) for v in e][:5]),
                                            dict(rep, variable=nm, target_index=j))
                            bad = True
                            break
                    if bad:
                        break
            if inf["periodic"]:
                # short arc between the two neighbours, for finite neighbours (linear mode)
                Pd = m["Pd"]
                for j, x in enumerate(xs):
                    if m["nearest"]:
                        break
                    if m["period"] is not None:
                        i0, i1, t = cyclic_bracket(m["grid"], x, m["period"])
                    else:
                        sa = B.spec_axis(m["grid"], [[0.0]] * len(m["grid"]), x, False)
                        if sa == [None]:
                            continue
                        order = list(range(len(m["grid"])))
                        if m["desc"]:
                            order.reverse()
                        g = [m["grid"][i] for i in order]
                        if x >= g[-1]:
                            continue
                        k = max(q for q in range(len(g) - 1) if g[q] <= x)
                        i0, i1 = order[k], order[k + 1]
                        t = (Fraction(x) - Fraction(g[k])) / (Fraction(g[k + 1]) - Fraction(g[k]))
                    # NaN rule for angular data: exactly one neighbour present
                    v0 = all(not isnan(v) for v in rows[i0])
                    v1 = all(not isnan(v) for v in rows[i1])
                    if v0 != v1:
                        wvalid = (1 - t) if v0 else t
                        src_row = rows[i0] if v0 else rows[i1]
                        for p_ in range(len(rows[0])):
                            r = grows[j][p_]
                            if wvalid > Fraction(1, 2):
                                okk = (not isnan(r)) and angdiff(r, src_row[p_], Pd) <= 1e-4 * Pd / 360.0
                            else:
                                okk = isnan(r)
                            if not okk:
                                ctx.oracle_fail("variable %s at %s=%r: one neighbour is missing and the present one has weight %r: result %r, expected %s" %
                                                (nm, m["cname"], x, float(wvalid), r, src_row[p_] if wvalid > Fraction(1, 2) else "missing"),
                                                dict(rep, variable=nm, target_index=j))
                                bad = True
                                break
                        if bad:
                            break
                        continue
                    for p_ in range(len(rows[0])):
                        a0, a1, r = rows[i0][p_], rows[i1][p_], grows[j][p_]
                        if isnan(a0) or isnan(a1) or isnan(r):
                            continue
                        ok = short_arc_ok(a0, a1, r, Pd, 1e-4 * Pd / 360.0)
                        if ok is None:
                            ctx.tally("paxis:antipodal-pair-skipped")
                            continue
                        if not ok:
                            ctx.oracle_fail("variable %s at %s=%r: %r is not on the shorter arc between its neighbours %r and %r (period %r)" %
                                            (nm, m["cname"], x, r, a0, a1, Pd), dict(rep, variable=nm, target_index=j))
                            bad = True
                            break
                    if bad:
                        break
                if bad:
                    break
                # vec rows -> same layout as got
                vr = np.array([[list(v) for v in r] for r in vec_m], dtype="float64")     # [target][passive][2]
                pshape = [s for i, s in enumerate(shape) if i != inf["axis"]]
                vr = np.moveaxis(vr.reshape([len(xs)] + pshape + [2]), 0, inf["axis"]).reshape(-1, 2)
                # [0, P) is promised for direction variables (declared discontinuity = period); other angular
                # data (longitude: discontinuity 180) only have to come back as an equivalent angle
                is_dir = ("direction" in nm.lower()) if not m["explicit"] else (inf.get("disc") == Pd)
                lo, hi = (0.0, Pd) if is_dir else (-float("inf"), float("inf"))
                if not check_angular(ctx, dict(rep, variable=nm), "interpolate_dataset_along_axis %s" % nm, got, want,
                                     [tuple(v) for v in vr], Pd, lo, hi):
                    break
            else:
                badi = B.close_arrays(got, want, B.data_scale(a))
                if badi is not None:
                    ctx.disagree("interpolate_dataset_along_axis: variable %s differs from the model at flat index %s" % (nm, badi),
                                 dict(rep, variable=nm, impl=B.hexlist(got), model=B.hexlist(want)))
                    break
        ctx.count(["paxis", c], nontriv)
        if ci < 2:
            ctx.sample({"interpolate_dataset_along_axis": {"coord": m["cname"], "period": m["period"], "grid": m["grid"][:6],
                                                            "targets": xs[:6], "variables": m["info"]}})


# ---------------------------------------------------------------------------------------------
# interpolate_dataset_grid with angular variables: two coordinates in turn, periodic_data by
# default names and given explicitly
# ---------------------------------------------------------------------------------------------


def stream_pgrid(ctx, ncases):
    rng = ctx.rng
    cases, metas = [], []
    for _ in range(ncases):
        explicit = rng.random() < 0.5
        Pd = rng.choice([360.0, 360.0, 400.0, 24.0]) if explicit else 360.0
        second_periodic = rng.random() < 0.4
        c1 = "time" if rng.random() < 0.5 else "x"
        k1 = "time" if c1 == "time" else "float"
        g1 = B.gen_grid(rng, rng.choice([2, 3, 5]), k1)
        if second_periodic:
            c2, k2, per2 = "direction", "float", 360.0
            g2 = gen_pgrid(rng, 360.0, 4, 12)
            t2 = [v for _, v in gen_ptargets(rng, g2, 360.0, rng.randint(1, 4))]
        else:
            c2, k2, per2 = "y", "float", None
            g2 = B.gen_grid(rng, rng.choice([2, 3, 4]))
            t2 = [B.lat(rng, g2[0], g2[-1], 64) for _ in range(rng.randint(1, 4))]
        # targets inside the non periodic grids (an outside target would blank whole nodes of the next axis)
        if k1 == "time":
            t1 = [float(rng.randint(int(g1[0]), int(g1[-1]))) for _ in range(rng.randint(1, 4))]
        else:
            t1 = [B.lat(rng, g1[0], g1[-1], 64) for _ in range(rng.randint(1, 4))]
        dims = [c1, c2]
        if rng.random() < 0.5:
            dims.reverse()
        shape = [len(g1) if d == c1 else len(g2) for d in dims]
        den = 8 if Pd >= 24 else 256
        base = rng.choice([0.0, Pd, Pd / 2, B.lat(rng, 0, Pd, den)])
        spread = Pd / 12
        ang = np.array([base + B.lat(rng, -spread, spread, den) for _ in range(shape[0] * shape[1])]).reshape(shape)
        conv = rng.choice(["0..P", "-P/2..P/2"])
        ang = ang % Pd if conv == "0..P" else (ang + Pd / 2) % Pd - Pd / 2
        plain = np.array([C.dyadic(rng, -8, 8, 10) for _ in range(shape[0] * shape[1])]).reshape(shape)
        aname = rng.choice(["heading", "course"]) if explicit else rng.choice(["mean_direction", "peakDirection"])
        coords = {c1: B.coord_desc(k1, g1), c2: B.coord_desc(k2, g2)}
        order = [[c1, B.tgt(k1, t1)], [c2, B.tgt(k2, t2)]]
        if rng.random() < 0.5:
            order.reverse()
        case = {"op": "ds_grid", "nearest": False, "targets": order,
                "ds": {"coords": coords, "vars": [{"name": aname, "dims": dims, "shape": shape, "data": B.hexlist(ang)},
                                                  {"name": "u", "dims": dims, "shape": shape, "data": B.hexlist(plain)}]}}
        if explicit:
            case["periodic_data"] = {aname: [Pd, Pd]}
        cases.append(case)
        metas.append({"dims": dims, "order": [o[0] for o in order], "grids": {c1: g1, c2: g2}, "tvals": {c1: t1, c2: t2},
                      "periods": {c1: None, c2: per2}, "ang": ang, "plain": plain, "aname": aname, "Pd": Pd,
                      "base": base, "spread": spread, "explicit": explicit})
    impl = ctx.impl("C14.py", {"cases": cases})["results"]
    state = [{"a": m["ang"], "u": m["plain"], "minmag": 1.0} for m in metas]
    for step in range(2):
        jobs, where = [], []
        for ci, m in enumerate(metas):
            d = m["order"][step]
            ax = m["dims"].index(d)
            for key, dper in (("a", m["Pd"]), ("u", None)):
                arr_ = state[ci][key]
                jobs.append(B.AxisJob(m["grids"][d], B.rows_of(arr_, ax), m["tvals"][d], False,
                                      period=m["periods"][d], dper=dper))
                where.append((ci, key, ax))
        res = B.run_axis_jobs(ctx, jobs, periodic_driver=True)
        for (ci, key, ax), (rows, vec) in zip(where, res):
            arr_ = state[ci][key]
            state[ci][key] = B.from_rows(rows, list(arr_.shape), ax)
            if vec is not None:
                for r in vec:
                    for (re, im_) in r:
                        if not isnan(re):
                            state[ci]["minmag"] = min(state[ci]["minmag"], math.hypot(re, im_))
    for c, m, im, st in zip(cases, metas, impl, state):
        rep = {"op": "interpolate_dataset_grid", "case": c}
        ctx.tally("pgrid:%s" % ("explicit periodic_data" if m["explicit"] else "default names"))
        ctx.tally("pgrid:second-axis-%s" % ("periodic" if m["periods"][m["dims"][0]] or m["periods"][m["dims"][1]] else "plain"))
        if isinstance(im, dict) and "error" in im:
            ctx.oracle_fail("interpolate_dataset_grid raised %s: %s" % (im["error"], im["msg"]), rep)
            ctx.count(["pgrid", c], False)
            continue
        ctx.count(["pgrid", c], True)
        got = B.unhexarr(im["vars"][m["aname"]])
        gu = B.unhexarr(im["vars"]["u"])
        Pd = m["Pd"]
        # oracle: all data lie within +-spread of `base`, so must every interpolated angle (short arcs only)
        bad = False
        for v in got.reshape(-1):
            if isnan(v) or angdiff(v, m["base"], Pd) > m["spread"] + 1e-3 * Pd / 360.0 or not (-1e-9 <= v <= Pd + 1e-9):
                ctx.oracle_fail("interpolate_dataset_grid: angular variable %s = %r although all its data lie within %r of %r (period %r): "
                                "not interpolated along the shorter arc / not in [0, period)" % (m["aname"], float(v), m["spread"], m["base"], Pd),
                                dict(rep, variable=m["aname"]))
                bad = True
                break
        if bad:
            continue
        badi = B.close_arrays(gu, st["u"], B.data_scale(m["plain"]))
        if badi is not None:
            ctx.disagree("interpolate_dataset_grid: variable u differs from the model at flat index %s" % badi, dict(rep, variable="u"))
            continue
        if list(got.shape) != list(st["a"].shape):
            ctx.oracle_fail("interpolate_dataset_grid: %s has shape %s" % (m["aname"], list(got.shape)), rep)
            continue
        tol = 1e-4 * (Pd / 360.0) / max(st["minmag"], 0.05)
        for q, (g, w) in enumerate(zip(got.reshape(-1), st["a"].reshape(-1))):
            if isnan(g) != isnan(w) or (not isnan(g) and angdiff(g, w, Pd) > tol):
                ctx.disagree("interpolate_dataset_grid: angular variable %s differs from the model at flat index %d: %r vs %r" %
                             (m["aname"], q, float(g), float(w)), dict(rep, variable=m["aname"]))
                break


# ---------------------------------------------------------------------------------------------
# spectra: 2D spectra along direction; longitude variable of spectra interpolated in time
# ---------------------------------------------------------------------------------------------


def stream_pspectra(ctx, ncases):
    rng = ctx.rng
    cases, metas = [], []
    for _ in range(ncases):
        kind = rng.choice(["2d", "2d", "1d"])
        s, arrays, ek = B.gen_spectrum(rng, kind)
        # longitudes that cross the antimeridian
        nt = len(arrays["time"])
        lon0 = rng.choice([179.0, -179.5, 0.5, 359.0, 120.0])
        lons = [((lon0 + i * rng.choice([0.5, -0.5, 0.75]) + 180) % 360) - 180 for i in range(nt)]
        s["longitude"] = [C.fx(v) for v in lons]
        c = dict(s)
        c["op"] = "spec"
        c["call"] = "interpolate"
        ext = rng.choice([None, 0.0, -1.0])
        if ext is not None:
            c["ext"] = C.fx(ext)
        if kind == "2d" and rng.random() < 0.7:
            dirs = arrays["direction"]
            tg = gen_ptargets(rng, dirs, 360.0, rng.randint(2, 8))
            k = rng.choice([-2, -1, 1, 2])
            td = [v for _, v in tg] + [v + k * 360.0 for _, v in tg]
            c["targets"] = [["direction", B.tgt("float", td)]]
            metas.append(("direction", kind, arrays, 0.0 if ext is None else ext, td, lons))
        else:
            tt = [v for _, v in B.gen_targets(rng, arrays["time"], rng.randint(1, 6), "time")]
            c["targets"] = [["time", B.tgt("time", tt)]]
            metas.append(("time", kind, arrays, 0.0 if ext is None else ext, tt, lons))
        cases.append(c)
    impl = ctx.impl("C14.py", {"cases": cases})["results"]
    jobs = []
    for (axn, kind, arrays, ext, xs, lons) in metas:
        if axn == "direction":
            jobs.append(B.AxisJob(arrays["direction"], B.rows_of(arrays["e"], 2), xs, False, period=360.0))
        else:
            jobs.append(B.AxisJob(arrays["time"], [[v] for v in lons], xs, False, period=None, dper=360.0))
    res = B.run_axis_jobs(ctx, jobs, periodic_driver=True)
    for c, (axn, kind, arrays, ext, xs, lons), im, (rows_m, vec_m) in zip(cases, metas, impl, res):
        rep = {"op": "%s spectrum .interpolate({%s})" % (kind, axn), "case": c}
        ctx.tally("pspectrum:%s:%s" % (kind, axn))
        if isinstance(im, dict) and "error" in im:
            ctx.oracle_fail("%s raised %s: %s" % (rep["op"], im["error"], im["msg"]), rep)
            ctx.count(["pspec", c], False)
            continue
        ctx.count(["pspec", c], True)
        if axn == "direction":
            a = arrays["e"]
            got = B.unhexarr(im["vars"]["variance_density"])
            want = B.from_rows(rows_m, list(a.shape), 2)
            want = np.where(np.isnan(want), ext, want)
            if list(got.shape) != list(want.shape):
                ctx.oracle_fail("%s: shape %s, expected %s" % (rep["op"], list(got.shape), list(want.shape)), rep)
                continue
            grows = B.rows_of(got, 2)
            half = len(xs) // 2
            bad = False
            for j in range(half, len(xs)):
                if any(abs(u - v) > 1e-9 * max(1.0, abs(u)) for u, v in zip(grows[j - half], grows[j])):
                    ctx.oracle_fail("%s: directions %r and %r differ by a multiple of 360 but give different spectra" %
                                    (rep["op"], xs[j - half], xs[j]), dict(rep, target_index=j))
                    bad = True
                    break
            if bad:
                continue
            rows = B.rows_of(a, 2)
            for j, x in enumerate(xs):
                answers = spec_axis_periodic(arrays["direction"], rows, x, 360.0, False)
                answers = [[Fraction(ext)] * len(rows[0]) if q is None else q for q in answers]
                if not B.matches(grows[j], answers, 1e-10):
                    ctx.oracle_fail("%s: energy at direction %r is %s, cyclic piecewise-linear value %s" %
                                    (rep["op"], x, grows[j][:4], [float(v) for v in answers[0]][:4]), dict(rep, target_index=j))
                    bad = True
                    break
            if bad:
                continue
            badi = B.close_arrays(got, want, B.data_scale(a))
            if badi is not None:
                ctx.disagree("%s: variance_density differs from the model at flat index %s" % (rep["op"], badi),
                             dict(rep, impl=B.hexlist(got), model=B.hexlist(want)))
        else:
            got = [C.unfx(v) for v in im["vars"]["longitude"]["data"]]
            want = [r[0] for r in rows_m]
            vec = [r[0] for r in vec_m]
            # short arc
            asc = arrays["time"]
            bad = False
            for j, x in enumerate(xs):
                if x < asc[0] or x >= asc[-1] or isnan(got[j]):
                    continue
                k = max(q for q in range(len(asc) - 1) if asc[q] <= x)
                ok = short_arc_ok(lons[k], lons[k + 1], got[j], 360.0, 1e-4)
                if ok is False:
                    ctx.oracle_fail("%s: longitude at time %r is %r, not on the shorter arc between %r and %r" %
                                    (rep["op"], x, got[j], lons[k], lons[k + 1]), dict(rep, target_index=j))
                    bad = True
                    break
            if bad:
                continue
            check_angular(ctx, rep, "%s longitude" % rep["op"], got, want, vec, 360.0, -float("inf"), float("inf"))


# ---------------------------------------------------------------------------------------------
# gridded data at track points (time, latitude, longitude), across the antimeridian
# ---------------------------------------------------------------------------------------------


def gen_lon_grid(rng):
    n = rng.choice([4, 6, 8, 12, 24, 36])
    step = 360.0 / n
    start = rng.choice([-180.0, 0.0, -177.5, 2.5, -180.0])
    return [start + i * step for i in range(n)]


def stream_ppoints(ctx, ncases):
    rng = ctx.rng
    cases, metas, lines = [], [], []
    for _ in range(ncases):
        with_time = rng.random() < 0.7
        names = (["time"] if with_time else []) + ["latitude", "longitude"]
        if rng.random() < 0.3:
            rng.shuffle(names)
        grids, kinds, coords, shape, periods = [], [], {}, [], []
        for d in names:
            if d == "time":
                g = B.gen_grid(rng, rng.choice([2, 3, 4]), "time")
                kinds.append("time")
                periods.append(None)
            elif d == "latitude":
                n = rng.choice([3, 4, 5])
                lat0 = rng.choice([-60.0, -30.0, 0.0])
                dlat = rng.choice([10.0, 15.0])
                g = [lat0 + i * dlat for i in range(n)]
                if rng.random() < 0.3:
                    g = list(reversed(g))          # many products store latitude north to south
                kinds.append("float")
                periods.append(None)
            else:
                g = gen_lon_grid(rng)
                kinds.append("float")
                periods.append(360.0)
            grids.append(g)
            coords[d] = B.coord_desc(kinds[-1], g)
            shape.append(len(g))
        angular = rng.random() < 0.5
        if angular:
            a = gen_angles(rng, shape, names.index("longitude"), 360.0, rng.choice(["0..P", "-P/2..P/2"]))
            vname = rng.choice(["wave_direction", "meanDirection"])
        else:
            _, a = B.gen_values(rng, shape, 0, grids[0], rng.choice(["random", "smallint"]))
            vname = "u"
        nank = rng.choice(["none", "none", "isolated"])
        if nank != "none":
            B.add_nans(rng, a, 0, nank)
        npts = rng.randint(2, 8)
        # a track that crosses the antimeridian: longitudes around +-180, any number of periods away
        lon0 = rng.choice([178.0, -178.0, 179.5, 359.0, 0.5, rng.uniform(-180, 180)])
        dlon = rng.choice([0.5, -0.5, 0.75, -1.25])
        kshift = rng.choice([0, 0, 0, 1, -1, 2])
        cols = []
        for d, g, k in zip(names, grids, kinds):
            if d == "time":
                cols.append([v for _, v in B.gen_targets(rng, g, npts, "time")])
            elif d == "latitude":
                lo, hi = min(g), max(g)
                cols.append([B.lat(rng, lo, hi, 16) if rng.random() < 0.9 else hi + 1.0 for _ in range(npts)])
            else:
                cols.append([round((lon0 + i * dlon) * 64) / 64 + 360.0 * kshift for i in range(npts)])
        via = rng.choice(["dataarray", "dataset", "dataset"])
        indep = "time" if with_time else rng.choice(["latitude", "longitude"])
        # (period, discontinuity): the direction convention (360, 360) and the longitude convention (360, 180)
        pdict = {vname: [360.0, rng.choice([360.0, 180.0])]} if angular else None
        case = {"op": "points", "via": via, "variable": vname, "independent": indep,
                "points": [[names[i], B.tgt(kinds[i], cols[i])] for i in range(len(names))],
                "periodic_coordinates": {"longitude": 360.0}, "periodic_data": pdict,
                "ds": {"coords": coords, "vars": [{"name": vname, "dims": names, "shape": shape, "data": B.hexlist(a)}]}}
        cases.append(case)
        metas.append((names, grids, periods, a, cols, angular, vname, nank, via))
        lines.append("nd F %s %d %s %s %d %s" % (B.opt_tok(360.0 if angular else None), len(names),
                                                  " ".join("%s %s" % (B.opt_tok(p), C.flist(g)) for p, g in zip(periods, grids)),
                                                  B.olist(a.reshape(-1)), npts,
                                                  " ".join(C.flist([col[p] for col in cols]) for p in range(npts))))
        # the same track one period further east must give the same values
        case2 = dict(case)
        case2["points"] = [[names[i], B.tgt(kinds[i], [v + 360.0 for v in cols[i]] if names[i] == "longitude" else cols[i])]
                           for i in range(len(names))]
        cases.append(case2)
    impl = ctx.impl("C14.py", {"cases": cases})["results"]
    mod = ctx.model(lines)
    for q, ((names, grids, periods, a, cols, angular, vname, nank, via), mo) in enumerate(zip(metas, mod)):
        c, im, im2 = cases[2 * q], impl[2 * q], impl[2 * q + 1]
        opn = "interpolate_track_data_arrray" if via == "dataarray" else "interpolate_at_points"
        rep = {"op": opn, "case": c}
        ctx.tally("ppoints:%d-d" % len(names))
        ctx.tally("ppoints:%s" % ("angular" if angular else "plain"))
        ctx.tally("ppoints-nan:%s" % nank)
        for res_ in (im, im2):
            if isinstance(res_, dict) and "error" in res_:
                ctx.oracle_fail("%s raised %s: %s" % (opn, res_["error"], res_["msg"]), rep)
                break
        else:
            got = B.unhexarr(im["vars"][vname]).reshape(-1)
            got2 = B.unhexarr(im2["vars"][vname]).reshape(-1)
            npts = len(cols[0])
            ctx.count(["ppoints", c], bool(np.isfinite(got).any()))
            if len(got) != npts:
                ctx.oracle_fail("%s returned %d values for %d points" % (opn, len(got), npts), rep)
                continue
            bad = False
            for p in range(npts):
                u, v = float(got[p]), float(got2[p])
                same = (isnan(u) and isnan(v)) or (not isnan(u) and not isnan(v) and
                                                   (angdiff(u, v, 360.0) if angular else abs(u - v)) <= 1e-6 * max(1.0, abs(u)))
                if not same:
                    ctx.oracle_fail("%s: the same track shifted by 360 degrees of longitude gives %r instead of %r at point %d" %
                                    (opn, v, u, p), dict(rep, point_index=p))
                    bad = True
                    break
            if bad:
                continue
            # exact evaluator for plain data: reduce the longitude into the grid's period and use the extended grid
            if not angular:
                li = names.index("longitude")
                lg = grids[li]
                ext_grids = list(grids)
                ext_grids[li] = lg + [lg[0] + 360.0]
                ext = np.concatenate([a, np.take(a, [0], axis=li)], axis=li)
                for p in range(npts):
                    pt = [col[p] for col in cols]
                    pt[li] = float((Fraction(pt[li]) - Fraction(lg[0])) % 360 + Fraction(lg[0]))
                    e = B.spec_multilinear(ext_grids, ext, pt)
                    g = float(got[p])
                    if e is None:
                        okk = isnan(g)
                    elif e == "nan-corner":
                        okk = True
                    else:
                        okk = (not isnan(g)) and abs(g - float(e)) <= 1e-10 * max(1.0, B.data_scale(a))
                    if not okk:
                        ctx.oracle_fail("%s: point %s gives %r, exact multilinear value across the wrap %s" %
                                        (opn, [col[p] for col in cols], g, "missing" if e is None else float(e)), dict(rep, point_index=p))
                        bad = True
                        break
                if bad:
                    continue
                want = [C.unfx(t) for t in mo]
                badi = B.close_arrays(got, want, B.data_scale(a))
                if badi is not None:
                    ctx.disagree("%s differs from the model at point %s: impl %r model %r" % (opn, badi, float(got[badi]), want[badi]),
                                 dict(rep, impl=B.hexlist(got), model=[C.fx(v) for v in want]))
            else:
                vals = [C.unfx(t) for t in mo]
                want = vals[0::3]
                vec = list(zip(vals[1::3], vals[2::3]))
                # 2^N corners are accumulated in complex64: the tolerance grows with their number
                check_angular(ctx, rep, opn, got, want, vec, 360.0, 0.0, 360.0, tol_scale=1.5e-5 * 2 ** len(names))


# ---------------------------------------------------------------------------------------------
# interpolate_periodic: direct, data frames, tracks
# ---------------------------------------------------------------------------------------------


def gen_series(rng, n, P, conv):
    return [float(v) for v in gen_angles(rng, [n], 0, P, conv)]


def iper_line(xper, fper, fdisc, left, right, xp, fp, xs):
    return "iper %s %s %s %s %s %s %s %s" % (B.opt_tok(xper), B.opt_tok(fper), B.opt_tok(fdisc), C.fx(left), C.fx(right),
                                             C.flist(xp), B.olist(fp), C.flist(xs))


def check_iper(ctx, rep, what, xp, fp, xs, got, want, fper, fdisc, xper=None):
    """values vs model + the short-arc statement: result = f0 + t*wrap(f1-f0) modulo the period"""
    if len(got) != len(xs):
        ctx.oracle_fail("%s returned %d values for %d targets" % (what, len(got), len(xs)), rep)
        return False
    for j, x in enumerate(xs):
        g, w = got[j], want[j]
        # oracle (ascending xp, non periodic x): inside the series
        if xper is None and xp[0] <= x < xp[-1]:
            k = max(q for q in range(len(xp) - 1) if xp[q] <= x)
            f0, f1 = fp[k], fp[k + 1]
            t = (Fraction(x) - Fraction(xp[k])) / (Fraction(xp[k + 1]) - Fraction(xp[k]))
            if not (isnan(f0) or isnan(f1)):
                if fper is None:
                    e = Fraction(f0) + t * (Fraction(f1) - Fraction(f0))
                    okk = (not isnan(g)) and abs(g - float(e)) <= 1e-9 * max(1.0, abs(float(e)))
                    exp = float(e)
                else:
                    d = wrap(Fraction(f1) - Fraction(f0), fper)          # in [-P/2, P/2)
                    e = Fraction(f0) + t * d
                    disc = fper / 2 if fdisc is None else fdisc
                    exp = float(wrap(e, fper, disc))
                    # the range [disc - P, disc) is promised for direction data (and is the documented meaning of
                    # fp_discont in a direct call); longitudes only have to come back as an equivalent angle
                    in_range = disc - fper - 1e-9 <= g <= disc + 1e-9
                    okk = (not isnan(g)) and angdiff(g, exp, fper) <= 1e-9 * fper and (in_range or "longitude" in what.lower())
                if not okk:
                    ctx.oracle_fail("%s at %r: %r, expected f0 + t*wrap(f1-f0) = %r (f0=%r, f1=%r, t=%r, period %r)" %
                                    (what, x, g, exp, f0, f1, float(t), fper), dict(rep, target_index=j))
                    return False
        if isnan(g) or isnan(w):
            if not (isnan(g) and isnan(w)):
                ctx.disagree("%s at %r: %r, model %r" % (what, x, g, w), dict(rep, target_index=j))
                return False
            continue
        d = abs(g - w) if fper is None else min(angdiff(g, w, fper), abs(g - w))
        # a value may legitimately sit on either end of the range when it is within rounding of the seam
        if d > 1e-9 * max(1.0, abs(w), (fper or 0)):
            ctx.disagree("%s at %r: %r, model %r" % (what, x, g, w), dict(rep, target_index=j))
            return False
    return True


def stream_iper(ctx, ncases):
    rng = ctx.rng
    cases, lines, metas = [], [], []
    for _ in range(ncases):
        what = rng.choice(["direct", "direct", "dataframe", "dataframe", "track", "track"])
        n = rng.choice([2, 3, 4, 6, 10, 20])
        tgrid = B.gen_grid(rng, n, "time")
        tt = [v for _, v in B.gen_targets(rng, tgrid, rng.randint(1, 10), "time")]
        if what == "direct":
            P = rng.choice(PERIODS)
            fdisc = rng.choice([None, P, P / 2])
            xper = None
            if rng.random() < 0.25:
                xper = rng.choice([360.0, 24.0])
                xp = gen_pgrid(rng, xper)
                n = len(xp)
                xs = [v for _, v in gen_ptargets(rng, xp, xper, rng.randint(2, 8))]
            else:
                xp = B.gen_grid(rng, n)
                xs = [v for _, v in B.gen_targets(rng, xp, rng.randint(1, 10))]
            fp = gen_series(rng, n, P, rng.choice(["0..P", "-P/2..P/2", "any"]))
            if rng.random() < 0.2:
                fp[rng.randrange(n)] = NAN
            lr = rng.choice(["default", "values"])
            left, right = (NAN, NAN) if lr == "default" else (fp[0], fp[-1])
            c = {"op": "iper", "xp": [C.fx(v) for v in xp], "fp": [C.fx(v) for v in fp], "x": [C.fx(v) for v in xs],
                 "xper": None if xper is None else C.fx(xper), "fper": C.fx(P), "fdisc": None if fdisc is None else C.fx(fdisc)}
            if lr == "values":
                c["left"], c["right"] = C.fx(left), C.fx(right)
            cases.append(c)
            lines.append([iper_line(xper, P, fdisc, left, right, xp, fp, xs)])
            metas.append((what, [(xp, fp, xs, P, fdisc, xper, "interpolate_periodic")]))
        elif what == "dataframe":
            cols = []
            specs = []
            for nm in rng.sample(["meanDirection", "peakDirection", "longitude", "latitude", "significantWaveHeight",
                                  "wind_direction", "Longitude_raw"], rng.randint(2, 5)):
                low = nm.lower()
                if "direction" in low:
                    fper, fdisc = 360.0, 360.0
                    vals = gen_series(rng, n, 360.0, "0..P")
                elif "longitude" in low:
                    fper, fdisc = 360.0, 180.0
                    vals = gen_series(rng, n, 360.0, "-P/2..P/2")
                else:
                    fper, fdisc = None, None
                    vals = [C.dyadic(rng, -60, 60, 12) for _ in range(n)]
                if rng.random() < 0.15:
                    vals[rng.randrange(n)] = NAN
                cols.append([nm, [C.fx(v) for v in vals]])
                specs.append((tgrid, vals, tt, fper, fdisc, None, "interpolate_dataframe_time[%s]" % nm))
            cases.append({"op": "dataframe", "time": [int(v) for v in tgrid], "new_time": [int(v) for v in tt], "columns": cols})
            lines.append([iper_line(None, fper, fdisc, NAN, NAN, xp_, fp_, xs_) for (xp_, fp_, xs_, fper, fdisc, _, _) in specs])
            metas.append((what, specs))
        else:
            lats = [B.lat(rng, -60, 60, 16) for _ in range(n)]
            lons = gen_series(rng, n, 360.0, rng.choice(["-P/2..P/2", "-P/2..P/2", "0..P"]))
            cases.append({"op": "track", "time": [int(v) for v in tgrid], "new_time": [int(v) for v in tt],
                          "lat": [C.fx(v) for v in lats], "lon": [C.fx(v) for v in lons]})
            specs = [(tgrid, lats, tt, None, None, None, "Track.interpolate latitude"),
                     (tgrid, lons, tt, 360.0, None, None, "Track.interpolate longitude")]
            lines.append([iper_line(None, None, None, lats[0], lats[-1], tgrid, lats, tt),
                          iper_line(None, 360.0, None, lons[0], lons[-1], tgrid, lons, tt)])
            metas.append((what, specs))
    impl = ctx.impl("C14.py", {"cases": cases})["results"]
    flat = [l for ls in lines for l in ls]
    mod = ctx.model(flat)
    pos = 0
    for c, (what, specs), im, ls in zip(cases, metas, impl, lines):
        mres = mod[pos:pos + len(ls)]
        pos += len(ls)
        rep = {"op": what, "case": c}
        ctx.tally("iper:%s" % what)
        if isinstance(im, dict) and "error" in im:
            ctx.oracle_fail("%s raised %s: %s" % (what, im["error"], im["msg"]), rep)
            ctx.count(["iper", c], False)
            continue
        ctx.count(["iper", c], True)
        for q, ((xp, fp, xs, fper, fdisc, xper, label), toks) in enumerate(zip(specs, mres)):
            want = [C.unfx(t) for t in toks]
            if what == "direct":
                got = [C.unfx(v) for v in im]
            elif what == "dataframe":
                nm = c["columns"][q][0]
                if nm not in im["data"]:
                    ctx.oracle_fail("interpolate_dataframe_time dropped the numeric column %s" % nm, rep)
                    break
                got = [C.unfx(v) for v in im["data"][nm]]
            else:
                # Track drops points whose position is not finite; with finite input none is dropped
                if im["n"] != len(xs):
                    ctx.oracle_fail("Track.interpolate returned %d points for %d times" % (im["n"], len(xs)), rep)
                    break
                got = [C.unfx(v) for v in (im["lat"] if q == 0 else im["lon"])]
            if fper is not None:
                ctx.tally("iper:angular-series")
            if not check_iper(ctx, dict(rep, series=label), label, xp, fp, xs, got, want, fper, fdisc, xper):
                break
        if what == "dataframe":
            tback = [C.unfx(v) for v in im["time"]]
            if tback != [float(v) for v in c["new_time"]]:
                ctx.oracle_fail("interpolate_dataframe_time: time column %s is not the requested time %s" % (tback[:4], c["new_time"][:4]), rep)


# ---------------------------------------------------------------------------------------------
# interpolate_dataset(data_set, Track): gridded data along a drifter track
# ---------------------------------------------------------------------------------------------


def stream_ids(ctx, ncases):
    rng = ctx.rng
    cases, metas = [], []
    for _ in range(ncases):
        tg = B.gen_grid(rng, rng.choice([2, 3, 4]), "time")
        latg = [-30.0 + 15.0 * i for i in range(5)]
        long_ = gen_lon_grid(rng)
        shape = [len(tg), len(latg), len(long_)]
        _, u = B.gen_values(rng, shape, 0, tg, "random")
        wd_ = gen_angles(rng, shape, 2, 360.0, "0..P")
        # a track given exactly at the dataset times (Track.interpolate is then the identity at nodes)
        lon0 = rng.choice([178.5, -179.0, 359.25, 10.0])
        lats = [B.lat(rng, -25, 25, 16) for _ in tg]
        lons = [((lon0 + 0.75 * i + 180) % 360) - 180 for i in range(len(tg))]
        if rng.random() < 0.35:
            # a drifter track stored continuously (unwrapped) across the seam: longitudes below -180 or above 360 are
            # positions like any other
            if rng.random() < 0.5:
                lons = [-178.75 - 1.5 * i for i in range(len(tg))]
            else:
                lons = [358.5 + 1.25 * i for i in range(len(tg))]
        coords = {"time": B.coord_desc("time", tg), "latitude": B.coord_desc("float", latg),
                  "longitude": B.coord_desc("float", long_)}
        dims = ["time", "latitude", "longitude"]
        cases.append({"op": "ids", "time": [int(v) for v in tg], "lat": [C.fx(v) for v in lats], "lon": [C.fx(v) for v in lons],
                      "ds": {"coords": coords, "vars": [{"name": "meanDirection", "dims": dims, "shape": shape, "data": B.hexlist(wd_)},
                                                         {"name": "u", "dims": dims, "shape": shape, "data": B.hexlist(u)},
                                                         {"name": "wave_direction", "dims": dims, "shape": shape, "data": B.hexlist(wd_)}]}})
        if rng.random() < 0.5:
            # the caller designates one more angular variable: the name-based rule for *direction* variables
            # still applies to the others (each argument alone is fine; this is the combination)
            cases[-1]["ds"]["vars"].append({"name": "vessel_heading", "dims": dims, "shape": shape, "data": B.hexlist(wd_)})
            cases[-1]["periodic_data"] = {"vessel_heading": [360.0, 360.0]}
        metas.append((tg, latg, long_, u, wd_, lats, lons))
    impl = ctx.impl("C14.py", {"cases": cases})["results"]
    lines = []
    for (tg, latg, long_, u, wd_, lats, lons) in metas:
        pts = " ".join(C.flist([tg[p], lats[p], lons[p]]) for p in range(len(tg)))
        head = "3 N %s N %s S %s %s" % (C.flist(tg), C.flist(latg), C.fx(360.0), C.flist(long_))
        lines.append("nd F N %s %s %d %s" % (head, B.olist(u.reshape(-1)), len(tg), pts))
        lines.append("nd F S %s %s %s %d %s" % (C.fx(360.0), head, B.olist(wd_.reshape(-1)), len(tg), pts))
    mod = ctx.model(lines)
    for q, (c, (tg, latg, long_, u, wd_, lats, lons), im) in enumerate(zip(cases, metas, impl)):
        rep = {"op": "interpolate_dataset(data_set, Track)", "case": c}
        ctx.tally("interpolate_dataset:track")
        if isinstance(im, dict) and "error" in im:
            ctx.oracle_fail("interpolate_dataset raised %s: %s" % (im["error"], im["msg"]), rep)
            ctx.count(["ids", c], False)
            continue
        ctx.count(["ids", c], True)
        df = im.get("track")
        if df is None or "u" not in df or "wave_direction" not in df:
            ctx.oracle_fail("interpolate_dataset: result lacks the track / its variables (%s)" % list(im.keys()), rep)
            continue
        gu = [C.unfx(v) for v in df["u"]]
        gw = [C.unfx(v) for v in df["wave_direction"]]
        wu = [C.unfx(t) for t in mod[2 * q]]
        vals = [C.unfx(t) for t in mod[2 * q + 1]]
        ww, vec = vals[0::3], list(zip(vals[1::3], vals[2::3]))
        badi = B.close_arrays(gu, wu, B.data_scale(u))
        if badi is not None:
            ctx.disagree("interpolate_dataset: u differs from the model at point %s: %r vs %r" % (badi, gu[badi] if badi >= 0 else None, wu[badi] if badi >= 0 else None), rep)
            continue
        # every *direction* variable is angular, not only the last one of the dataset
        if "meanDirection" not in df:
            ctx.oracle_fail("interpolate_dataset: meanDirection missing from the result", rep)
            continue
        others = ["meanDirection"]
        if c.get("periodic_data"):
            ctx.tally("interpolate_dataset:track:caller-designated periodic_data")
            if "vessel_heading" not in df:
                ctx.oracle_fail("interpolate_dataset: vessel_heading missing from the result", rep)
                continue
            others.append("vessel_heading")
        for other in others:
            g2 = [C.unfx(v) for v in df[other]]
            bad = False
            for p_, (u1, u2) in enumerate(zip(g2, gw)):
                if isnan(u1) != isnan(u2) or (not isnan(u1) and angdiff(u1, u2, 360.0) > 1e-6):
                    ctx.oracle_fail("interpolate_dataset: %s and wave_direction hold the same angular data but come back as %r and %r "
                                    "(one of them was not interpolated along the shorter arc)" % (other, u1, u2), dict(rep, point_index=p_))
                    bad = True
                    break
            if bad:
                break
        if not check_angular(ctx, rep, "interpolate_dataset wave_direction", gw, ww, vec, 360.0, 0.0, 360.0, tol_scale=1.2e-4):
            continue


# ---------------------------------------------------------------------------------------------



def pregen(ctx):
    """regenerate coq/Generated/MathSrc.v from the CURRENT tools/math.py (fail-closed translator); Proofs/MathGen.v
    proves the regenerated wrapped_difference equal to the model's, so a changed formula breaks a proof obligation"""
    import os, sys
    sys.path.insert(0, os.path.join(C.VERIF, "harness"))
    import translate_pointwise as TP
    TP.generate_math(C.REPO, C.COQ)


def run(ctx):
    stream_wdiff(ctx, ctx.n(80, 3000))
    stream_penc(ctx, ctx.n(300, 12000))
    stream_paxis(ctx, ctx.n(400, 15000))
    stream_pgrid(ctx, ctx.n(100, 4000))
    stream_pspectra(ctx, ctx.n(100, 4000))
    stream_ppoints(ctx, ctx.n(150, 6000))
    stream_iper(ctx, ctx.n(400, 15000))
    stream_ids(ctx, ctx.n(30, 800))


def replay(ctx, obj):
    B.replay(ctx, obj)


ANCHORS = ["src/ocean_science_utilities/interpolate/nd_interp.py", "src/ocean_science_utilities/interpolate/general.py", "src/ocean_science_utilities/interpolate/dataset.py", "src/ocean_science_utilities/interpolate/dataarray.py", "src/ocean_science_utilities/interpolate/dataframe.py", "src/ocean_science_utilities/interpolate/geometry.py", "src/ocean_science_utilities/tools/grid.py", "src/ocean_science_utilities/tools/math.py", "src/ocean_science_utilities/wavespectra/spectrum.py"]
READY = True
LEVEL_TEXT = ("Theorems (Coq, all periods > 0, all targets, all grids that are strictly ascending, shorter than one period and with cyclic "
              "gaps below half a period): range, periodicity and uniqueness of the float modulo and of wrapped_difference; a target any "
              "number of periods away has the same neighbours, weights and result (one axis and N axes, plain and angular data, both modes, "
              "every NaN pattern, every grid); every target has two cyclic neighbours i, (i+1) mod n with a weight in [0,1), also in the bin "
              "that spans the wrap, so no target is out of range and finite data give a value between the neighbours; the weighted "
              "unit-vector mean of two non antipodal angles lies on the shorter arc (cross products carry the sign of the wrapped difference, "
              "positive component along the bisector, non zero) and the returned angle represents that vector and lies in [0, period); the "
              "model's angular result between two present neighbours is exactly that angle (plain and periodic coordinate); "
              "interpolate_periodic returns f0 + t*wrap(f1-f0) modulo the period with |wrap| <= P/2 in [discont-P, discont), and the caller's "
              "left/right value outside. The model is tied to /repo by running the extracted model and wrapped_difference, "
              "enclosing_points_1d / interpolation_weights_1d with a period, interpolate_dataset_along_axis / _grid on direction/longitude axes "
              "and angular variables, the spectrum wrappers, interpolate_track_data_arrray / interpolate_at_points / interpolate_dataset across "
              "the antimeridian, interpolate_periodic, interpolate_dataframe_time and Track.interpolate on the same generated inputs.")
LEVEL_NOTE = ("Not proved: floating point rounding (NdInterpolator accumulates in complex64: angles compared at 1.5e-5 deg x corners / |mean vector|); "
              "the short-arc theorem is stated for the two-corner mean (one interpolated axis); for N axes only range, shift invariance and "
              "execution evidence. Premise of the in-range theorems: all cyclic gaps of the grid below half a period (the code measures the bin "
              "width with wrapped_difference). Validated only by execution: selection of periodic coordinates/data by name, xarray/pandas layout, "
              "datetime64 handling of tracks and data frames. Trusted: Coq kernel, extraction (R as binary64, libm sin/cos/atan), harness tolerances.")
TECHNIQUE = "Coq proof (real analysis over the standard library: floor, sin/cos periodicity, atan) + extracted-model correspondence + shift / short-arc / range oracles"
DESIGN_REF = "DESIGN.md section 5 C14"
TRUSTED = ["numpy's float modulo is modelled as x - floor(x/p)*p and np.angle as atan2 built from atan by quadrant (theorem angle_represents_vector); validated by execution",
           "complex64 accumulation in NdInterpolator._periodic_data_interpolator is modelled in exact reals"]
