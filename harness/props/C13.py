"""C13 linear interpolation: exact at nodes, bounded, no extrapolation, NaN-aware.

Correspondence: extracted Coq model (Model/Interp.v) vs tools/grid.enclosing_points_1d,
interpolate/general.interpolation_weights_1d, interpolate_dataset_along_axis / _grid,
interpolate_track_data_arrray and the spectrum wrappers, on the same generated inputs.
Oracles (failing-input search): an independent brute-force piecewise-linear evaluator in exact
Fraction arithmetic, node exactness, bounds, exactness on linear data, no-extrapolation, pass-through.
Shared helpers are reused by props/C14.py.
"""
import math
from fractions import Fraction

import numpy as np          # layout only (reshape / moveaxis); all randomness comes from ctx.rng

import common as C

NAN = float("nan")

RULE = ("one evaluation = one (grid, variable layout, NaN mask, target vector, mode) call of the real code compared "
        "element-wise with the extracted model and with the exact-rational evaluator; non-trivial = at least one target "
        "strictly inside the grid and at least one finite output; distinct by full input hash")
ASSUMPTIONS = [
    "floating point rounding is not modelled: comparison at 1e-9 relative to sum |w f| (inputs are dyadic so that both sides take the same branches)",
    "a grid node counts as missing for a variable when any of its values across the non-interpolated dimensions is NaN (the code's rule, DESIGN section 7)",
    "grids are sorted (ascending or descending) without NaN; np.searchsorted on an unsorted vector is outside the property",
    "nearest mode at an exact mid-point takes the first of the two nodes in storage order (np.rint rounds half to even); the oracle accepts either node there",
    "xarray / numpy layout semantics (dims order, fancy indexing, broadcasting) are exercised by the generators, not modelled",
]

# ---------------------------------------------------------------------------------------------
# small helpers
# ---------------------------------------------------------------------------------------------


def isnan(v):
    return isinstance(v, float) and math.isnan(v)


def opt_tok(p):
    return "N" if p is None else "S " + C.fx(p)


def olist(xs):
    xs = list(xs)
    return "%d %s" % (len(xs), " ".join(C.fx(x) for x in xs)) if xs else "0"


def rows_tok(rows):
    return "%d %s" % (len(rows), " ".join(olist(r) for r in rows))


def lat(rng, lo, hi, den):
    """a float on the lattice 1/den inside [lo, hi] (exact in binary for den a power of two)"""
    return rng.randint(int(math.ceil(lo * den)), int(math.floor(hi * den))) / float(den)


def gen_grid(rng, n, kind="float", den=8, maxstep=4.0):
    """strictly ascending non-uniform grid; floats on the 1/den lattice or integer seconds"""
    if kind == "time":
        t = [rng.randint(0, 86400)]
        for _ in range(n - 1):
            t.append(t[-1] + rng.choice([1, 60, 600, 1800, 3600, 3600, rng.randint(1, 7200)]))
        return [float(v) for v in t]
    if rng.random() < 0.2:
        den = 1          # whole numbers: coord_desc then stores the coordinate with an integer / float32 dtype
    g = [lat(rng, -50, 50, den)]
    uniform = rng.random() < 0.2
    h = lat(rng, 1.0 / den, maxstep, den)
    for _ in range(n - 1):
        g.append(g[-1] + (h if uniform else lat(rng, 1.0 / den, maxstep, den)))
    return g


def gen_targets(rng, asc, m, kind="float", den=64):
    """targets inside / outside / on nodes / end points / mid points, with their labels"""
    n = len(asc)
    lo, hi = asc[0], asc[-1]
    out = []
    for _ in range(m):
        r = rng.random()
        if r < 0.18:
            k = rng.randrange(n)
            out.append(("node", asc[k]))
        elif r < 0.26:
            out.append(("end", rng.choice([lo, hi])))
        elif r < 0.38:
            k = rng.randrange(n - 1)
            mid = (asc[k] + asc[k + 1]) / 2
            if kind == "time" and mid != int(mid):
                mid = float(int(mid))
            out.append(("mid", mid))
        elif r < 0.50:
            step = 1.0 if kind == "time" else 1.0 / den
            out.append(("outside", rng.choice([lo - step, hi + step, lo - rng.randint(1, 500) * step,
                                                hi + rng.randint(1, 500) * step])))
        elif r < 0.58:
            # just inside an end point / just next to a node
            step = 1.0 if kind == "time" else 1.0 / den
            k = rng.randrange(n)
            v = asc[k] + rng.choice([-step, step])
            out.append(("near-node", v))
        else:
            k = rng.randrange(n - 1)
            if kind == "time":
                v = float(rng.randint(int(asc[k]), int(asc[k + 1])))
            else:
                v = lat(rng, asc[k], asc[k + 1], den)
            out.append(("inside", v))
    return out


def gen_values(rng, shape, axis, grid, kind=None):
    """data of the given shape; `linear` data vary linearly along `axis` (coefficients per passive position)"""
    kind = kind or rng.choice(["random", "random", "linear", "smallint", "const"])
    a = np.empty(shape, dtype="float64")
    if kind == "linear":
        pshape = list(shape)
        pshape[axis] = 1
        npass = int(np.prod(pshape))
        slope = np.array([rng.randint(-16, 16) / 4.0 for _ in range(npass)]).reshape(pshape)
        icpt = np.array([rng.randint(-64, 64) / 4.0 for _ in range(npass)]).reshape(pshape)
        g = np.array(grid, dtype="float64") - grid[0]
        gs = [1] * len(shape)
        gs[axis] = shape[axis]
        a[...] = slope * g.reshape(gs) + icpt
    elif kind == "const":
        a[...] = rng.randint(-20, 20) / 4.0
    elif kind == "smallint":
        a[...] = np.array([float(rng.randint(-5, 5)) for _ in range(a.size)]).reshape(shape)
    else:
        a[...] = np.array([C.dyadic(rng, -8, 8, 12) for _ in range(a.size)]).reshape(shape)
    return kind, a


def add_nans(rng, a, axis, pattern=None):
    """NaN patterns: none / isolated elements / whole nodes / many"""
    pattern = pattern or rng.choice(["none", "none", "none", "isolated", "node", "node", "many", "allnan-node-run"])
    n = a.shape[axis]
    if pattern == "none":
        return pattern
    flat_n = a.size
    if pattern == "isolated":
        for _ in range(rng.randint(1, max(1, min(3, flat_n // 4)))):
            idx = tuple(rng.randrange(s) for s in a.shape)
            a[idx] = NAN
    elif pattern == "node":
        for _ in range(rng.randint(1, max(1, n // 3))):
            sl = [slice(None)] * a.ndim
            sl[axis] = rng.randrange(n)
            a[tuple(sl)] = NAN
    elif pattern == "many":
        for _ in range(max(1, flat_n // 3)):
            idx = tuple(rng.randrange(s) for s in a.shape)
            a[idx] = NAN
    else:
        k0 = rng.randrange(n)
        k1 = min(n, k0 + rng.randint(2, 4))
        sl = [slice(None)] * a.ndim
        sl[axis] = slice(k0, k1)
        a[tuple(sl)] = NAN
    return pattern


def rows_of(a, axis):
    """node index -> list of the values at all passive positions (axis moved to the front)"""
    m = np.moveaxis(a, axis, 0).reshape(a.shape[axis], -1)
    return [[float(v) for v in r] for r in m]


def from_rows(rows, shape, axis):
    """inverse of rows_of for an output with `len(rows)` entries along `axis`"""
    pshape = [s for i, s in enumerate(shape) if i != axis]
    m = np.array(rows, dtype="float64").reshape([len(rows)] + pshape)
    return np.moveaxis(m, 0, axis)


def hexlist(a):
    return [C.fx(v) for v in np.asarray(a, dtype="float64").reshape(-1)]


def unhexarr(d):
    return np.array([C.unfx(v) for v in d["data"]], dtype="float64").reshape(d["shape"])


def tgt(kind, values, scalar=False, as_dataarray=False):
    if kind == "time":
        d = {"kind": "time", "values": [int(v) for v in values]}
    else:
        d = {"kind": "float", "values": [C.fx(v) for v in values]}
    if scalar:
        d["scalar"] = True
    if as_dataarray:
        d["as_dataarray"] = True
    return d


def coord_desc(kind, values):
    """a coordinate of the data set.  Whole-number grids (np.arange, depth levels in whole metres) are
    stored with an integer or float32 dtype: the interpolant depends on the VALUES of the grid only."""
    d = tgt(kind, values)
    if kind == "float" and values and all(float(v).is_integer() and abs(v) < 2 ** 20 for v in values):
        d["dtype"] = ["int64", "int32", "float32", "float64"][int(sum(values) + len(values)) % 4]
    return d


# ---------------------------------------------------------------------------------------------
# exact-rational evaluator (independent of the model): the property's own statement
# ---------------------------------------------------------------------------------------------


def spec_axis(grid, rows, x, nearest):
    """piecewise-linear / nearest value at x of data given on a strictly monotone grid.
    rows[i] = values at node i for every passive position.  Returns a list of acceptable answers;
    an answer is None (missing) or a list of Fractions (one per passive position)."""
    n = len(grid)
    order = list(range(n))
    if grid[0] > grid[-1]:
        order.reverse()
    g = [Fraction(grid[i]) for i in order]
    valid = [all(not isnan(v) for v in rows[i]) for i in range(n)]
    X = Fraction(x)
    if X < g[0] or X > g[-1]:
        return [None]

    def val(i):
        return [Fraction(v) for v in rows[i]] if valid[i] else None

    for k in range(n):
        if g[k] == X:
            return [val(order[k])]
    k = max(j for j in range(n - 1) if g[j] < X)
    t = (X - g[k]) / (g[k + 1] - g[k])
    a, b = order[k], order[k + 1]
    if nearest:
        if t < Fraction(1, 2):
            return [val(a)]
        if t > Fraction(1, 2):
            return [val(b)]
        return [val(a), val(b)]
    if valid[a] and valid[b]:
        return [[(1 - t) * Fraction(u) + t * Fraction(v) for u, v in zip(rows[a], rows[b])]]
    if valid[a]:
        return [val(a) if (1 - t) > Fraction(1, 2) else None]
    if valid[b]:
        return [val(b) if t > Fraction(1, 2) else None]
    return [None]


def matches(got_row, answers, rtol=1e-12):
    """does the implementation's row (floats) match one of the acceptable exact answers?"""
    for ans in answers:
        if ans is None:
            if all(isnan(v) for v in got_row):
                return True
            continue
        ok = True
        for v, e in zip(got_row, ans):
            if isnan(v) or math.isinf(v):
                ok = False
                break
            ef = float(e)
            if abs(v - ef) > rtol * max(1.0, abs(ef)) + 1e-300:
                ok = False
                break
        if ok:
            return True
    return False


def spec_multilinear(grids, data, pt):
    """exact multilinear interpolation of finite data at a point inside the box; None outside"""
    w = [(Fraction(1), ())]
    for g, x in zip(grids, pt):
        n = len(g)
        order = list(range(n))
        if g[0] > g[-1]:
            order.reverse()
        gg = [Fraction(g[i]) for i in order]
        X = Fraction(x)
        if X < gg[0] or X > gg[-1]:
            return None
        if X == gg[-1]:
            pairs = [(order[-1], Fraction(1))]
        else:
            k = max(j for j in range(n - 1) if gg[j] <= X)
            t = (X - gg[k]) / (gg[k + 1] - gg[k])
            pairs = [(order[k], 1 - t)] + ([(order[k + 1], t)] if t != 0 else [])
        w = [(cw * pw, idx + (i,)) for cw, idx in w for i, pw in pairs]
    tot = Fraction(0)
    for cw, idx in w:
        v = data[idx]
        if isnan(v):
            return "nan-corner"
        tot += cw * Fraction(float(v))
    return tot


def spec_chain(src, dims, order, grids, tvals, nearest):
    """exact evaluation of interpolate_dataset_grid: spec_axis along every coordinate in turn.
    Returns an object array of Fractions / NaN, or None when a nearest-mode tie makes the answer ambiguous."""
    cur = np.empty(src.shape, dtype=object)
    for idx in np.ndindex(*src.shape):
        v = float(src[idx])
        cur[idx] = NAN if math.isnan(v) else Fraction(v)
    for d in order:
        if d not in dims:
            continue
        ax = dims.index(d)
        shape = list(cur.shape)
        mv = np.moveaxis(cur, ax, 0).reshape(shape[ax], -1)
        rows = [list(r) for r in mv]
        npass = len(rows[0])
        out = []
        for x in tvals[d]:
            ans = spec_axis(grids[d], rows, x, nearest)
            if len(ans) > 1 and any(a != ans[0] for a in ans[1:]):
                return None
            out.append([NAN] * npass if ans[0] is None else list(ans[0]))
        pshape = [sz for i, sz in enumerate(shape) if i != ax]
        o = np.empty([len(out)] + pshape, dtype=object)
        flat = o.reshape(len(out), -1)
        for i, r in enumerate(out):
            for j, v in enumerate(r):
                flat[i, j] = v
        cur = np.moveaxis(flat.reshape([len(out)] + pshape), 0, ax)
    return cur


def tie_indices(grid, xs):
    """targets that are exact mid points between two neighbouring nodes: in nearest mode either node is a
    correct answer there (the code's choice, np.rint = half to even, is not part of the property)"""
    g = sorted(Fraction(v) for v in grid)
    mids = set((g[i] + g[i + 1]) / 2 for i in range(len(g) - 1))
    return set(j for j, x in enumerate(xs) if Fraction(x) in mids)


def blank_rows(a, axis, js):
    """copy of `a` with the entries at positions js along `axis` set to zero (excluded from a comparison)"""
    b = np.array(a, dtype="float64", copy=True)
    if js:
        sl = [slice(None)] * b.ndim
        sl[axis] = sorted(js)
        b[tuple(sl)] = 0.0
    return b


# ---------------------------------------------------------------------------------------------
# model batches
# ---------------------------------------------------------------------------------------------


class AxisJob:
    """one call of the model's interp_axis1 for every target (C13 driver: period None, no data period)"""

    def __init__(self, xp, rows, xs, nearest, period=None, dper=None):
        self.xp, self.rows, self.xs, self.nearest, self.period, self.dper = xp, rows, xs, nearest, period, dper
        self.np_ = len(rows[0]) if rows else 0

    def line(self, periodic_driver=False):
        if periodic_driver:
            return "axis %s %s %s %s %s %d %s" % (opt_tok(self.period), "T" if self.nearest else "F",
                                                   opt_tok(self.dper), C.flist(self.xp), rows_tok(self.rows),
                                                   self.np_, C.flist(self.xs))
        return "axis %s %s %s %d %s" % ("T" if self.nearest else "F", C.flist(self.xp), rows_tok(self.rows),
                                        self.np_, C.flist(self.xs))

    def decode(self, toks):
        """-> (values rows [target][passive], vec rows or None)"""
        m = len(self.xs)
        if self.dper is None:
            vals = [C.unfx(t) for t in toks]
            return [vals[i * self.np_:(i + 1) * self.np_] for i in range(m)], None
        vals = [C.unfx(t) for t in toks]
        out, vec = [], []
        for i in range(m):
            r, vv = [], []
            for j in range(self.np_):
                b = (i * self.np_ + j) * 3
                r.append(vals[b])
                vv.append((vals[b + 1], vals[b + 2]))
            out.append(r)
            vec.append(vv)
        return out, vec


def run_axis_jobs(ctx, jobs, periodic_driver=False):
    if not jobs:
        return []
    res = ctx.model([j.line(periodic_driver) for j in jobs])
    out = []
    for j, toks in zip(jobs, res):
        if toks and toks[0] == "ERR":
            raise C.Infra("model error: " + " ".join(toks))
        out.append(j.decode(toks))
    return out


def close_arrays(got, want, scale, rtol=1e-9, atol=1e-12):
    """element-wise comparison; returns the first bad flat index or None"""
    g = np.asarray(got, dtype="float64").reshape(-1)
    w = np.asarray(want, dtype="float64").reshape(-1)
    if g.shape != w.shape:
        return -1
    for i in range(g.size):
        if not C.close(g[i], w[i], rtol, atol, scale):
            return i
    return None


def data_scale(a):
    f = np.asarray(a, dtype="float64")
    f = f[np.isfinite(f)]
    return float(np.max(np.abs(f))) if f.size else 1.0


# ---------------------------------------------------------------------------------------------
# stream A: enclosing_points_1d / interpolation_weights_1d
# ---------------------------------------------------------------------------------------------


def stream_enc(ctx, ncases, period_fn=None, periodic_driver=False, grid_fn=None, target_fn=None, tag="enc"):
    rng = ctx.rng
    cases, lines, meta = [], [], []
    for _ in range(ncases):
        if grid_fn is None:
            n = rng.choice([2, 2, 3, 3, 4, 5, 8, 13, 21, 40, rng.randint(2, 40)])
            asc = gen_grid(rng, n)
        else:
            asc = grid_fn(rng)
        desc = rng.random() < 0.4
        xp = list(reversed(asc)) if desc else asc
        period = period_fn(rng, asc) if period_fn else None
        if target_fn is None:
            tg = gen_targets(rng, asc, rng.randint(1, 12))
        else:
            tg = target_fn(rng, asc, period)
        xs = [v for _, v in tg]
        cases.append({"op": "enc", "xp": [C.fx(v) for v in xp], "x": [C.fx(v) for v in xs],
                      "period": None if period is None else C.fx(period)})
        if periodic_driver:
            lines.append("enc %s %s %s" % (opt_tok(period), C.flist(xp), C.flist(xs)))
        else:
            lines.append("enc %s %s" % (C.flist(xp), C.flist(xs)))
        meta.append((xp, xs, tg, period, desc))
    impl = ctx.impl("C13.py", {"cases": cases})["results"]
    mod = ctx.model(lines)
    for (xp, xs, tg, period, desc), im, mo in zip(meta, impl, mod):
        n = len(xp)
        rep = {"op": "enclosing_points_1d + interpolation_weights_1d", "xp": xp, "x": xs, "period": period,
               "extrapolate_left": False, "extrapolate_right": False}
        inside = any(min(xp) < v < max(xp) for v in xs)
        ctx.count([tag, xp, xs, period], inside or period is not None)
        ctx.tally("%s:%s" % (tag, "descending" if desc else "ascending"))
        ctx.tally("%s:nodes<=4" % tag if n <= 4 else ("%s:nodes<=16" % tag if n <= 16 else "%s:nodes>16" % tag))
        for k, _ in tg:
            ctx.tally("%s-target:%s" % (tag, k))
        if isinstance(im, dict) and "error" in im:
            ctx.oracle_fail("enclosing/weights raised %s" % im, rep)
            continue
        if mo and mo[0] == "ERR":
            raise C.Infra("model error " + " ".join(mo))
        ties = tie_indices(xp, xs) if period is None else set()
        for j, x in enumerate(xs):
            mi0, mi1 = int(mo[4 * j]), int(mo[4 * j + 1])
            mfl, mfn = C.unfx(mo[4 * j + 2]), C.unfx(mo[4 * j + 3])
            i0, i1 = im["idx"][0][j], im["idx"][1][j]
            wl0, wl1 = C.unfx(im["wl"][0][j]), C.unfx(im["wl"][1][j])
            wn0, wn1 = C.unfx(im["wn"][0][j]), C.unfx(im["wn"][1][j])
            rep_j = dict(rep, target_index=j, target=x, impl_indices=[i0, i1], model_indices=[mi0, mi1],
                         impl_weights_linear=[wl0, wl1], model_frac_linear=mfl,
                         impl_weights_nearest=[wn0, wn1], model_frac_nearest=mfn)
            bad = None
            if (i0, i1) != (mi0, mi1):
                bad = "indices %s, model %s" % ((i0, i1), (mi0, mi1))
            elif not (C.close(wl1, mfl, 1e-12, 1e-15) and C.close(wl0, 1 - mfl if not isnan(mfl) else NAN, 1e-12, 1e-15)):
                bad = "linear weights %s, model frac %r" % ((wl0, wl1), mfl)
            elif j not in ties and not (C.close(wn1, mfn, 0, 0) and C.close(wn0, 1 - mfn if not isnan(mfn) else NAN, 0, 0)):
                bad = "nearest weights %s, model frac %r" % ((wn0, wn1), mfn)
            # ---- oracle: the bracketing specification, stated on the implementation alone
            obad = None
            if period is None:
                lo, hi = min(xp), max(xp)
                if lo <= x <= hi:
                    a, b = xp[i0], xp[i1]
                    if x == xp[-1]:
                        ok = (a == x and wl0 == 1.0 and wl1 == 0.0)
                    elif not desc:
                        ok = (a <= x < b and i1 == i0 + 1)
                    else:
                        # flipped frame: xp[0]-xp[i0] <= xp[0]-x < xp[0]-xp[i1]
                        ok = (a >= x > b and i1 == i0 + 1)
                    if not ok:
                        obad = "bracket violated: xp[%d]=%r, x=%r, xp[%d]=%r" % (i0, a, x, i1, b)
                    elif x != xp[-1]:
                        t = Fraction(x) - Fraction(a)
                        t = t / (Fraction(b) - Fraction(a))
                        if abs(wl1 - float(t)) > 1e-12 or abs(wl0 + wl1 - 1) > 1e-12 or not (0 <= wl1 < 1):
                            obad = "weights (%r, %r) are not (1-t, t) with t=%r" % (wl0, wl1, float(t))
                        else:
                            tn = 0.0 if t < Fraction(1, 2) else (1.0 if t > Fraction(1, 2) else None)
                            if tn is not None and (wn1 != tn or wn0 != 1 - tn):
                                obad = "nearest weights (%r, %r) for t=%r" % (wn0, wn1, float(t))
                            if tn is None and not ((wn0, wn1) in ((1.0, 0.0), (0.0, 1.0))):
                                obad = "nearest weights (%r, %r) at a mid point" % (wn0, wn1)
                else:
                    if not (isnan(wl0) and isnan(wl1) and isnan(wn0) and isnan(wn1)):
                        obad = "target outside the grid has weights %r (extrapolation)" % ((wl0, wl1),)
            if obad:
                ctx.oracle_fail("enclosing_points_1d/interpolation_weights_1d: " + obad, rep_j)
                break
            if bad:
                ctx.disagree("enclosing_points_1d/interpolation_weights_1d differ from the model: " + bad, rep_j)
                break
    return len(cases)


# ---------------------------------------------------------------------------------------------
# stream B: interpolate_dataset_along_axis
# ---------------------------------------------------------------------------------------------

DIM_POOL = ["a", "b", "c", "station", "member", "latitude", "frequency_band", "k"]
COORD_NAMES = ["x", "frequency", "depth", "z", "level", "latitude"]
VAR_NAMES = ["u", "hs", "temperature", "variance_density", "v10", "eta", "w"]


def gen_axis_case(rng, edge=False):
    kind = "time" if rng.random() < 0.3 else "float"
    cname = "time" if kind == "time" else rng.choice(COORD_NAMES)
    if edge:
        n = rng.choice([2, 2, 3])
    else:
        n = rng.choice([2, 3, 4, 5, 6, 9, 14, 25, 40, rng.randint(2, 40)])
    asc = gen_grid(rng, n, kind)
    desc = rng.random() < 0.35
    grid = list(reversed(asc)) if desc else asc
    nearest = rng.random() < 0.3
    m = 1 if (edge and rng.random() < 0.5) else rng.randint(1, 10)
    tg = gen_targets(rng, asc, m, kind)
    scalar = (m == 1 and rng.random() < 0.5)
    as_da = (not scalar) and kind != "time" and rng.random() < 0.2
    nvars = rng.randint(1, 3)
    names = rng.sample(VAR_NAMES, nvars)
    dims_pool = [d for d in DIM_POOL if d != cname]
    coords = {cname: coord_desc(kind, grid)}
    vars_ = []
    arrays = {}
    info = {}
    for nm in names:
        rank = rng.choice([1, 1, 2, 2, 3, 4])
        axis = rng.randrange(rank)
        others = rng.sample(dims_pool, rank - 1)
        dims = others[:axis] + [cname] + others[axis:]
        shape = []
        for d in dims:
            if d == cname:
                shape.append(n)
            else:
                if d not in coords:
                    sz = rng.randint(1, 4 if rank < 4 else 3)
                    coords[d] = coord_desc("float", [float(i) for i in range(sz)])
                shape.append(len(coords[d]["values"]))
        vk, a = gen_values(rng, shape, axis, grid)
        if edge and rng.random() < 0.3:
            a[...] = NAN
            nk = "allnan"
        else:
            nk = add_nans(rng, a, axis)
        vars_.append({"name": nm, "dims": dims, "shape": shape, "data": hexlist(a)})
        arrays[nm] = a
        info[nm] = {"axis": axis, "rank": rank, "values": vk, "nan": nk, "dims": dims}
    # pass-through variables (they lack the coordinate)
    npass = rng.choice([0, 1, 1, 2])
    for q in range(npass):
        nm = "aux%d" % q
        rank = rng.randint(1, 2)
        dims = rng.sample(dims_pool, rank)
        shape = []
        for d in dims:
            if d not in coords:
                sz = rng.randint(1, 4)
                coords[d] = coord_desc("float", [float(i) for i in range(sz)])
            shape.append(len(coords[d]["values"]))
        a = np.array([C.dyadic(rng, -8, 8, 12) for _ in range(int(np.prod(shape)))]).reshape(shape)
        if rng.random() < 0.3:
            a.reshape(-1)[0] = NAN
        vars_.append({"name": nm, "dims": dims, "shape": shape, "data": hexlist(a)})
        arrays[nm] = a
        info[nm] = {"passthrough": True, "dims": dims}
    case = {"op": "ds_axis", "coord": cname, "nearest": nearest,
            "targets": tgt(kind, [v for _, v in tg], scalar, as_da),
            "ds": {"coords": coords, "vars": vars_}}
    meta = {"grid": grid, "asc": asc, "desc": desc, "kind": kind, "cname": cname, "nearest": nearest, "tg": tg,
            "arrays": arrays, "info": info, "scalar": scalar}
    return case, meta


def check_axis_variable(ctx, rep, nm, a, axis, grid, xs, nearest, got, model_rows, what, period=None):
    """compare one interpolated variable with the model and with the exact evaluator"""
    shape = list(a.shape)
    want = from_rows(model_rows, shape, axis)
    scale = data_scale(a)
    rows = rows_of(a, axis)
    grows = rows_of(got, axis) if list(got.shape) == list(want.shape) else None
    if grows is None:
        ctx.oracle_fail("%s: variable %s has shape %s, expected %s" % (what, nm, list(got.shape), list(want.shape)),
                        dict(rep, variable=nm))
        return False
    # oracle first: the exact evaluator (only defined for the non periodic coordinate)
    if period is None and len(set(grid)) == len(grid):
        for j, x in enumerate(xs):
            answers = spec_axis(grid, rows, x, nearest)
            if not matches(grows[j], answers):
                exp = answers[0]
                ctx.oracle_fail(
                    "%s: variable %s at target %r is %s, the piecewise-%s value is %s" %
                    (what, nm, x, grows[j][:6], "nearest" if nearest else "linear",
                     "missing" if exp is None else [float(v) for v in exp][:6]),
                    dict(rep, variable=nm, target_index=j, target=x, impl_row=grows[j],
                         expected_row=None if exp is None else [float(v) for v in exp]))
                return False
            # node exactness is bit-exact: (1*v + 0)/1
            if x in grid:
                k = grid.index(x)
                if all(not isnan(v) for v in rows[k]) and any(g != v for g, v in zip(grows[j], rows[k])):
                    ctx.oracle_fail("%s: variable %s at grid node %r differs from the node value: %s vs %s" %
                                    (what, nm, x, grows[j][:6], rows[k][:6]),
                                    dict(rep, variable=nm, target_index=j, target=x))
                    return False
    ties = tie_indices(grid, xs) if (nearest and period is None) else set()
    if ties:
        ctx.tally("nearest-mode ties excluded from the model comparison", len(ties))
    got = blank_rows(got, axis, ties)
    want = blank_rows(want, axis, ties)
    bad = close_arrays(got, want, scale)
    if bad is not None:
        ctx.disagree("%s: variable %s differs from the model at flat index %s: impl %r model %r" %
                     (what, nm, bad, float(got.reshape(-1)[bad]) if bad >= 0 else None,
                      float(want.reshape(-1)[bad]) if bad >= 0 else None),
                     dict(rep, variable=nm, impl=hexlist(got), model=hexlist(want)))
        return False
    return True


def stream_axis(ctx, ncases, nedge):
    rng = ctx.rng
    cases, metas = [], []
    for i in range(ncases + nedge):
        c, m = gen_axis_case(rng, edge=(i >= ncases))
        m["edge"] = i >= ncases
        cases.append(c)
        metas.append(m)
    impl = ctx.impl("C13.py", {"cases": cases})["results"]
    jobs, where = [], []
    for ci, m in enumerate(metas):
        xs = [v for _, v in m["tg"]]
        for nm, inf in m["info"].items():
            if inf.get("passthrough"):
                continue
            jobs.append(AxisJob(m["grid"], rows_of(m["arrays"][nm], inf["axis"]), xs, m["nearest"]))
            where.append((ci, nm))
    res = run_axis_jobs(ctx, jobs)
    model_rows = {w: r[0] for w, r in zip(where, res)}
    for ci, (c, m, im) in enumerate(zip(cases, metas, impl)):
        xs = [v for _, v in m["tg"]]
        rep = {"op": "interpolate_dataset_along_axis", "case": c}
        inside = any(min(m["grid"]) < x < max(m["grid"]) for x in xs)
        anyfinite = False
        ctx.tally("axis:%s" % ("edge" if m["edge"] else "regular"))
        ctx.tally("axis-coord:%s" % m["kind"])
        ctx.tally("axis:%s" % ("descending" if m["desc"] else "ascending"))
        ctx.tally("axis-mode:%s" % ("nearest" if m["nearest"] else "linear"))
        if m["scalar"]:
            ctx.tally("axis:scalar-target")
        for k, _ in m["tg"]:
            ctx.tally("axis-target:%s" % k)
        if isinstance(im, dict) and "error" in im:
            ctx.oracle_fail("interpolate_dataset_along_axis raised %s: %s" % (im["error"], im["msg"]), rep)
            ctx.count(["axis", ci, c], False)
            continue
        if not im.get("input_unchanged", True):
            ctx.oracle_fail("interpolate_dataset_along_axis modified its input dataset", rep)
        ok = True
        for nm, inf in m["info"].items():
            a = m["arrays"][nm]
            if nm not in im["vars"]:
                ctx.oracle_fail("variable %s missing from the result" % nm, dict(rep, variable=nm))
                ok = False
                break
            got = unhexarr(im["vars"][nm])
            if inf.get("passthrough"):
                ctx.tally("axis:passthrough-variable")
                if im["vars"][nm]["dims"] != inf["dims"] or got.shape != a.shape or \
                        not all(C.close(u, v, 0, 0) for u, v in zip(got.reshape(-1), a.reshape(-1))):
                    ctx.oracle_fail("variable %s lacks coordinate %s but did not pass through unchanged" %
                                    (nm, m["cname"]), dict(rep, variable=nm))
                    ok = False
                    break
                continue
            ctx.tally("axis-rank:%d" % inf["rank"])
            ctx.tally("axis-pos:%d/%d" % (inf["axis"], inf["rank"]))
            ctx.tally("axis-nan:%s" % inf["nan"])
            ctx.tally("axis-values:%s" % inf["values"])
            if im["vars"][nm]["dims"] != inf["dims"]:
                ctx.oracle_fail("variable %s came back with dims %s instead of %s" %
                                (nm, im["vars"][nm]["dims"], inf["dims"]), dict(rep, variable=nm))
                ok = False
                break
            if np.isfinite(got).any():
                anyfinite = True
            if not check_axis_variable(ctx, rep, nm, a, inf["axis"], m["grid"], xs, m["nearest"], got,
                                       model_rows[(ci, nm)], "interpolate_dataset_along_axis"):
                ok = False
                break
        # the interpolated coordinate of the result holds the targets
        if ok and m["cname"] in im["coords"]:
            cv = [C.unfx(v) for v in im["coords"][m["cname"]]["data"]]
            if len(cv) != len(xs) or any(u != v for u, v in zip(cv, xs)):
                ctx.oracle_fail("result coordinate %s is %s, targets were %s" % (m["cname"], cv[:5], xs[:5]), rep)
        ctx.count(["axis", c], inside and anyfinite)
        if ci < 2:
            ctx.sample({"interpolate_dataset_along_axis": {"coord": m["cname"], "grid": m["grid"][:6], "targets": xs[:6],
                                                            "nearest": m["nearest"],
                                                            "variables": {k: {kk: vv for kk, vv in v.items()} for k, v in m["info"].items()}}})


# ---------------------------------------------------------------------------------------------
# stream C: interpolate_dataset_grid (composition over axes)
# ---------------------------------------------------------------------------------------------


def gen_grid_case(rng):
    ncoord = rng.choice([2, 2, 3])
    rank = rng.randint(ncoord, 4)
    pool = ["x", "y", "z", "depth", "frequency"]
    names = rng.sample(pool, ncoord)
    use_time = rng.random() < 0.3
    if use_time:
        names[rng.randrange(ncoord)] = "time"
    extra = rng.sample(["a", "b", "member"], rank - ncoord)
    dims = names + extra
    rng.shuffle(dims)
    coords, grids, kinds = {}, {}, {}
    shape = []
    for d in dims:
        if d in names:
            kind = "time" if d == "time" else "float"
            n = rng.choice([2, 3, 4, 6, 9])
            asc = gen_grid(rng, n, kind)
            g = list(reversed(asc)) if rng.random() < 0.3 else asc
            grids[d], kinds[d] = g, kind
            coords[d] = coord_desc(kind, g)
            shape.append(n)
        else:
            sz = rng.randint(1, 3)
            coords[d] = coord_desc("float", [float(i) for i in range(sz)])
            shape.append(sz)
    a = np.array([C.dyadic(rng, -8, 8, 10) for _ in range(int(np.prod(shape)))]).reshape(shape)
    nank = rng.choice(["none", "none", "isolated", "node"])
    if nank != "none":
        add_nans(rng, a, dims.index(names[0]), nank)
    nearest = rng.random() < 0.25
    order = list(names)
    rng.shuffle(order)
    targets = []
    tvals = {}
    for d in order:
        asc = sorted(grids[d])
        tg = gen_targets(rng, asc, rng.randint(1, 5), kinds[d])
        tvals[d] = [v for _, v in tg]
        targets.append([d, tgt(kinds[d], tvals[d])])
    vars_ = [{"name": "u", "dims": dims, "shape": shape, "data": hexlist(a)}]
    # a second variable that only has some of the coordinates
    sub = [d for d in dims if d != order[0]]
    if sub and rng.random() < 0.6:
        sshape = [shape[dims.index(d)] for d in sub]
        b = np.array([C.dyadic(rng, -8, 8, 10) for _ in range(int(np.prod(sshape)))]).reshape(sshape)
        vars_.append({"name": "partial", "dims": sub, "shape": sshape, "data": hexlist(b)})
    else:
        b, sub = None, None
    case = {"op": "ds_grid", "nearest": nearest, "targets": targets, "ds": {"coords": coords, "vars": vars_}}
    meta = {"dims": dims, "order": order, "grids": grids, "tvals": tvals, "a": a, "b": b, "sub": sub,
            "nearest": nearest, "nan": nank}
    return case, meta


def stream_grid(ctx, ncases, periodic_driver=False):
    rng = ctx.rng
    cases, metas = [], []
    for _ in range(ncases):
        c, m = gen_grid_case(rng)
        cases.append(c)
        metas.append(m)
    impl = ctx.impl("C13.py", {"cases": cases})["results"]
    # the model composes interp_axis over the coordinates, in the order of the dict
    state = []
    for m in metas:
        st = {"u": (m["a"], m["dims"])}
        if m["b"] is not None:
            st["partial"] = (m["b"], m["sub"])
        state.append(st)
    maxsteps = max(len(m["order"]) for m in metas) if metas else 0
    for step in range(maxsteps):
        jobs, where = [], []
        for ci, m in enumerate(metas):
            if step >= len(m["order"]):
                continue
            d = m["order"][step]
            for nm, (arr_, dims) in list(state[ci].items()):
                if d not in dims:
                    continue
                ax = dims.index(d)
                jobs.append(AxisJob(m["grids"][d], rows_of(arr_, ax), m["tvals"][d], m["nearest"]))
                where.append((ci, nm, ax))
        res = run_axis_jobs(ctx, jobs, periodic_driver)
        for (ci, nm, ax), (rows, _) in zip(where, res):
            arr_, dims = state[ci][nm]
            state[ci][nm] = (from_rows(rows, list(arr_.shape), ax), dims)
    for ci, (c, m, im) in enumerate(zip(cases, metas, impl)):
        rep = {"op": "interpolate_dataset_grid", "case": c}
        ctx.tally("grid:%d-coordinates" % len(m["order"]))
        ctx.tally("grid-rank:%d" % len(m["dims"]))
        ctx.tally("grid-nan:%s" % m["nan"])
        ctx.tally("grid-mode:%s" % ("nearest" if m["nearest"] else "linear"))
        if isinstance(im, dict) and "error" in im:
            ctx.oracle_fail("interpolate_dataset_grid raised %s: %s" % (im["error"], im["msg"]), rep)
            ctx.count(["grid", c], False)
            continue
        nontriv = False
        for nm, (want, dims) in state[ci].items():
            if nm not in im["vars"]:
                ctx.oracle_fail("variable %s missing from the result" % nm, dict(rep, variable=nm))
                continue
            got = unhexarr(im["vars"][nm])
            if np.isfinite(got).any():
                nontriv = True
            src = m["a"] if nm == "u" else m["b"]
            # oracle: the exact evaluator applied axis after axis (the code's NaN-node rule included);
            # skipped when nearest mode hits an exact mid point (either node is acceptable there)
            if list(got.shape) == list(want.shape):
                exact = spec_chain(src, dims, m["order"], m["grids"], m["tvals"], m["nearest"])
                if exact is None:
                    ctx.tally("grid:oracle-skipped-tie")
                else:
                    failed = False
                    sc = max(1.0, data_scale(src))
                    for idx in np.ndindex(*got.shape):
                        g = float(got[idx])
                        e = exact[idx]
                        okk = isnan(g) if isnan(e) else ((not isnan(g)) and abs(g - float(e)) <= 1e-11 * sc)
                        if not okk:
                            ctx.oracle_fail("interpolate_dataset_grid: variable %s at output index %s is %r, exact value %s" %
                                            (nm, list(idx), g, "missing" if isnan(e) else float(e)),
                                            dict(rep, variable=nm, index=list(idx)))
                            failed = True
                            break
                    if failed:
                        continue
            if m["nearest"] and any(tie_indices(m["grids"][d], m["tvals"][d]) for d in m["order"]):
                ctx.tally("grid:nearest-tie, model comparison skipped")
                continue
            bad = close_arrays(got, want, data_scale(src))
            if bad is not None:
                ctx.disagree("interpolate_dataset_grid: variable %s differs from the composition of the axis model at flat index %s" % (nm, bad),
                             dict(rep, variable=nm, impl=hexlist(got), model=hexlist(want)))
        ctx.count(["grid", c], nontriv)


# ---------------------------------------------------------------------------------------------
# stream C2: the model's own interp_grid2 (two coordinates, variable with dims (x, y))
# ---------------------------------------------------------------------------------------------


def stream_grid2(ctx, ncases):
    rng = ctx.rng
    cases, metas, lines = [], [], []
    for q in range(ncases):
        ax = gen_grid(rng, rng.choice([2, 3, 4, 6]))
        ay = gen_grid(rng, rng.choice([2, 3, 5]))
        xp = list(reversed(ax)) if rng.random() < 0.3 else ax
        yp = list(reversed(ay)) if rng.random() < 0.3 else ay
        poison = (q % 5 == 0)          # one x target outside its grid: every output must be missing
        xs = [v for _, v in gen_targets(rng, ax, rng.randint(1, 5))]
        if poison:
            xs = [lat(rng, ax[0], ax[-1], 64) for _ in xs] + [ax[-1] + 1.0]
            rng.shuffle(xs)
        ys = [v for _, v in gen_targets(rng, ay, rng.randint(1, 5))]
        nearest = rng.random() < 0.2
        m = np.array([C.dyadic(rng, -8, 8, 10) for _ in range(len(xp) * len(yp))]).reshape(len(xp), len(yp))
        nank = "none" if poison else rng.choice(["none", "none", "isolated", "node"])
        if nank != "none":
            add_nans(rng, m, 0, nank)
        case = {"op": "ds_grid", "nearest": nearest,
                "targets": [["x", tgt("float", xs)], ["y", tgt("float", ys)]],
                "ds": {"coords": {"x": coord_desc("float", xp), "y": coord_desc("float", yp)},
                       "vars": [{"name": "u", "dims": ["x", "y"], "shape": [len(xp), len(yp)], "data": hexlist(m)}]}}
        cases.append(case)
        metas.append((xp, yp, m, xs, ys, nearest, poison, nank))
        lines.append("grid2 %s %s %s %s %s %s" % ("T" if nearest else "F", C.flist(xp), C.flist(yp),
                                                  rows_tok([[float(v) for v in r] for r in m]), C.flist(xs), C.flist(ys)))
    impl = ctx.impl("C13.py", {"cases": cases})["results"]
    mod = ctx.model(lines)
    for c, (xp, yp, m, xs, ys, nearest, poison, nank), im, mo in zip(cases, metas, impl, mod):
        rep = {"op": "interpolate_dataset_grid", "case": c}
        ctx.tally("grid2:%s" % ("one-x-target-outside" if poison else "regular"))
        ctx.tally("grid2-nan:%s" % nank)
        if isinstance(im, dict) and "error" in im:
            ctx.oracle_fail("interpolate_dataset_grid raised %s: %s" % (im["error"], im["msg"]), rep)
            ctx.count(["grid2", c], False)
            continue
        got = unhexarr(im["vars"]["u"])
        ctx.count(["grid2", c], bool(np.isfinite(got).any()) or poison)
        if mo and mo[0] == "ERR":
            raise C.Infra("model error " + " ".join(mo))
        want = np.array([C.unfx(t) for t in mo], dtype="float64").reshape(len(ys), len(xs)).T
        if list(got.shape) != [len(xs), len(ys)]:
            ctx.oracle_fail("interpolate_dataset_grid: u has shape %s, expected %s" % (list(got.shape), [len(xs), len(ys)]), rep)
            continue
        if nearest and (tie_indices(xp, xs) or tie_indices(yp, ys)):
            ctx.tally("grid2:nearest-tie, model comparison skipped")
            continue
        bad = close_arrays(got, want, data_scale(m))
        if bad is not None:
            ctx.disagree("interpolate_dataset_grid (x then y) differs from interp_grid2 of the model at flat index %s: impl %r model %r" %
                         (bad, float(got.reshape(-1)[bad]), float(want.reshape(-1)[bad])),
                         dict(rep, impl=hexlist(got), model=hexlist(want)))


# ---------------------------------------------------------------------------------------------
# stream D: interpolate_track_data_arrray / interpolate_at_points (all dimensions interpolated)
# ---------------------------------------------------------------------------------------------


def stream_points(ctx, ncases):
    rng = ctx.rng
    cases, metas, lines = [], [], []
    for _ in range(ncases):
        nd = rng.choice([1, 2, 2, 3, 3])
        names = rng.sample(["time", "latitude", "depth", "x", "y"], nd)
        grids, kinds, coords, shape = [], [], {}, []
        for d in names:
            kind = "time" if d == "time" else "float"
            n = rng.choice([2, 3, 4, 5, 7])
            asc = gen_grid(rng, n, kind)
            g = list(reversed(asc)) if (rng.random() < 0.25) else asc
            grids.append(g)
            kinds.append(kind)
            coords[d] = coord_desc(kind, g)
            shape.append(n)
        vk, a = gen_values(rng, shape, 0, grids[0], rng.choice(["random", "random", "smallint", "const"]))
        nank = rng.choice(["none", "none", "isolated", "many"])
        if nank != "none":
            add_nans(rng, a, 0, nank)
        npts = rng.randint(1, 8)
        pts_cols = []
        for g, k in zip(grids, kinds):
            tg = gen_targets(rng, sorted(g), npts, k)
            pts_cols.append([v for _, v in tg])
        via = rng.choice(["dataarray", "dataarray", "dataset"])
        indep = rng.choice([None, names[0], names[-1]]) if via == "dataarray" else rng.choice([names[0], names[-1]])
        if indep is None and "time" not in names:
            pass  # the code then uses the first dimension
        order = list(range(nd))
        rng.shuffle(order)
        case = {"op": "points", "via": via, "variable": "u", "independent": indep,
                "points": [[names[i], tgt(kinds[i], pts_cols[i])] for i in order],
                "ds": {"coords": coords, "vars": [{"name": "u", "dims": names, "shape": shape, "data": hexlist(a)}]}}
        cases.append(case)
        metas.append((names, grids, a, pts_cols, nank, via))
        line = "nd F %d %s %s %d %s" % (nd, " ".join(C.flist(g) for g in grids), olist(a.reshape(-1)), npts,
                                        " ".join(C.flist([col[p] for col in pts_cols]) for p in range(npts)))
        lines.append(line)
    impl = ctx.impl("C13.py", {"cases": cases})["results"]
    mod = ctx.model(lines)
    for c, (names, grids, a, pts_cols, nank, via), im, mo in zip(cases, metas, impl, mod):
        rep = {"op": "interpolate_track_data_arrray" if via == "dataarray" else "interpolate_at_points", "case": c}
        ctx.tally("points:%d-d" % len(names))
        ctx.tally("points-nan:%s" % nank)
        ctx.tally("points-via:%s" % via)
        if isinstance(im, dict) and "error" in im:
            ctx.oracle_fail("%s raised %s: %s" % (rep["op"], im["error"], im["msg"]), rep)
            ctx.count(["points", c], False)
            continue
        got = unhexarr(im["vars"]["u"]).reshape(-1)
        want = [C.unfx(t) for t in mo]
        npts = len(pts_cols[0])
        ctx.count(["points", c], bool(np.isfinite(got).any()))
        if len(got) != npts:
            ctx.oracle_fail("%s returned %d values for %d points" % (rep["op"], len(got), npts), rep)
            continue
        done = False
        for p in range(npts):
            pt = [col[p] for col in pts_cols]
            e = spec_multilinear(grids, a, pt)
            g = float(got[p])
            if e is None and not isnan(g):
                ctx.oracle_fail("%s: point %s outside the grid gives %r (extrapolation)" % (rep["op"], pt, g),
                                dict(rep, point_index=p))
                done = True
                break
            if e is not None and e != "nan-corner":
                if isnan(g) or abs(g - float(e)) > 1e-11 * max(1.0, data_scale(a)):
                    ctx.oracle_fail("%s: point %s gives %r, exact multilinear value %r" % (rep["op"], pt, g, float(e)),
                                    dict(rep, point_index=p))
                    done = True
                    break
        if done:
            continue
        bad = close_arrays(got, want, data_scale(a))
        if bad is not None:
            ctx.disagree("%s differs from the model at point %s: impl %r model %r" %
                         (rep["op"], bad, float(got[bad]) if bad >= 0 else None, want[bad] if bad >= 0 else None),
                         dict(rep, impl=hexlist(got), model=[C.fx(v) for v in want]))


# ---------------------------------------------------------------------------------------------
# stream E: spectra
# ---------------------------------------------------------------------------------------------


def gen_spectrum(rng, kind):
    nt = rng.choice([2, 3, 4, 6])
    nf = rng.choice([3, 4, 6, 9, 12])
    time = gen_grid(rng, nt, "time")
    freq = [v / 64.0 for v in sorted(rng.sample(range(2, 64), nf))]
    s = {"kind": kind, "time": [int(v) for v in time], "frequency": [C.fx(v) for v in freq],
         "latitude": [C.fx(lat(rng, -60, 60, 8)) for _ in range(nt)],
         "longitude": [C.fx(lat(rng, -179, 179, 8)) for _ in range(nt)],
         "depth": [C.fx(float(rng.randint(5, 500))) for _ in range(nt)]}
    arrays = {}
    if kind == "1d":
        sh = (nt, nf)
    else:
        ndir = rng.choice([4, 6, 8, 12])
        d0 = rng.choice([0.0, 0.0, 5.0, 7.5])
        dirs = [d0 + i * 360.0 / ndir for i in range(ndir)]
        s["direction"] = [C.fx(v) for v in dirs]
        arrays["direction"] = dirs
        sh = (nt, nf, ndir)
    size = int(np.prod(sh))
    ek = rng.choice(["positive", "positive", "with-zeros", "with-nan"])
    e = np.array([rng.randint(1, 64) / 16.0 for _ in range(size)]).reshape(sh)
    if ek == "with-zeros":
        sl = [slice(None)] * len(sh)
        sl[1] = slice(0, rng.randint(1, 2))      # zero energy in the lowest bins at all times
        e[tuple(sl)] = 0.0
    if ek == "with-nan":
        which = rng.random()
        if which < 0.5:
            e[rng.randrange(nt)] = NAN           # a missing spectrum
        else:
            e[tuple(rng.randrange(v) for v in sh)] = NAN
    s["e"] = hexlist(e)
    arrays["e"] = e
    if kind == "1d":
        for nm in ("a1", "b1", "a2", "b2"):
            mo = np.array([rng.randint(-16, 16) / 16.0 for _ in range(size)]).reshape(sh)
            if rng.random() < 0.15:
                mo[tuple(rng.randrange(v) for v in sh)] = NAN
            s[nm] = hexlist(mo)
            arrays[nm] = mo
    arrays["time"] = time
    arrays["frequency"] = freq
    return s, arrays, ek


def stream_spectra(ctx, ncases):
    rng = ctx.rng
    cases, metas = [], []
    for _ in range(ncases):
        kind = rng.choice(["1d", "1d", "2d"])
        s, arrays, ek = gen_spectrum(rng, kind)
        axis_name = rng.choice(["time", "frequency", "frequency", "both"])
        nearest = rng.random() < 0.3
        ext = rng.choice([None, None, 0.0, -1.0, 2.5])
        c = dict(s)
        c["op"] = "spec"
        tt = [v for _, v in gen_targets(rng, arrays["time"], rng.randint(1, 5), "time")]
        tf = [v for _, v in gen_targets(rng, arrays["frequency"], rng.randint(1, 7), "float", 256)]
        if axis_name == "time":
            c["call"] = "interpolate"
            c["targets"] = [["time", tgt("time", tt)]]
        elif axis_name == "frequency":
            c["call"] = rng.choice(["interpolate", "interpolate_frequency", "interpolate_frequency"])
            if kind == "2d" and c["call"] == "interpolate_frequency" and rng.random() < 0.5:
                c["call"] = "base_interpolate_frequency"
            c["targets"] = [["frequency", tgt("float", tf, as_dataarray=(rng.random() < 0.2 and c["call"] != "interpolate"))]]
        else:
            c["call"] = "interpolate"
            o = [["time", tgt("time", tt)], ["frequency", tgt("float", tf)]]
            rng.shuffle(o)
            c["targets"] = o
        if kind == "2d":
            nearest = False           # WaveSpectrum.interpolate has no nearest mode
        if c["call"] == "interpolate_frequency" and kind == "1d":
            c["method"] = "nearest" if nearest else "linear"
        elif c["call"] == "interpolate" and kind == "1d":
            if nearest or rng.random() < 0.3:
                c["nearest"] = nearest
        else:
            nearest = False
        if ext is not None:
            c["ext"] = C.fx(ext)
        cases.append(c)
        metas.append((kind, arrays, ek, nearest, 0.0 if ext is None else ext, tt, tf))
    impl = ctx.impl("C13.py", {"cases": cases})["results"]

    # model: per axis step; 1D moments are scaled by E first (a * E), divided afterwards
    def rounds(ci):
        return [n for n, _ in cases[ci]["targets"]]

    state = []
    for (kind, arrays, ek, nearest, ext, tt, tf) in metas:
        st = {"e": arrays["e"]}
        if kind == "1d":
            for nm in ("a1", "b1", "a2", "b2"):
                st[nm] = arrays[nm] * arrays["e"]
        state.append(st)
    for step in range(2):
        jobs, where = [], []
        for ci, (kind, arrays, ek, nearest, ext, tt, tf) in enumerate(metas):
            r = rounds(ci)
            if step >= len(r):
                continue
            ax = 0 if r[step] == "time" else 1
            xp = arrays["time"] if ax == 0 else arrays["frequency"]
            xs = tt if ax == 0 else tf
            for nm, a in state[ci].items():
                jobs.append(AxisJob(xp, rows_of(a, ax), xs, nearest))
                where.append((ci, nm, ax))
        res = run_axis_jobs(ctx, jobs)
        for (ci, nm, ax), (rows, _) in zip(where, res):
            a = state[ci][nm]
            state[ci][nm] = from_rows(rows, list(a.shape), ax)
    # direct single-axis model of the spectrum wrapper (spectrum_interp1) for 1D spectra, one axis
    slines, swhere = [], []
    for ci, (kind, arrays, ek, nearest, ext, tt, tf) in enumerate(metas):
        r = rounds(ci)
        if kind != "1d" or len(r) != 1:
            continue
        ax = 0 if r[0] == "time" else 1
        xp = arrays["time"] if ax == 0 else arrays["frequency"]
        xs = tt if ax == 0 else tf
        erows = rows_of(arrays["e"], ax)
        for nm in ("a1", "b1", "a2", "b2"):
            arows = rows_of(arrays[nm], ax)
            slines.append("spec %s %s %s %s %s %d %s" % ("T" if nearest else "F", C.fx(ext), C.flist(xp),
                                                          rows_tok(erows), rows_tok(arows), len(erows[0]), C.flist(xs)))
            swhere.append((ci, nm, ax, len(xs), len(erows[0])))
    sres = ctx.model(slines) if slines else []
    direct = {}
    for (ci, nm, ax, m_, np_), toks in zip(swhere, sres):
        vals = [C.unfx(t) for t in toks]
        e_rows, a_rows = [], []
        for i in range(m_):
            b = i * 2 * np_
            e_rows.append(vals[b:b + np_])
            a_rows.append(vals[b + np_:b + 2 * np_])
        direct[(ci, nm)] = (e_rows, a_rows, ax)

    for ci, (c, (kind, arrays, ek, nearest, ext, tt, tf), im) in enumerate(zip(cases, metas, impl)):
        rep = {"op": "%s spectrum .%s" % (kind, c["call"]), "case": c}
        r = rounds(ci)
        ctx.tally("spectrum:%s:%s" % (kind, "+".join(r)))
        ctx.tally("spectrum-call:%s" % c["call"])
        ctx.tally("spectrum-energy:%s" % ek)
        ctx.tally("spectrum-mode:%s" % ("nearest" if nearest else "linear"))
        ctx.tally("spectrum-ext:%r" % ext)
        if isinstance(im, dict) and "error" in im:
            ctx.oracle_fail("%s raised %s: %s" % (rep["op"], im["error"], im["msg"]), rep)
            ctx.count(["spec", c], False)
            continue
        if not im.get("input_unchanged", True):
            ctx.oracle_fail("%s modified the spectrum it was called on" % rep["op"], rep)
        got_e = unhexarr(im["vars"]["variance_density"])
        want_e = np.where(np.isnan(state[ci]["e"]), ext, state[ci]["e"])
        ctx.count(["spec", c], bool((got_e != ext).any()))
        expect_type = "FrequencySpectrum" if kind == "1d" else "FrequencyDirectionSpectrum"
        if im.get("type") != expect_type:
            ctx.oracle_fail("%s returned a %s" % (rep["op"], im.get("type")), rep)
        if list(got_e.shape) != list(want_e.shape):
            ctx.oracle_fail("%s: variance_density has shape %s, expected %s" % (rep["op"], list(got_e.shape), list(want_e.shape)), rep)
            continue
        # ---- oracle on the energy: exact evaluator per axis (single-axis calls), fill value outside
        if len(r) == 1:
            ax = 0 if r[0] == "time" else 1
            xp = arrays["time"] if ax == 0 else arrays["frequency"]
            xs = tt if ax == 0 else tf
            erows = rows_of(arrays["e"], ax)
            grows = rows_of(got_e, ax)
            failed = False
            for j, x in enumerate(xs):
                answers = spec_axis(xp, erows, x, nearest)
                answers = [[Fraction(ext)] * len(erows[0]) if a is None else a for a in answers]
                if not matches(grows[j], answers):
                    ctx.oracle_fail("%s: energy at %s=%r is %s, expected %s" %
                                    (rep["op"], r[0], x, grows[j][:5], [float(v) for v in answers[0]][:5]),
                                    dict(rep, target_index=j))
                    failed = True
                    break
                # energy-weighted moments (finite data, both neighbours present)
                if kind == "1d" and not failed:
                    for nm in ("a1", "b1", "a2", "b2"):
                        arows = rows_of(arrays[nm], ax)
                        mrows = [[(u * v) for u, v in zip(ra, re)] for ra, re in zip(arows, erows)]
                        man = spec_axis(xp, mrows, x, nearest)
                        ean = spec_axis(xp, erows, x, nearest)
                        grow = rows_of(unhexarr(im["vars"][nm]), ax)[j]
                        acc = []
                        for ma in man:
                            for ea in ean:
                                if ma is None or ea is None:
                                    acc.append([Fraction(ext)] * len(erows[0]))
                                else:
                                    acc.append([Fraction(ext) if q == 0 else p / q for p, q in zip(ma, ea)])
                        if any(q == 0 and p != 0 for ma in man if ma for ea in ean if ea for p, q in zip(ma, ea)):
                            continue
                        if not matches(grow, acc, 1e-11):
                            ctx.oracle_fail("%s: %s at %s=%r is %s, the energy-weighted value is %s" %
                                            (rep["op"], nm, r[0], x, grow[:5], [float(v) for v in acc[0]][:5]),
                                            dict(rep, target_index=j, variable=nm))
                            failed = True
                            break
                if failed:
                    break
            if failed:
                continue
        tie_ax, tie_js = None, set()
        if nearest:
            tj = {"time": tie_indices(arrays["time"], tt), "frequency": tie_indices(arrays["frequency"], tf)}
            if len(r) == 1:
                tie_ax, tie_js = (0 if r[0] == "time" else 1), tj[r[0]]
            elif any(tj[n_] for n_ in r):
                ctx.tally("spectrum:nearest-tie, model comparison skipped")
                continue
            if tie_js:
                ctx.tally("nearest-mode ties excluded from the model comparison", len(tie_js))
                got_e = blank_rows(got_e, tie_ax, tie_js)
                want_e = blank_rows(want_e, tie_ax, tie_js)
        bad = close_arrays(got_e, want_e, data_scale(arrays["e"]))
        if bad is not None:
            ctx.disagree("%s: variance_density differs from the model at flat index %s" % (rep["op"], bad),
                         dict(rep, impl=hexlist(got_e), model=hexlist(want_e)))
            continue
        if kind == "1d":
            for nm in ("a1", "b1", "a2", "b2"):
                got = unhexarr(im["vars"][nm])
                with np.errstate(all="ignore"):
                    q = state[ci][nm] / state[ci]["e"]
                q = np.where(state[ci]["e"] == 0, NAN, q)
                want = np.where(np.isnan(q), ext, q)
                if tie_js:
                    got = blank_rows(got, tie_ax, tie_js)
                    want = blank_rows(want, tie_ax, tie_js)
                skip = np.isinf(got) | np.isinf(want)
                if skip.any():
                    ctx.tally("spectrum:skipped-x/0")
                    got = np.where(skip, 0.0, got)
                    want = np.where(skip, 0.0, want)
                bad = close_arrays(got, want, 1.0)
                if bad is not None:
                    ctx.disagree("%s: %s differs from the model (interpolate a*E, divide by E, fillna) at flat index %s: impl %r model %r" %
                                 (rep["op"], nm, bad, float(got.reshape(-1)[bad]), float(want.reshape(-1)[bad])),
                                 dict(rep, variable=nm, impl=hexlist(got), model=hexlist(want)))
                    break
                if (ci, nm) in direct:
                    e_rows, a_rows, ax = direct[(ci, nm)]
                    wa = from_rows(a_rows, list(arrays[nm].shape), ax)
                    if tie_js:
                        wa = blank_rows(wa, tie_ax, tie_js)
                    wa = np.where(skip, 0.0, wa)
                    bad = close_arrays(got, wa, 1.0)
                    if bad is not None:
                        ctx.disagree("%s: %s differs from spectrum_interp1 of the model at flat index %s" % (rep["op"], nm, bad),
                                     dict(rep, variable=nm, impl=hexlist(got), model=hexlist(wa)))
                        break
        # variables without the interpolated coordinate pass through (frequency interpolation)
        if r == ["frequency"]:
            for nm in ("latitude", "longitude", "depth"):
                if nm in im["vars"]:
                    got = [C.unfx(v) for v in im["vars"][nm]["data"]]
                    src = [C.unfx(v) for v in c[nm]]
                    if got != src:
                        ctx.oracle_fail("%s: %s has no frequency coordinate but changed: %s -> %s" % (rep["op"], nm, src[:4], got[:4]), rep)
        if r == ["time"]:
            for nm in ("latitude", "depth"):
                if nm in im["vars"]:
                    got = [C.unfx(v) for v in im["vars"][nm]["data"]]
                    src = [[C.unfx(v)] for v in c[nm]]
                    for j, x in enumerate(tt):
                        if not matches([got[j]], spec_axis(arrays["time"], src, x, nearest)):
                            ctx.oracle_fail("%s: %s at time %r is %r" % (rep["op"], nm, x, got[j]), dict(rep, variable=nm))
                            break
        if ci < 1:
            ctx.sample({"spectrum": {"kind": kind, "call": c["call"], "axes": r, "nearest": nearest, "ext": ext,
                                     "targets_time": tt[:4], "targets_frequency": tf[:4]}})


# ---------------------------------------------------------------------------------------------


def stream_inf(ctx, ncases):
    """data holding +-infinity (the depth of a deep-water spectrum is inf): a target exactly on a node returns the
    node's value - the other neighbour has weight zero and takes no part, whatever it holds.  The model has no
    infinities (R); this stream is an oracle on the implementation alone (node exactness, a clause of the property)."""
    rng = ctx.rng
    cases, metas = [], []
    for _ in range(ncases):
        n = rng.randint(3, 7)
        asc = gen_grid(rng, n, "float")
        grid = list(reversed(asc)) if rng.random() < 0.3 else asc
        nst = rng.choice([1, 1, 2, 3])
        a = np.array([C.dyadic(rng, -8, 8, 10) for _ in range(nst * n)]).reshape(nst, n)
        for _q in range(rng.randint(1, 3)):
            a[rng.randrange(nst), rng.randrange(n)] = rng.choice([float("inf"), float("-inf")])
        if rng.random() < 0.3:
            a[rng.randrange(nst), :] = float("inf")          # every node infinite (depth of deep-water points)
        nearest = rng.random() < 0.3
        xs = list(grid)
        rng.shuffle(xs)
        one_d = nst == 1 and rng.random() < 0.5
        coords = {"depthlevel": coord_desc("float", grid), "station": coord_desc("float", [float(i) for i in range(nst)])}
        if one_d:
            vars_ = [{"name": "v", "dims": ["depthlevel"], "shape": [n], "data": hexlist(a[0])}]
        else:
            vars_ = [{"name": "v", "dims": ["station", "depthlevel"], "shape": [nst, n], "data": hexlist(a)}]
        cases.append({"op": "ds_axis", "coord": "depthlevel", "nearest": nearest, "targets": tgt("float", xs),
                      "ds": {"coords": coords, "vars": vars_}})
        metas.append((grid, a, xs, one_d))
    impl = ctx.impl("C13.py", {"cases": cases})["results"]
    for c, (grid, a, xs, one_d), im in zip(cases, metas, impl):
        rep = {"op": "interpolate_dataset_along_axis", "case": c, "note": "data contain +-inf; targets are grid nodes"}
        ctx.tally("axis:infinite-data")
        ctx.count(["inf", c], True)
        if isinstance(im, dict) and "error" in im:
            ctx.oracle_fail("interpolate_dataset_along_axis raised %s: %s" % (im["error"], im["msg"]), rep)
            continue
        got = unhexarr(im["vars"]["v"])
        # the interpolated coordinate replaces depthlevel at the same axis position
        got = got.reshape(1, len(xs)) if one_d else got
        for j, x in enumerate(xs):
            i = grid.index(x)
            for st in range(a.shape[0]):
                g, w = float(got[st, j]), float(a[st, i])
                if not (g == w):
                    ctx.oracle_fail("value at the grid node %r is %r, the data hold %r there (neighbouring nodes: %s)"
                                    % (x, g, w, [float(v) for v in a[st, max(0, i - 1):i + 2]]), dict(rep, station=st, node=i))
                    break
            else:
                continue
            break


def run(ctx):
    stream_enc(ctx, ctx.n(300, 10000))
    stream_axis(ctx, ctx.n(450, 15000), ctx.n(60, 1500))
    stream_grid(ctx, ctx.n(120, 4000))
    stream_grid2(ctx, ctx.n(60, 2500))
    stream_points(ctx, ctx.n(150, 5000))
    stream_spectra(ctx, ctx.n(180, 6000))
    stream_inf(ctx, ctx.n(60, 2000))


def replay(ctx, obj):
    """re-run the recorded call on the repo under test and print what it returns"""
    import json
    inp = obj.get("input", {})
    case = inp.get("case")
    if case is None and "xp" in inp:
        case = {"op": "enc", "xp": [C.fx(v) for v in inp["xp"]], "x": [C.fx(v) for v in inp["x"]],
                "period": None if inp.get("period") is None else C.fx(inp["period"])}
    if case is None:
        print("replay: no recorded call in this file")
        return
    res = ctx.impl("C13.py", {"cases": [case]})["results"][0]
    print("what was reported:", obj.get("what"))
    print("call:", case.get("op"), " result of the repo under test:")
    print(json.dumps(res)[:4000])


ANCHORS = ["src/ocean_science_utilities/interpolate/dataset.py", "src/ocean_science_utilities/interpolate/nd_interp.py", "src/ocean_science_utilities/interpolate/general.py", "src/ocean_science_utilities/interpolate/dataarray.py", "src/ocean_science_utilities/tools/grid.py", "src/ocean_science_utilities/tools/math.py", "src/ocean_science_utilities/wavespectra/spectrum.py"]
READY = True
LEVEL_TEXT = ("Theorems (Coq, all sorted grids of any length, all targets, all NaN patterns, any number of passive positions): "
              "searchsorted-right specification; bracketing indices and weight for a target inside the grid; value at a node = node "
              "value (also the last node, whatever the neighbours hold); between two present nodes (1-t) f_i + t f_(i+1) with t in [0,1), "
              "hence between the neighbours; exact for linear data on the whole closed range; outside the grid missing in both modes; "
              "NaN rule (missing neighbour dropped and renormalised iff the present weight exceeds one half, missing node gives missing); "
              "nearest mode (left node up to and including the mid point, right node beyond); descending grid = interpolation on the "
              "reversed grid (all targets, all NaN patterns); pass-through of variables without the coordinate; every output of the "
              "corner engine is a convex combination of the participating corners; the 2^N corner weights are non negative and sum to one "
              "(induction over the axes), N-d interpolation of finite data is bounded by the corner values, bilinear formula for two axes; "
              "interpolate_dataset_grid = composition of the axis steps (bilinear for targets inside) and, as the code stands, one target "
              "outside the first grid blanks every output; 1D spectra interpolate energy-weighted moments, zero energy and targets outside "
              "give the extrapolation value. The model is tied to /repo by running the extracted model and enclosing_points_1d, "
              "interpolation_weights_1d, interpolate_dataset_along_axis / _grid, interpolate_track_data_arrray / interpolate_at_points and "
              "the spectrum wrappers on the same generated inputs; an independent exact-rational evaluator is the failing-input search.")
LEVEL_NOTE = ("Not proved: nothing about floating point rounding (the extracted model runs in binary64; comparison at 1e-9 relative); "
              "descending = reversed grid is proved for linear mode everywhere and for nearest mode away from exact mid points (there the tie "
              "goes to the first node in storage order, so the two sides differ by design); the N-axes results are about the corner engine with the per-axis weights as "
              "hypotheses plus the two-axis instance; the spectrum theorem covers one axis (the two-axis call is the composition checked by "
              "execution). Validated only by execution: xarray/numpy layout (rank, axis position, dims order, fancy indexing, datetime64 "
              "arithmetic), the choice of periodic variables by name, x/0 = inf in the moment division (model: missing). "
              "Trusted: Coq kernel, extraction (R as binary64), harness tolerances. Real-number axioms of the Coq standard library only.")
TECHNIQUE = "Coq proof (induction over grids, corner lists and axes) + extracted-model correspondence + exact-rational oracles"
DESIGN_REF = "DESIGN.md section 5 C13"
TRUSTED = ["np.searchsorted(side='right') on a sorted vector is modelled as the count of entries <= x (theorem searchsorted_right_spec) and validated by execution",
           "np.rint is modelled as round-half-to-even from Int_part; numpy's float modulo as x - floor(x/p)*p"]
