"""C15 spectrum objects: no aliasing or mutation of operands; restructuring round trips.

A monitor more than a computation (DESIGN section 5, C15): random operation sequences (length <= 6) and every
public operation applied singly, on 1D/2D spectra in three layouts (single, (time), (time, latitude)), with
NaN values, invalid (all-NaN) members and infinite / mixed / finite depth.  harness/impl/C15.py snapshots every
live object (variables, dims, dtype, shape, bytes, coords, attrs) before and after EVERY call -- also calls
that raise -- and the result is compared with the trace of the extracted heap model
(coq/Model/SpecHeap.v): which object is returned (new / self / none) and which objects may have changed
(only the target of a documented in-place operation).  Field-by-field checks: deep copy (equal, no writeable
shared buffer, writes into the copy invisible in the source), __getitem__/isel/sel/where/bandpass against
numpy indexing, flatten pairing against the model's unravel, concatenate_spectra + __getitem__ against the
model's concat/getitem, netCDF save/load (exact), C-order index arithmetic against numpy.
"""
import os

import numpy as np

import common as C

RULE = ("programs: (class 1D/2D, layout, sizes, NaN pattern, depth kind, op sequence) from one PRNG plus one "
        "program per (operation, class, layout); one evaluation per executed operation; non-trivial = the call "
        "returned without raising, at least one other object was live or the call is a restructuring one; "
        "distinct by (initial spectrum, resolved operation prefix); index cases: distinct (shape, k)")
ASSUMPTIONS = [
    "whether a numpy/xarray call returns a view or a copy is runtime behaviour: the model allows sharing for every "
    "result except the data variables of a deep copy, and the theorems hold for every sharing pattern",
    "dimension coordinates (time, frequency, direction) are immutable pandas indexes that xarray shares even between "
    "deep copies; they are read-only (checked) and therefore not counted as shared data",
    "netCDF encoding/decoding is xarray + scipy (netCDF3); only the round trip is observed",
    "numerical results of the operations (sums, means, interpolation) are not modelled here (C01-C14 do that)",
]

VARCODE = {"time": 0, "latitude": 1, "longitude": 2, "depth": 3, "frequency": 4, "direction": 5,
           "variance_density": 6, "a1": 7, "b1": 8, "a2": 9, "b2": 10}
KIND = {"copy": 0, "add": 1, "sub": 1, "neg": 1, "mul": 1, "getitem": 2, "isel": 2, "sel": 2, "flatten": 2,
        "bandpass": 3, "interp_f": 3, "as1d": 3, "as2d": 3,
        "mean": 4, "sum": 4, "std": 4, "where": 4, "drop_invalid": 4, "interp": 4, "concat": 4}
ALL_OPS = ["add", "sub", "neg", "copy", "mul", "fillna", "getitem", "isel", "sel", "mean", "sum", "std", "where",
           "drop_invalid", "bandpass", "flatten", "as1d", "as2d", "interp", "interp_f", "save_load", "concat"]
WEIGHTS = {"add": 3, "sub": 2, "neg": 2, "copy": 4, "mul": 5, "fillna": 5, "getitem": 4, "isel": 3, "sel": 2,
           "mean": 2, "sum": 1, "std": 1, "where": 2, "drop_invalid": 2, "bandpass": 3, "flatten": 3, "as1d": 2,
           "as2d": 1, "interp": 2, "interp_f": 4, "save_load": 2, "concat": 3}


def varcodes(names):
    out = []
    extra = 11
    for n in names:
        if n in VARCODE:
            out.append(VARCODE[n])
        else:
            out.append(extra); extra += 1
    return out


def gen_op(rng, name=None):
    if name is None:
        names = list(WEIGHTS)
        name = rng.choices(names, weights=[WEIGHTS[n] for n in names])[0]
    return {"op": name, "a": rng.randrange(1 << 16), "b": rng.randrange(1 << 16), "p": rng.randrange(1 << 16),
            "q": rng.randrange(1 << 16), "x": rng.choice([0.0, 0.0, 1.0, 2.0, -1.0, 0.5])}


def gen_init(rng, cls=None, layout=None):
    return {"cls": cls or rng.choice([1, 1, 2]), "layout": layout or rng.choice(["time", "time", "single", "grid"]),
            "nt": rng.randint(1, 4), "nlat": rng.choice([1, 2, 2, 3, 3]), "nf": rng.randint(3, 7), "nd": rng.choice([4, 6, 8]),
            "seed": rng.randrange(1 << 30), "nan": rng.choice([0, 1, 1, 2]),
            "depth": rng.choice(["inf", "mixed", "finite"]), "allnan": rng.random() < 0.2}


def model_line(init_vars, steps):
    """the model request for the resolved operations of one program"""
    ops = []
    for st in steps:
        if st["status"] != "ok":
            ops.append("save %d" % st["a"])           # a raising call must leave everything as it was
            continue
        name = st["op"]
        if name == "fillna":
            ops.append("fillna %d" % st["a"])
        elif name == "mul" and st["params"].get("inplace"):
            ops.append("mulin %d" % st["a"])
        elif name == "save_load":
            vc = varcodes(st.get("new_vars", []))
            ops.append("create %d %s" % (len(vc), " ".join(map(str, vc))))
        else:
            others = [st["b"]] if st.get("b") is not None else []
            ops.append("pure %d %d %d %s" % (KIND[name], st["a"], len(others), " ".join(map(str, others))))
    vc = varcodes(init_vars)
    return "trace %d %s %d %s" % (len(vc), " ".join(map(str, vc)), len(ops), " ".join(ops))


def parse_trace(toks, n):
    out = []
    i = 0
    for _ in range(n):
        assert toks[i] == "r"
        r = int(toks[i + 1]); i += 2
        assert toks[i] == "c"
        k = int(toks[i + 1]); ch = [int(x) for x in toks[i + 2:i + 2 + k]]; i += 2 + k
        assert toks[i] == "s"
        k = int(toks[i + 1]); sh = [(int(toks[i + 2 + 2 * j]), toks[i + 3 + 2 * j]) for j in range(k)]; i += 2 + 2 * k
        out.append((r, ch, sh))
    return out


def check_program(ctx, prog, res, mtrace, flat_tables, concat_tables):
    init = prog["init"]
    steps = res["steps"]
    live = 1
    prefix = []
    for j, (st, (mr, mch, msh)) in enumerate(zip(steps, mtrace)):
        prefix.append([st["op"], st["a"], st.get("b"), st.get("params")])
        rep = {"init": init, "ops": prog["ops"][:j + 1], "resolved": steps[:j + 1], "failing_step": j,
               "initial_object": res["init"], "model_step": {"returns": mr, "may_change": mch}}
        ok = st["status"] == "ok"
        ctx.tally("op:" + st["op"] + ("" if ok else ":raised"))
        ctx.tally("class:%s layout:%s" % (init["cls"], init["layout"]))
        nontriv = ok and (live > 1 or st["op"] in ("flatten", "concat", "getitem", "save_load", "copy"))
        ctx.count([init, prefix], nontriv)
        # ---- the property: operands bit-for-bit unchanged (unless documented in-place on that object)
        bad = [k for k in st["changed"] if k not in mch]
        if bad:
            ctx.oracle_fail("%s%s changed object(s) %s (variables %s); only %s may change" % (
                st["op"], "" if ok else " (which raised %s)" % st["error"], bad,
                {k: st["changed_detail"].get(str(k)) for k in bad}, mch or "nothing"), rep)
        # ---- operations that must succeed on any valid spectrum object: writing it to netCDF and reading it back,
        # copying (an exception elsewhere - e.g. flatten of an object that an earlier step left without a time
        # variable - is data: the operands must still be unchanged)
        if not ok and st["op"] in ("save_load", "copy") \
                and not str(st.get("error", "")).startswith(("NotImplementedError",)):
            ctx.oracle_fail("%s raised %s on a valid spectrum object" % (st["op"], st.get("error")), rep)
        # ---- what is returned
        if ok:
            if st["returned"] == "new":
                if st["same_dataset_as"]:
                    ctx.oracle_fail("%s returned an object that wraps the Dataset of live object(s) %s: not a new object"
                                    % (st["op"], st["same_dataset_as"]), rep)
                if mr != st["new_id"]:
                    ctx.disagree("%s returned a new object, the model says it returns %s" % (st["op"], "object %d" % mr if mr >= 0 else "nothing"), rep)
                live += 1
            elif st["returned"] == "self":
                if not (st["op"] == "mul" and st["params"].get("inplace")):
                    ctx.oracle_fail("%s returned its operand (object %d) instead of a new object" % (st["op"], st["new_id"]), rep)
                elif mr != st["new_id"]:
                    ctx.disagree("multiply(inplace=True) returned object %s, model %s" % (st["new_id"], mr), rep)
            elif st["returned"] == "none":
                if st["op"] != "fillna":
                    ctx.oracle_fail("%s returned None" % st["op"], rep)
            else:
                ctx.oracle_fail("%s returned something that is not a spectrum" % st["op"], rep)
            if st["op"] == "fillna" and st.get("had_nan") and not st["changed"] and st["params"]["value"] == st["params"]["value"]:
                ctx.tally("fillna did not act in place (recorded, the property does not require it)")
            for msg in st["checks"]:
                ctx.oracle_fail(msg, rep)
            if st.get("views"):
                # allowed (only a deep copy must share nothing): recorded so the evidence shows where views occur
                ctx.tally("result of %s is a view of an operand in: %s" % (st["op"], ",".join(st["views"])))
            # ---- deep copy shares no data
            if st["op"] == "copy":
                if st.get("share"):
                    ctx.oracle_fail("deep copy (%s) shares writeable memory with its source: %s" % (st["params"]["how"], st["share"][:6]), rep)
                if st.get("writethrough"):
                    ctx.oracle_fail("writing into a deep copy (%s) changed the source in %s" % (st["params"]["how"], st["writethrough"]), rep)
                if any(kd != "I" for _, kd in msh):
                    ctx.disagree("model: deep copy shares a data buffer %r" % (msh,), rep)
            # ---- flatten pairing (model's unravel)
            if st["op"] == "flatten":
                dg = st["digest"]
                shape = dg["shape"]
                table = flat_tables[tuple(shape)]
                n = len(table)
                if not (len(dg["flat"]) == n == dg["len"] == dg["count_src"] == dg["count_flat"]):
                    ctx.oracle_fail("flatten changed the number of spectra: shape %s has %d, result has %d (len %d, number_of_spectra %d -> %d)"
                                    % (shape, n, len(dg["flat"]), dg["len"], dg["count_src"], dg["count_flat"]), rep)
                else:
                    for k, idx in enumerate(table):
                        if dg["flat"][k] != dg["src"][",".join(map(str, idx))]:
                            ctx.oracle_fail("flatten: element %d is not the spectrum at index %s with its coordinates (C order)" % (k, idx), rep)
                            break
            if st["op"] == "concat" and "concat" in st:
                cc = st["concat"]
                for i, want in enumerate(concat_tables[id(st)]):
                    m = cc["m"]
                    got = cc["output"][i * m:(i + 1) * m]
                    inp = cc["inputs"][i]
                    if not (np.array_equal(np.array(want), np.array(inp), equal_nan=True)):
                        ctx.disagree("model concat/getitem element %d differs from input %d" % (i, i), rep)
                    if not (np.array_equal(np.array(got), np.array(want), equal_nan=True)):
                        ctx.oracle_fail("concatenate_spectra: element %d of the result is not input %d" % (i, i), rep,)
                        break
        else:
            ctx.tally("raised:" + (st["error"] or "?").split(":")[0])


def index_cases(ctx):
    """C-order index arithmetic of the model against numpy (any rank)"""
    rng = ctx.rng
    lines, wants = [], []
    for _ in range(ctx.n(400, 8000)):
        rank = rng.choice([0, 1, 1, 2, 2, 3, 3, 4, 5])
        shape = [rng.randint(1, 5) for _ in range(rank)]
        n = int(np.prod(shape)) if shape else 1
        k = rng.randrange(n)
        idx = [int(x) for x in np.unravel_index(k, shape)] if shape else []
        lines.append("unravel %d %s %d" % (rank, " ".join(map(str, shape)), k))
        wants.append(["%d" % rank] + [str(x) for x in idx])
        lines.append("ravel %d %s %d %s" % (rank, " ".join(map(str, shape)), rank, " ".join(map(str, idx))))
        wants.append([str(int(np.ravel_multi_index(idx, shape)) if shape else 0)])
    for ln, w, m in zip(lines, wants, ctx.model(lines)):
        ctx.count(["idx", ln], True)
        ctx.tally("index-arithmetic")
        if m != w:
            ctx.disagree("model %s = %s, numpy %s" % (ln, m, w), {"op": "index", "request": ln})


def run(ctx):
    rng = ctx.rng
    progs = []
    # every public operation applied singly, on every class and layout
    for cls in (1, 2):
        for layout in ("time", "single", "grid"):
            for name in ALL_OPS:
                init = gen_init(rng, cls, layout)
                if layout != "single":
                    init["nt"] = max(init["nt"], 2)
                    init["nlat"] = max(init["nlat"], 2)
                progs.append({"init": init, "ops": [gen_op(rng, name)]})
                # ... and after a deep copy / with a second live object
                progs.append({"init": gen_init(rng, cls, layout), "ops": [gen_op(rng, "copy"), gen_op(rng, name), gen_op(rng, "fillna")]})
    for _ in range(ctx.n(250, 6000)):
        progs.append({"init": gen_init(rng), "ops": [gen_op(rng) for _ in range(rng.randint(1, 6))]})
    # restructuring chains: flatten / concatenate / select / save+load after one another
    for _ in range(ctx.n(60, 1500)):
        init = gen_init(rng, layout=rng.choice(["grid", "grid", "time"]))
        init["nt"] = rng.randint(2, 4); init["nlat"] = rng.randint(2, 3)
        chain = [gen_op(rng, rng.choice(["flatten", "concat", "getitem", "save_load", "copy", "isel", "where"]))
                 for _ in range(rng.randint(1, 4))]
        progs.append({"init": init, "ops": chain})
    tmpdir = os.path.join(C.BUILD, "tmp", "C15_%d" % os.getpid())
    os.makedirs(tmpdir, exist_ok=True)
    try:
        results = ctx.impl("C15.py", {"programs": progs, "tmpdir": tmpdir})["results"]
    finally:
        try:
            for fn in os.listdir(tmpdir):
                os.remove(os.path.join(tmpdir, fn))
            os.rmdir(tmpdir)
        except OSError:
            pass
    # ---- model requests
    lines = []
    owners = []
    shapes = set()
    concat_req = []
    for prog, res in zip(progs, results):
        if "error" in res and "steps" not in res:
            ctx.oracle_fail("creating the initial spectrum failed: %r" % (res,), {"init": prog["init"]})
            continue
        lines.append(model_line(res["init"]["vars"], res["steps"]))
        owners.append((prog, res))
        for st in res["steps"]:
            if st["status"] == "ok" and st["op"] == "flatten":
                shapes.add(tuple(st["digest"]["shape"]))
            if st["status"] == "ok" and st["op"] == "concat" and "concat" in st:
                concat_req.append(st)
    shapes = sorted(shapes)
    flat_lines = ["flatidx %d %s" % (len(s), " ".join(map(str, s))) for s in shapes]
    concat_lines = []
    concat_owner = []
    for st in concat_req:
        cc = st["concat"]
        for i in range(len(cc["inputs"])):
            concat_lines.append("concatget %d %d %d %s" % (cc["m"], i, len(cc["inputs"]),
                                                            " ".join(C.flist(x) for x in cc["inputs"])))
            concat_owner.append((st, i))
    mods = ctx.model(lines + flat_lines + concat_lines)
    flat_tables = {}
    for s, m in zip(shapes, mods[len(lines):len(lines) + len(flat_lines)]):
        n = int(m[0]); r = len(s)
        flat_tables[s] = [[int(x) for x in m[1 + k * r:1 + (k + 1) * r]] for k in range(n)]
    concat_tables = {}
    for (st, i), m in zip(concat_owner, mods[len(lines) + len(flat_lines):]):
        concat_tables.setdefault(id(st), []).append([C.unfx(t) for t in m[1:]])
    for (prog, res), m in zip(owners, mods[:len(lines)]):
        check_program(ctx, prog, res, parse_trace(m, len(res["steps"])), flat_tables, concat_tables)
    if owners:
        ctx.sample({"program": owners[-1][0], "resolved": [[s["op"], s["a"], s["status"], s["returned"], s["changed"]] for s in owners[-1][1]["steps"]]})
    index_cases(ctx)


def replay(ctx, obj):
    inp = obj.get("input", {})
    if "init" in inp and "ops" in inp:
        prog = {"init": inp["init"], "ops": inp["ops"]}
        tmpdir = os.path.join(C.BUILD, "tmp", "C15_%d" % os.getpid())
        res = ctx.impl("C15.py", {"programs": [prog], "tmpdir": tmpdir})["results"][0]
        lines = [model_line(res["init"]["vars"], res["steps"])]
        shapes = sorted({tuple(st["digest"]["shape"]) for st in res["steps"] if st["status"] == "ok" and st["op"] == "flatten"})
        lines += ["flatidx %d %s" % (len(s), " ".join(map(str, s))) for s in shapes]
        mods = ctx.model(lines)
        flat_tables = {}
        for s, m in zip(shapes, mods[1:]):
            r = len(s)
            flat_tables[s] = [[int(x) for x in m[1 + k * r:1 + (k + 1) * r]] for k in range(int(m[0]))]
        for st in res["steps"]:
            st.pop("concat", None)
        check_program(ctx, prog, res, parse_trace(mods[0], len(res["steps"])), flat_tables, {})
    for v in ctx.violations:
        print("REPLAY:", v["desc"][:300])
    if not ctx.violations:
        print("REPLAY: no violation on this input")


READY = True
LEVEL_TEXT = ("Theorems (Coq, over nat and lists, no axioms): in a heap of objects that bind variables to buffers, where public "
              "operations append buffers and objects and the two documented in-place operations (fillna, multiply(inplace=True)) "
              "rebind variables of their own object, EVERY sequence of operations leaves every previously live object with the same "
              "variables and the same buffer contents unless one of the operations is an in-place one on that very object "
              "(induction over the operation list; holds whatever views of its buffers were handed out, because no operation writes "
              "into an existing buffer); a deep copy is equal to its source variable by variable, lives in buffers that did not "
              "exist before (only immutable dimension coordinates may be shared) and changes nothing else; the set of objects the "
              "monitor's model reports as possibly changed is at most the in-place target; numpy's C-order ravel / unravel_index are "
              "mutually inverse for every rank and shape; flatten keeps the number of spectra and pairs element k with the spectrum "
              "at unravel(k) and its coordinates; selecting element i of the concatenation of N equally sized inputs returns input "
              "i. The model is tied to spectrum.py / operations.py by a monitor: byte snapshots of every live object before/after "
              "every call (also raising calls) in random operation sequences of length <= 6 and every public operation applied "
              "singly on 1D/2D spectra in three layouts, compared with the extracted model's trace; plus field-by-field checks of "
              "deep copy, __getitem__/isel/sel/where/bandpass, flatten, concatenate_spectra and netCDF save/load.")
LEVEL_NOTE = ("Partial by nature: whether numpy/xarray return a view or a copy is runtime behaviour; the model only says 'may share' "
              "and the theorems hold for every sharing pattern; views returned by sel/isel/__getitem__/flatten/bandpass/"
              "interpolate_frequency/as_frequency_spectrum are real (tallied in the evidence) and harmless because the library's "
              "in-place operations rebind variables instead of writing into buffers -- a user writing through .values of a result "
              "is outside the model. netCDF encoding is xarray/scipy (netCDF3; int64 comes back as int32), only the round trip is "
              "observed. Numerical results of reductions/interpolation are not modelled here. Repaired in /repo: "
              "interpolate_frequency(method='spline') filled the NaNs of its operand (commit 458d756). Observations, not defects "
              "of this property: flatten() of an object that carries scalar variables next to a gridded dimension raises; "
              "isel/sel on a spectral dimension raise when scalar variables are present; spline interpolation with "
              "monotone_interpolation=True needs the optional qpsolvers package (NameError here).")
TECHNIQUE = "Coq proof (induction over operation sequences on an object/variable/buffer heap; C-order index lemmas for any rank) + runtime monitor with byte snapshots compared with the extracted model's trace"
DESIGN_REF = "DESIGN.md section 5 C15"
