"""C03 mean / peak direction and spread: definitions, ranges, rotation by whole bins, mirror image."""
import math

import common as C
from props import C02 as B

RULE = ("one evaluation = one (spectrum point, band) pair compared between the extracted Coq model and the implementation "
        "(1D spectra with given moments, 2D spectra through their computed moments), or one (2D spectrum point, band, rotation k / mirror) "
        "relation evaluated on the implementation; non-trivial = band with >= 2 frequencies, positive band energy and a resultant "
        "moment vector longer than 1e-3; distinct by hash of (grid, data, band, variant)")
ASSUMPTIONS = [
    "floating point rounding is not modelled; directions are compared as unit vectors (1e-6 degree) away from the zero vector, "
    "spreads through their squares (2 - 2r), band means at 1e-9",
    "numpy.arctan2 is tied to the quadrant-wise atan2 of the model by correspondence only",
    "rotation / mirror statements are for uniform direction grids (N*delta = 360); on non-uniform grids the forward-difference bin "
    "widths are not mirror-symmetric and the property text restricts itself to uniform grids",
]
TRUSTED = []

NAN = B.NAN
INF = B.INF
isnan = B.isnan
fin = B.fin


# ------------------------------------------------------------------------------------------
def gen_1d_point(rng, f, allow_nan_e=True):
    nf = len(f)
    fp = rng.choice(f) if f[-1] > 0 else 0.1
    e = []
    for fi in f:
        shape = math.exp(-((fi - fp) / (0.3 * fp + 0.02)) ** 2) + 0.05 * rng.random()
        e.append(C.dyadic(rng, 0.01, 4.0, 12) * shape)
    # the directional means are ratios of band integrals: a sea of micrometre waves (or of any unit system) has
    # the same mean direction and spread as the same sea at metre scale
    mag = rng.choice([1.0] * 7 + [2.0 ** -70, 2.0 ** -52, 2.0 ** 40])
    e = [v * mag for v in e]
    kind = rng.choice(["smooth", "smooth", "seam", "quadrants", "tiny", "unit", "random_disc"])
    base = rng.uniform(-180, 180)
    if kind == "seam":
        base = rng.choice([180.0, -180.0, 179.9, -179.9, 175.0, -175.0])
    turn = rng.uniform(-40, 40)
    a1, b1, a2, b2 = [], [], [], []
    for i, fi in enumerate(f):
        if kind == "quadrants":
            d = base + 90.0 * (i % 4)
        elif kind == "random_disc":
            d = rng.uniform(-180, 180)
        elif kind == "unit":
            d = rng.choice([0.0, 90.0, 180.0, -90.0])
        else:
            d = base + turn * (fi - fp) / (abs(fp) + 0.05)
        if kind == "tiny":
            r = 1e-6 * rng.random()
        elif kind == "unit":
            r = 1.0
        else:
            r = rng.uniform(0.05, 0.98)
        if kind == "unit":
            c, s = {0.0: (1.0, 0.0), 90.0: (0.0, 1.0), 180.0: (-1.0, 0.0), -90.0: (0.0, -1.0)}[d]
            a1.append(c)
            b1.append(s)
        else:
            a1.append(r * math.cos(math.radians(d)))
            b1.append(r * math.sin(math.radians(d)))
        r2 = rng.uniform(0.0, 0.9)
        d2 = rng.uniform(-180, 180)
        a2.append(r2 * math.cos(math.radians(d2)))
        b2.append(r2 * math.sin(math.radians(d2)))
    flags = []
    if rng.random() < 0.3:
        i = rng.randrange(nf)
        e[i] = 0.0
        flags.append("zero_bin")
    if rng.random() < 0.25:
        i = rng.randrange(nf)
        a1[i] = NAN
        b1[i] = NAN
        a2[i] = NAN
        b2[i] = NAN
        flags.append("nan_moments")
    if rng.random() < 0.06:
        a1[rng.randrange(nf)] = NAN        # only one of the pair missing
        flags.append("nan_a1_only")
    if allow_nan_e and rng.random() < 0.15:
        e[rng.randrange(nf)] = NAN
        flags.append("nan_e")
    return kind, {"e": e, "a1": a1, "b1": b1, "a2": a2, "b2": b2}, flags


def build_1d_case(rng, nbands=3, maxpts=3, nfmax=24):
    r = rng.random()
    nf = 1 if r < 0.03 else (2 if r < 0.08 else rng.randint(3, nfmax))
    fk, f = B.gen_freq(rng, nf)
    layout = rng.choice(["none", "none", "time", "time", "time_lat"])
    npts = 1 if layout == "none" else (rng.randint(1, maxpts) if layout == "time" else rng.choice([2, 4, 6, 8][:max(1, maxpts // 2)]))
    pts = [gen_1d_point(rng, f) for _ in range(npts)]
    if npts == 1 and rng.random() < 0.05:
        k, p, fl = pts[0]
        p["e"] = [NAN] * nf
        pts[0] = (k, p, fl + ["all_nan_e"])
    bands = B.gen_bands(rng, f, nbands)
    case = {"op": "spec1d", "f": B.hexrow(f), "layout": layout,
            "pts": [{k: B.hexrow(v) for k, v in p.items()} for (_, p, _) in pts],
            "bands": [[C.fx(b[0]), C.fx(b[1])] for b in bands]}
    return {"f": f, "layout": layout, "pts": pts, "bands": bands, "case": case}


def replay_1d(b, p, band=None):
    k, pt, fl = b["pts"][p]
    rep = {"op": "FrequencySpectrum", "frequency": b["f"], "layout": b["layout"], "point_index": p,
           "number_of_points_in_batch": len(b["pts"])}
    for kk, v in pt.items():
        rep[{"e": "variance_density"}.get(kk, kk)] = [None if isnan(x) else x for x in v]
    if band is not None:
        rep["band"] = list(band)
    return rep


def trapz(xs, ys):
    return sum((xs[i + 1] - xs[i]) * (ys[i] + ys[i + 1]) / 2.0 for i in range(len(xs) - 1))


def ref_weighted(f, e, p, lo, hi):
    """the definition, in plain python: trapezoid(fill0(p)*e over band)/m0(band); NaN rules as in the property's code"""
    idx = [i for i, v in enumerate(f) if v >= lo and v < hi]
    if any(isnan(e[i]) for i in idx):
        return NAN
    fs = [f[i] for i in idx]
    m0 = trapz(fs, [e[i] for i in idx])
    if m0 == 0:
        return NAN
    return trapz(fs, [(0.0 if isnan(p[i]) else p[i]) * e[i] for i in idx]) / m0


def def_oracles(ctx, f, e, a1, b1, ib, lo, hi, rep, valid_moments):
    """the statement of the property evaluated on the implementation's own numbers"""
    # band averages follow the definition
    for k, p in (("ma1", a1), ("mb1", b1)):
        want = ref_weighted(f, e, p, lo, hi)
        got = ib[k]
        if fin(want) != fin(got) or (fin(want) and abs(want - got) > 1e-9 * (1 + abs(want))):
            ctx.oracle_fail("%s = %r is not the energy-weighted band average %r" % ({"ma1": "mean_a1", "mb1": "mean_b1"}[k], got, want), rep)
            return False
    A, Bv = ib["ma1"], ib["mb1"]
    if fin(A) and fin(Bv):
        R = math.hypot(A, Bv)
        if R >= 1e-3:
            want = math.degrees(math.atan2(Bv, A))
            if not fin(ib["mdir"]) or not B.dir_close(ib["mdir"], want):
                ctx.oracle_fail("mean_direction = %r but atan2(B, A) = %r degrees (A=%r, B=%r)" % (ib["mdir"], want, A, Bv), rep)
                return False
            if not (-180.0 - 1e-9 <= ib["mdir"] <= 180.0 + 1e-9):
                ctx.oracle_fail("mean_direction %r outside [-180, 180]" % ib["mdir"], rep)
                return False
        q = 2 - 2 * math.sqrt(A * A + Bv * Bv)
        if q >= 1e-7:
            want = math.degrees(math.sqrt(q))
            if not fin(ib["mspr"]) or not B.spread_close(ib["mspr"], want)[0]:
                ctx.oracle_fail("mean_directional_spread = %r but sqrt(2 - 2 sqrt(A^2+B^2)) = %r degrees" % (ib["mspr"], want), rep)
                return False
        if valid_moments and fin(ib["mspr"]) and not (0.0 <= ib["mspr"] <= 81.03):
            ctx.oracle_fail("mean_directional_spread %r outside [0, 81.03]" % ib["mspr"], rep)
            return False
    # peak variants use the moments at the peak frequency
    if fin(ib["pidx"]):
        p = int(ib["pidx"])
        if 0 <= p < len(a1) and fin(a1[p]) and fin(b1[p]):
            if math.hypot(a1[p], b1[p]) >= 1e-3:
                want = math.degrees(math.atan2(b1[p], a1[p]))
                if not fin(ib["pdir"]) or not B.dir_close(ib["pdir"], want):
                    ctx.oracle_fail("peak_direction = %r but atan2(b1, a1) at the peak frequency = %r" % (ib["pdir"], want), rep)
                    return False
            q = 2 - 2 * math.hypot(a1[p], b1[p])
            if q >= 1e-7:
                want = math.degrees(math.sqrt(q))
                if not fin(ib["pspr"]) or not B.spread_close(ib["pspr"], want)[0]:
                    ctx.oracle_fail("peak_directional_spread = %r but the definition gives %r" % (ib["pspr"], want), rep)
                    return False
    return True


def per_frequency_oracle(ctx, a1, b1, dirpf, sprpf, rep):
    for i in range(len(a1)):
        if fin(a1[i]) and fin(b1[i]):
            if math.hypot(a1[i], b1[i]) >= 1e-3:
                want = math.degrees(math.atan2(b1[i], a1[i]))
                if not fin(dirpf[i]) or not B.dir_close(dirpf[i], want) or abs(dirpf[i]) > 180 + 1e-9:
                    ctx.oracle_fail("mean_direction_per_frequency[%d] = %r, definition %r" % (i, dirpf[i], want), rep)
                    return False
            q = 2 - 2 * math.hypot(a1[i], b1[i])
            if q >= 1e-7:
                want = math.degrees(math.sqrt(q))
                if not fin(sprpf[i]) or not B.spread_close(sprpf[i], want)[0] or not (0 <= sprpf[i] <= 81.03):
                    ctx.oracle_fail("mean_spread_per_frequency[%d] = %r, definition %r" % (i, sprpf[i], want), rep)
                    return False
        elif fin(dirpf[i]) or fin(sprpf[i]):
            ctx.oracle_fail("per-frequency direction/spread is finite where a1/b1 is NaN (index %d)" % i, rep)
            return False
    return True


def compare_pf(ctx, a1, b1, md, ms, idr, isp, fail):
    for i in range(len(a1)):
        if not B.same_missing(idr[i], md[i]):
            fail("mean_direction_per_frequency[%d] impl %r model %r" % (i, idr[i], md[i]))
            return False
        if fin(md[i]):
            if fin(a1[i]) and fin(b1[i]) and math.hypot(a1[i], b1[i]) >= 1e-3:
                if not B.dir_close(idr[i], md[i]):
                    fail("mean_direction_per_frequency[%d] impl %r model %r" % (i, idr[i], md[i]))
                    return False
            else:
                ctx.tally("skipped:direction-of-near-zero-vector")
        okq, note = B.spread_close(isp[i], ms[i])
        if note:
            ctx.tally("skipped:" + note)
        if not okq:
            fail("mean_spread_per_frequency[%d] impl %r model %r" % (i, isp[i], ms[i]))
            return False
    return True


# ------------------------------------------------------------------------------------------
def pick_variants(rng, n, quick):
    ks = {1, n - 1, rng.randrange(n), rng.randrange(n), n // 2}
    if not quick:
        if n <= 16:
            ks = set(range(n))
        else:
            ks |= {rng.randrange(n) for _ in range(8)} | {0, n // 4}
    v = [{"rot": k} for k in sorted(ks)]
    v.append({"mirror": "plain"})
    v.append({"mirror": "mod"})
    return v


def rot(al, a, b):
    c, s = math.cos(math.radians(al)), math.sin(math.radians(al))
    return a * c - b * s, a * s + b * c


def check_variant(ctx, b, p, v, res0, vres, iv, rep, scales):
    """relation between the implementation on the original sea and on the rotated / mirrored sea"""
    g = b["grid"]
    f = b["f"]
    nf = len(f)
    n = g["n"]
    if "rot" in v:
        al = v["rot"] * 360.0 / n
        what = "rotation by %d bins (%.6g deg)" % (v["rot"], al)
        tr1 = lambda a, bb: rot(al, a, bb)
        tr2 = lambda a, bb: rot(2 * al, a, bb)
        trd = lambda d: d + al
    else:
        what = "mirror image (%s grid)" % v["mirror"]
        tr1 = tr2 = lambda a, bb: (a, -bb)
        trd = lambda d: -d
    rep = dict(rep, variant=v)

    def fail(desc):
        ctx.oracle_fail("%s: %s" % (what, desc), rep)
        return False
    e1 = B.unh(vres["e"][p])
    for i in range(nf):
        if not C.close(e1[i], iv["e"][i], 1e-9, 1e-300, scales[i]):
            return fail("e(f)[%d] changed from %r to %r" % (i, iv["e"][i], e1[i]))
    va = {k: B.unh(vres[k][p]) for k in ("a1", "b1", "a2", "b2", "dirpf", "sprpf")}
    for i in range(nf):
        tol = 1e-9 * (scales[i] / abs(iv["e"][i]) if iv["e"][i] != 0 else 1.0) + 1e-12
        for (ka, kb, tr) in (("a1", "b1", tr1), ("a2", "b2", tr2)):
            a, bb = iv[ka][i], iv[kb][i]
            a_, b_ = va[ka][i], va[kb][i]
            if not (fin(a) and fin(bb)):
                if fin(a_) or fin(b_):
                    return fail("%s/%s[%d] became finite" % (ka, kb, i))
                continue
            wa, wb = tr(a, bb)
            if not (fin(a_) and fin(b_)) or abs(a_ - wa) > tol or abs(b_ - wb) > tol:
                return fail("(%s,%s)[%d] = (%r,%r), expected the transformed pair (%r,%r)" % (ka, kb, i, a_, b_, wa, wb))
        a, bb = iv["a1"][i], iv["b1"][i]
        if fin(a) and fin(bb):
            if math.hypot(a, bb) >= 1e-3:
                if not fin(va["dirpf"][i]) or not B.dir_close(va["dirpf"][i], trd(iv["dirpf"][i])):
                    return fail("mean_direction_per_frequency[%d]: %r -> %r, expected %r (mod 360)" % (i, iv["dirpf"][i], va["dirpf"][i], trd(iv["dirpf"][i])))
            okq, _ = B.spread_close(va["sprpf"][i], iv["sprpf"][i])
            if not okq:
                return fail("mean_spread_per_frequency[%d] changed: %r -> %r" % (i, iv["sprpf"][i], va["sprpf"][i]))
    for bi, (lo, hi, bk) in enumerate(b["bands"]):
        o, eo = B.bulk_at(res0["bulk2d"][bi], p)
        w, ew = B.bulk_at(vres["bulk2d"][bi], p)
        if eo or ew:
            return fail("bulk parameter raised %s" % (eo or ew))
        rb = dict(rep, band=[lo, hi])
        idx, sc, m0ref = B.band_info(f, iv["e"], lo, hi)
        A, Bv = o["ma1"], o["mb1"]
        nontriv = len(idx) >= 2 and m0ref > 0 and fin(A) and fin(Bv) and math.hypot(A, Bv) >= 1e-3
        ctx.count([f[:4], g["th"][:4], iv["e"][:6], lo, hi, p, v], nontriv)
        ctx.tally("variant:" + ("rot" if "rot" in v else "mirror-" + v["mirror"]))

        def failb(desc):
            ctx.oracle_fail("%s, band [%r,%r): %s" % (what, lo, hi, desc), rb)
            return False
        if not C.close(w["m0"], o["m0"], 1e-9, 1e-300, sc):
            return failb("m0 changed %r -> %r" % (o["m0"], w["m0"]))
        for k in ("hm0", "tm01", "tm02"):
            if fin(o[k]) != fin(w[k]) or (fin(o[k]) and not C.close(o[k], w[k], 1e-8, 0.0)):
                return failb("%s changed %r -> %r" % (k, o[k], w[k]))
        peak_same = True
        if int(o["pidx"]) != int(w["pidx"]):
            ei, ej = iv["e"][int(o["pidx"])], iv["e"][int(w["pidx"])]
            if abs(ei - ej) <= 1e-11 * max(abs(ei), abs(ej)):
                ctx.tally("skipped:peak-near-tie")
                peak_same = False
            else:
                return failb("peak index changed %r -> %r" % (o["pidx"], w["pidx"]))
        elif o["pfreq"] != w["pfreq"]:
            return failb("peak frequency changed %r -> %r" % (o["pfreq"], w["pfreq"]))
        for (ka, kb, tr) in (("ma1", "mb1", tr1), ("ma2", "mb2", tr2)):
            if fin(o[ka]) and fin(o[kb]):
                wa, wb = tr(o[ka], o[kb])
                if not (fin(w[ka]) and fin(w[kb])) or abs(w[ka] - wa) > 1e-9 or abs(w[kb] - wb) > 1e-9:
                    return failb("(%s,%s) = (%r,%r), expected the transformed pair (%r,%r)" % (ka, kb, w[ka], w[kb], wa, wb))
            elif fin(w[ka]) or fin(w[kb]):
                return failb("%s/%s became finite" % (ka, kb))
        if fin(A) and fin(Bv):
            if math.hypot(A, Bv) >= 1e-3:
                if not fin(w["mdir"]) or not B.dir_close(w["mdir"], trd(o["mdir"])):
                    return failb("mean_direction %r -> %r, expected %r (mod 360)" % (o["mdir"], w["mdir"], trd(o["mdir"])))
            else:
                ctx.tally("skipped:direction-of-near-zero-vector")
            if not B.spread_close(w["mspr"], o["mspr"])[0]:
                return failb("mean_directional_spread changed %r -> %r" % (o["mspr"], w["mspr"]))
        if peak_same:
            pi_ = int(o["pidx"])
            a, bb = iv["a1"][pi_], iv["b1"][pi_]
            if fin(a) and fin(bb):
                if math.hypot(a, bb) >= 1e-3:
                    if not fin(w["pdir"]) or not B.dir_close(w["pdir"], trd(o["pdir"])):
                        return failb("peak_direction %r -> %r, expected %r (mod 360)" % (o["pdir"], w["pdir"], trd(o["pdir"])))
                if not B.spread_close(w["pspr"], o["pspr"])[0]:
                    return failb("peak_directional_spread changed %r -> %r" % (o["pspr"], w["pspr"]))
    return True


# ------------------------------------------------------------------------------------------
def run(ctx, fixed=None):
    _run_main(ctx, fixed)
    if fixed is None:
        import reuse_common
        reuse_common.reuse_check(ctx, "C03")


def _run_main(ctx, fixed=None):
    rng = ctx.rng
    quick = ctx.quick()
    # ---------------- stream 1: 1D spectra with given moments
    n1 = ctx.n(90, 1400)
    b1s = [build_1d_case(rng, nbands=3, maxpts=6 if quick else 8, nfmax=20 if quick else 30) for _ in range(n1)]
    if fixed is not None:
        b1s = fixed[0]
    # ---------------- stream 2: 2D spectra on uniform grids with rotated / mirrored variants
    n2 = ctx.n(18, 130)
    b2s = []
    for _ in range(n2):
        g_n = rng.choice([8, 8, 12, 16, 24, 36, 36, 48, 72, 144]) if rng.random() < 0.75 else rng.randint(8, 144)
        bb = None
        while bb is None or bb["grid"]["n"] != g_n:
            bb = B.build_2d_case(rng, uniform_only=True, maxpts=4, nbands=2, nfmax=12 if quick else 20, nmax=g_n)
        bb["case"]["variants"] = pick_variants(rng, g_n, quick)
        bb["case"]["extra"] = False
        b2s.append(bb)
    # ---------------- stream 3: 2D spectra on any grid (directions of non-uniform grids: definitions only)
    n3 = ctx.n(20, 300)
    b3s = [B.build_2d_case(rng, nbands=3, maxpts=4, nfmax=16 if quick else 24) for _ in range(n3)]
    if fixed is not None:
        b2s, b3s = fixed[1], []
    cases = [b["case"] for b in b1s] + [b["case"] for b in b2s] + [b["case"] for b in b3s]
    import time as _t
    t0 = _t.time()
    impl = ctx.impl("C03.py", {"cases": cases})["results"]
    t1 = _t.time()
    mlines = []
    for b in b1s:
        for (_, pt, _) in b["pts"]:
            mlines.append(B.model_line_1d(b["f"], pt, b["bands"]))
    for b in b2s + b3s:
        for (_, E, _) in b["pts"]:
            mlines.append(B.model_line_2d(b["f"], b["grid"]["th"], E, b["bands"]))
    mod = ctx.model(mlines)
    ctx.extra["timing_s"] = {"implementation": round(t1 - t0, 1), "model": round(_t.time() - t1, 1)}
    mi = 0
    # ---- stream 1
    for ci, b in enumerate(b1s):
        res = impl[ci]
        f = b["f"]
        nb = len(b["bands"])
        ctx.tally("1d-layout:" + b["layout"])
        mall = []
        for _ in b["pts"]:
            mall.append(B.parse_1d(mod[mi], nb))
            mi += 1
        for p, (kind, pt, flags) in enumerate(b["pts"]):
            m = mall[p]
            rep = replay_1d(b, p)
            ctx.tally("1d-moments:" + kind)
            for fl in flags:
                ctx.tally("1d-flag:" + fl)
            if B.err_of(res):
                ctx.oracle_fail("building the 1D spectrum raised %s" % res, rep)
                continue
            if B.err_of(res["dirpf"]) or B.err_of(res["sprpf"]):
                ctx.oracle_fail("per-frequency direction raised %s" % res["dirpf"], rep)
                continue
            idr, isp = B.unh(res["dirpf"][p]), B.unh(res["sprpf"][p])
            okp = compare_pf(ctx, pt["a1"], pt["b1"], m["dirpf"], m["sprpf"], idr, isp,
                             lambda d: ctx.disagree(d, rep, is_property_failure=True))
            if okp:
                per_frequency_oracle(ctx, pt["a1"], pt["b1"], idr, isp, rep)
            for bi, (lo, hi, bk) in enumerate(b["bands"]):
                ib, errs = B.bulk_at(res["bulk1d"][bi], p)
                mb = m["bulk"][bi]
                rb = replay_1d(b, p, (lo, hi))
                idx, sc, m0ref = B.band_info(f, pt["e"], lo, hi)
                A, Bv = mb["ma1"], mb["mb1"]
                ctx.count([f, pt["e"], pt["a1"], lo, hi], len(idx) >= 2 and m0ref > 0 and fin(A) and fin(Bv) and math.hypot(A, Bv) >= 1e-3)
                ctx.tally("band:" + bk)
                if errs:
                    peak_keys = {"pidx", "pfreq", "pdir", "pspr"}
                    # xarray's argmax raises for the whole batch when one member is all-NaN (outside the premise of
                    # the property; DESIGN section 6, C04): accepted exactly when the model has no peak for a member
                    if (set(errs) <= peak_keys and any(isnan(mm["bulk"][bi]["pidx"]) for mm in mall)
                            and all(e_["error"] == "ValueError" for e_ in errs.values())):
                        ctx.tally("1d-edge:all-NaN-energy-raises-in-argmax")
                        for k in peak_keys:
                            ib[k] = NAN
                            mb = dict(mb)
                            mb[k] = NAN
                    else:
                        ctx.oracle_fail("bulk parameter raised %s" % errs, rb)
                        continue
                # a NaN energy inside the band of a 1D spectrum is outside the quantifier of the property (the code
                # returns NaN band means there, the model too); the band means are then not compared, only counted
                nan_e = any(isnan(pt["e"][i]) for i in idx)
                if nan_e:
                    ctx.tally("1d-edge:NaN-energy-in-band:band-means-%s" % ("NaN" if isnan(ib["ma1"]) else "finite"))
                ok = B.compare_bulk(ctx, "1D spectrum", f, pt["e"], mb, ib, lo, hi, rb,
                                    lambda d, rb=rb: ctx.disagree(d, rb, is_property_failure=True), a1=pt["a1"], b1=pt["b1"],
                                    skip_means=nan_e)
                if ok and not nan_e:
                    valid = all((not fin(x)) or (not fin(y)) or x * x + y * y <= 1 for x, y in zip(pt["a1"], pt["b1"]))
                    def_oracles(ctx, f, pt["e"], pt["a1"], pt["b1"], ib, lo, hi, rb, valid)
            if ci < 2 and p == 0:
                ctx.sample({"1d": {"nfreq": len(f), "layout": b["layout"], "moments": kind,
                                   "mean_direction impl/model": [B.bulk_at(res["bulk1d"][0], 0)[0]["mdir"], m["bulk"][0]["mdir"]],
                                   "mean_spread impl/model": [B.bulk_at(res["bulk1d"][0], 0)[0]["mspr"], m["bulk"][0]["mspr"]]}})
    # ---- streams 2 and 3
    for k2, b in enumerate(b2s + b3s):
        res = impl[len(b1s) + k2]
        g = b["grid"]
        f, th = b["f"], g["th"]
        nb = len(b["bands"])
        mpts = []
        for _ in b["pts"]:
            mpts.append(B.parse_2d(mod[mi], nb))
            mi += 1
        ctx.tally("2d-grid:" + g["kind"])
        ctx.tally("2d-layout:" + b["layout"])
        ctx.tally("2d-ndir:%s" % ("8-16" if g["n"] <= 16 else "17-48" if g["n"] <= 48 else "49-144"))
        if B.err_of(res) or any(B.err_of(res[k]) for k in ("e", "a1", "b1", "a2", "b2", "dirpf", "sprpf")):
            ctx.oracle_fail("evaluating the 2D spectrum raised %s" % (res if B.err_of(res) else "a spectral property"), B.replay_of(b))
            continue
        st_r = B.ref_steps(th)
        for p, (dk, E, flags) in enumerate(b["pts"]):
            m = mpts[p]
            rep = B.replay_of(b, p)
            iv = {k: B.unh(res[k][p]) for k in ("e", "a1", "b1", "a2", "b2", "dirpf", "sprpf")}
            scales = [B.ref_row(E[i], th, st_r)["scale"] for i in range(len(f))]
            # the moments the directions are computed from must be the model's (C02); stop here if not
            okm = True
            for i in range(len(f)):
                for k in ("a1", "b1"):
                    if not B.same_missing(iv[k][i], m[k][i]) or (fin(m[k][i]) and abs(iv[k][i] - m[k][i]) > 1e-9 * (scales[i] / abs(m["e"][i])) + 1e-12):
                        okm = False
            if not okm:
                ctx.disagree("a1/b1 of the 2D spectrum differ from the model (see C02)", rep, is_property_failure=True)
                continue
            okp = compare_pf(ctx, m["a1"], m["b1"], m["dirpf"], m["sprpf"], iv["dirpf"], iv["sprpf"],
                             lambda d: ctx.disagree(d, rep, is_property_failure=True))
            if okp:
                per_frequency_oracle(ctx, iv["a1"], iv["b1"], iv["dirpf"], iv["sprpf"], rep)
            allok = okp
            for bi, (lo, hi, bk) in enumerate(b["bands"]):
                ib, errs = B.bulk_at(res["bulk2d"][bi], p)
                rb = dict(rep, band=[lo, hi])
                idx, sc, m0ref = B.band_info(f, m["e"], lo, hi)
                A, Bv = m["bulk"][bi]["ma1"], m["bulk"][bi]["mb1"]
                ctx.count([f[:4], th[:4], m["e"][:6], lo, hi, p], len(idx) >= 2 and m0ref > 0 and fin(A) and fin(Bv) and math.hypot(A, Bv) >= 1e-3)
                ctx.tally("band:" + bk)
                if errs:
                    ctx.oracle_fail("bulk parameter raised %s" % errs, rb)
                    allok = False
                    continue
                ok = B.compare_bulk(ctx, "2D spectrum", f, m["e"], m["bulk"][bi], ib, lo, hi, rb,
                                    lambda d, rb=rb: ctx.disagree(d, rb, is_property_failure=True), a1=m["a1"], b1=m["b1"])
                if ok:
                    ok = def_oracles(ctx, f, iv["e"], iv["a1"], iv["b1"], ib, lo, hi, rb, True)
                allok = allok and ok
            # rotated and mirrored seas (uniform grids only)
            if allok and b["case"]["variants"]:
                for vi, v in enumerate(b["case"]["variants"]):
                    vres = res["variants"][vi]
                    if B.err_of(vres):
                        ctx.oracle_fail("evaluating the transformed sea raised %s" % vres, dict(rep, variant=v))
                        break
                    if not check_variant(ctx, b, p, v, res, vres, iv, rep, scales):
                        break
            if k2 < 1 and p == 0:
                ctx.sample({"2d": {"grid": g["kind"], "ndir": g["n"], "layout": b["layout"], "density": dk,
                                   "variants": [str(v) for v in b["case"]["variants"]][:8],
                                   "mean_direction impl/model": [B.bulk_at(res["bulk2d"][0], 0)[0]["mdir"], m["bulk"][0]["mdir"]]}})


def replay(ctx, obj):
    """--replay FILE: re-evaluate one recorded input (single point)"""
    inp = obj.get("input", obj)
    op = inp.get("op")
    if op == "FrequencySpectrum":
        f = [float(v) for v in inp["frequency"]]
        pt = {k: [NAN if v is None else float(v) for v in inp[{"e": "variance_density"}.get(k, k)]] for k in ("e", "a1", "b1", "a2", "b2")}
        bands = [(0.0, INF, "default")]
        if inp.get("band"):
            bands.append((float(inp["band"][0]), float(inp["band"][1]), "replay"))
        case = {"op": "spec1d", "f": B.hexrow(f), "layout": "none", "pts": [{k: B.hexrow(v) for k, v in pt.items()}],
                "bands": [[C.fx(b[0]), C.fx(b[1])] for b in bands]}
        run(ctx, fixed=([{"f": f, "layout": "none", "pts": [("replay", pt, [])], "bands": bands, "case": case}], []))
    elif op == "FrequencyDirectionSpectrum":
        v = inp.get("variant")
        b = B.build_from_replay(inp, variants=[v] if v else [])
        if not v and b["grid"]["uniform"]:
            b["case"]["variants"] = [{"rot": 1}, {"rot": b["grid"]["n"] // 3}, {"mirror": "plain"}]
        b["case"]["extra"] = False
        run(ctx, fixed=([], [b]))
    else:
        print("replay: unknown input kind %r" % op)


READY = True
LEVEL_TEXT = ("Theorems (Coq, all sizes): atan2 (built from atan by quadrant) is the polar angle in (-pi, pi]; mean/peak/per-frequency direction "
              "and spread are atan2(B,A) and sqrt(2-2 sqrt(A^2+B^2)) in degrees of the energy-weighted band averages (peak variants: moments at "
              "the peak index); directions lie in (-180,180] for a non-zero vector, spreads in [0, sqrt2*180/pi] (< 81.03, from Machin's formula and the alternating series of atan) when "
              "A^2+B^2 <= 1; on every uniform grid (any start angle, stored modulo 360 or not, any N with |360/N| < 180) and every k <= N, rotating "
              "the density by k bins leaves e(f), m0, Hm0, Tm01, Tm02, peak index/frequency and all spreads unchanged, rotates (a1,b1) and the band "
              "means by alpha = k*360/N and (a2,b2) by 2 alpha, and shifts every direction (per frequency, peak, band mean) by alpha in vector form "
              "(equal cosine and sine, shown equivalent to congruence modulo 360); the mirror image keeps a1,a2 and negates b1,b2 and every direction. "
              "The model is tied to spectrum.py by the extracted-model correspondence on 1D spectra with given moments and on 2D spectra, and the "
              "rotation / mirror relations are re-evaluated on the implementation for sampled (quick) or all (thorough, N <= 16; 13 sampled k above) k.")
LEVEL_NOTE = ("Direction statements carry the premise that the moment vector is not (0,0) (atan2(0,0)=0 does not rotate). Rotation/mirror theorems "
              "are about 2D spectra (1D spectra have no direction axis to rotate). Float rounding, numpy.arctan2 and xarray's vectorised "
              "indexing at the peak are validated by execution only.")
TECHNIQUE = "Coq proof (cyclic re-indexing + angle addition, atan2 by quadrant, Machin bound for PI) + extracted-model correspondence + relation oracles on the implementation"
DESIGN_REF = "DESIGN.md section 5 C03"
