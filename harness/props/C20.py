"""C20 time integration: stencils (exact rationals from the Coq model) and integrate()."""
from fractions import Fraction
import math

import common as C

RULE = ("stencil cases: every (order 1..8, n 1..order) compared against the exact rationals of the Coq model; "
        "signal cases: (time grid kind, signal kind, length, order, n, start) drawn from one PRNG; "
        "non-trivial = length >= order+3 and signal not identically zero; distinct by full input hash")
ASSUMPTIONS = ["floating point rounding is not modelled (comparison at 1e-9 relative to sum|x|*dt)",
               "numba compilation of integrate() is trusted to implement the Python semantics"]


def pregen(ctx):
    """regenerate coq/Generated/StencilProg.v from the current source (fail-closed translator)"""
    import sys, os
    sys.path.insert(0, os.path.join(C.VERIF, "harness"))
    import translate_kernel
    translate_kernel.generate(C.REPO, C.COQ)


def gen_grid(rng, n):
    kind = rng.choice(["uniform", "uniform", "jitter1", "jitterN", "gap", "random", "small_jitter", "int", "int"])
    if kind == "int":
        # whole seconds, handed to integrate() as an INTEGER array (epoch seconds are integers): the result
        # takes its type from the signal, never from the time axis
        h = rng.choice([1, 1, 2, 5])
        t = [rng.randint(-1000, 1000)]
        for i in range(1, n):
            t.append(t[-1] + (h if rng.random() < 0.9 else h * rng.choice([2, 3])))
        return kind, [float(v) for v in t]
    h = C.dyadic(rng, 0.05, 2.0, 8)
    t = [0.0]
    for i in range(1, n):
        dt = h
        if kind == "jitter1" and i == n // 2:
            dt = h * 1.5
        elif kind == "jitterN" and rng.random() < 0.15:
            dt = h * rng.choice([0.5, 1.25, 2.0, 1.03125])
        elif kind == "gap" and rng.random() < 0.03:
            dt = h * rng.choice([5, 10])
        elif kind == "random":
            dt = C.dyadic(rng, 0.05, 2.0, 8)
        elif kind == "gap" and rng.random() < 0.02:
            dt = 0.0                                     # a repeated time stamp (duplicated telemetry sample)
        elif kind == "small_jitter" and rng.random() < 0.3:
            dt = h * (1 + rng.choice([-1, 1]) / 256.0)   # 0.39 % < 1 %: must be ignored
        t.append(t[-1] + dt)
    t0 = C.dyadic(rng, -100, 100, 8)
    return kind, [t0 + v for v in t]


def gen_signal(rng, t):
    kind = rng.choice(["poly", "poly", "random", "const", "sine"])
    if kind == "poly":
        deg = rng.randint(0, 5)
        co = [C.dyadic(rng, -2, 2, 6) for _ in range(deg + 1)]
        tm = t[0]
        x = [sum(c * (v - tm) ** k for k, c in enumerate(co)) for v in t]
        return "poly%d" % deg, x
    if kind == "random":
        return kind, [C.dyadic(rng, -5, 5, 12) for _ in t]
    if kind == "const":
        c = C.dyadic(rng, -3, 3, 6)
        return kind, [c for _ in t]
    w = rng.uniform(0.1, 3)
    return kind, [math.sin(w * v) for v in t]


def run(ctx):
    rng = ctx.rng
    # ---------------- stencils: exhaustive over the finite table
    cases = []
    mlines = []
    for order in range(1, 9):
        for n in range(1, order + 1):
            cases.append({"op": "stencil", "order": order, "n": n})
            mlines.append("stencil %d %d" % (order, n))
    nsig = ctx.n(150, 4000)
    maxlen = ctx.n(400, 2000)
    sig = []
    for i in range(nsig):
        r = rng.random()
        ln = rng.randint(2, 12) if r < 0.25 else (rng.randint(13, 80) if r < 0.8 else rng.randint(81, maxlen))
        if rng.random() < 0.5:
            order, n = 4, 1
        else:
            order = rng.randint(1, 8)
            n = rng.randint(1, order)
        gk, t = gen_grid(rng, ln)
        sk, x = gen_signal(rng, t)
        start = rng.choice([0.0, 0.0, C.dyadic(rng, -10, 10, 8)])
        sig.append((gk, sk, t, x, order, n, start))
        cases.append({"op": "integrate", "order": order, "n": n, "start": C.fx(start),
                      "t": [C.fx(v) for v in t], "x": [C.fx(v) for v in x],
                      "tdtype": rng.choice(["int64", "int64", "int32", "float"]) if gk == "int" else "float"})
        mlines.append("integrate %d %d %s %s %s" % (order, n, C.fx(start), C.flist(t), C.flist(x)))
        mlines.append("choices %d %d %s" % (order, n, C.flist(t)))
    impl = ctx.impl("C20.py", {"cases": cases})["results"]
    mod = ctx.model(mlines)

    # ---- stencils
    k = 0
    for order in range(1, 9):
        for n in range(1, order + 1):
            m = mod[k]
            im = impl[k]
            k += 1
            exact = [Fraction(int(m[1 + 2 * i]), int(m[2 + 2 * i])) for i in range(int(m[0]))]
            ctx.count("stencil-%d-%d" % (order, n))
            ctx.tally("stencil")
            rep = {"op": "integration_stencil", "order": order, "n": n,
                   "model_exact": [str(q) for q in exact], "impl": im}
            if isinstance(im, dict):
                ctx.oracle_fail("integration_stencil(%d,%d) raised %s" % (order, n, im), rep, key="stencil-raises")
                continue
            got = [C.unfx(v) for v in im]
            tol = 1e-13 * (10 ** order)    # the code sums float polynomials in x**order
            if len(got) != len(exact) or any(abs(g - float(e)) > tol for g, e in zip(got, exact)):
                ctx.disagree("integration_stencil(%d,%d) differs from the exact Lagrange integrals" % (order, n),
                             rep, is_property_failure=True)
            # oracle on the implementation alone: weights sum to one, exact on monomials
            if abs(sum(got) - 1) > tol * order:
                ctx.oracle_fail("stencil(%d,%d) weights sum to %r" % (order, n, sum(got)), rep)
            for d in range(order):
                pos = [i - (order - n) for i in range(order)]
                lhs = sum(g * (p ** d) for g, p in zip(got, pos))
                rhs = float(Fraction((-1) ** d, d + 1))
                if abs(lhs - rhs) > tol * (order ** d + 1) * order:
                    ctx.oracle_fail("stencil(%d,%d) not exact on x^%d: %r vs %r" % (order, n, d, lhs, rhs), rep)
                    break
    ctx.sample({"stencil(4,1) exact": mod[0 + sum(range(1, 4))][1:]})

    # ---- signals
    for i, (gk, sk, t, x, order, n, start) in enumerate(sig):
        im = impl[k + i]
        mo = mod[k + 2 * i]
        ch = mod[k + 2 * i + 1]
        ln = len(t)
        nontriv = ln >= order + 3 and any(v != 0 for v in x)
        ctx.count([t[:50], x[:50], order, n, start, ln], nontriv)
        ctx.tally("grid:" + gk); ctx.tally("signal:" + sk)
        ctx.tally("len<=12" if ln <= 12 else ("len<=80" if ln <= 80 else "len>80"))
        rep = {"op": "integrate", "order": order, "n": n, "start": start, "time": t, "signal": x,
               "grid_kind": gk, "signal_kind": sk}
        if isinstance(im, dict):
            ctx.oracle_fail("integrate raised %s" % im, rep, key="integrate-raises")
            continue
        got = [C.unfx(v) for v in im]
        want = [C.unfx(v) for v in mo[1:]]
        scale = abs(start) + sum(abs(a) for a in x) * max(b - a for a, b in zip(t, t[1:]))
        if i < 2:
            ctx.sample({"integrate": {"order": order, "n": n, "start": start, "len": ln, "grid": gk, "signal": sk,
                                      "impl_tail": got[-2:], "model_tail": want[-2:]}})
        if len(got) != len(want):
            ctx.disagree("integrate: output length %d, model %d" % (len(got), len(want)), rep, is_property_failure=True)
            continue
        bad = [j for j in range(ln) if not C.close(got[j], want[j], 1e-9, 1e-12, scale)]
        if bad:
            j = bad[0]
            rep["first_bad_index"] = j
            rep["impl"] = got[max(0, j - 2):j + 3]
            rep["model"] = want[max(0, j - 2):j + 3]
            ctx.disagree("integrate differs from the specified scheme at index %d: impl %r model %r" % (j, got[j], want[j]),
                         rep, is_property_failure=True)
        # -------- oracles on the implementation alone
        if got[0] != start:
            ctx.oracle_fail("integrate does not start at start_value: out[0]=%r start=%r" % (got[0], start), rep,
                            key="start-value")
        use_primary = [c == "T" for c in ch[1:]]
        for ii in range(1, ln):
            dt = t[ii] - t[ii - 1]
            inc = got[ii] - got[ii - 1]
            if not use_primary[ii - 1]:
                trap = 0.5 * (x[ii - 1] + x[ii]) * dt
                if not C.close(inc, trap, 1e-9, 1e-12, scale):
                    ctx.oracle_fail("trapezoid expected at index %d (jitter/ends): increment %r vs %r" % (ii, inc, trap), rep)
                    break
            elif order == 4 and sk.startswith("poly") and int(sk[4:]) <= 3 and gk in ("uniform",):
                # exact integral of the cubic over [t[ii-1], t[ii]] by Simpson (exact for cubics)
                # x is sampled from the polynomial; recover the midpoint value via the polynomial is
                # not available here, so use the 4-point stencil itself in exact arithmetic
                pass
    # cubic exactness on the implementation with an independent exact integral
    cub_cases = []
    cubs = []
    for j in range(ctx.n(20, 300)):
        ln = rng.randint(8, 60)
        h = C.dyadic(rng, 0.125, 2, 4)
        t0 = float(rng.randint(-8, 8))
        co = [float(rng.randint(-4, 4)) for _ in range(4)]
        t = [t0 + i * h for i in range(ln)]
        x = [sum(c * (v ** k) for k, c in enumerate(co)) for v in t]
        n = rng.randint(1, 4)
        cubs.append((t, x, co, n, h))
        cub_cases.append({"op": "integrate", "order": 4, "n": n, "start": C.fx(0.0),
                          "t": [C.fx(v) for v in t], "x": [C.fx(v) for v in x]})
    cimpl = ctx.impl("C20.py", {"cases": cub_cases})["results"]
    for (t, x, co, n, h), im in zip(cubs, cimpl):
        ctx.count(["cubic", t[:3], co, n])
        ctx.tally("cubic-exactness")
        rep = {"op": "integrate", "order": 4, "n": n, "start": 0.0, "time": t, "signal": x, "cubic_coefficients": co}
        if isinstance(im, dict):
            ctx.oracle_fail("integrate raised %s" % im, rep, key="integrate-raises")
            continue
        got = [C.unfx(v) for v in im]
        P = lambda v: sum(Fraction(c) * Fraction(v) ** (k + 1) / (k + 1) for k, c in enumerate(co))
        ln = len(t)
        for ii in range(5, ln - n + 1):      # steps that use the primary stencil
            inc = got[ii] - got[ii - 1]
            ex = float(P(t[ii]) - P(t[ii - 1]))
            sc = sum(abs(c) * abs(t[ii]) ** (k + 1) for k, c in enumerate(co)) + abs(got[ii])
            if abs(inc - ex) > 1e-9 * sc + 1e-12:
                rep["index"] = ii
                ctx.oracle_fail("order-4 step does not add the exact integral of a cubic at index %d: %r vs %r" % (ii, inc, ex), rep)
                break
    # linearity on the implementation
    lin_cases = []
    lins = []
    for j in range(ctx.n(20, 300)):
        ln = rng.randint(2, 60)
        gk, t = gen_grid(rng, ln)
        _, x = gen_signal(rng, t)
        _, y = gen_signal(rng, t)
        a = float(rng.randint(-3, 3)); b = float(rng.randint(-3, 3))
        s1 = float(rng.randint(-5, 5)); s2 = float(rng.randint(-5, 5))
        z = [a * u + b * v for u, v in zip(x, y)]
        order = rng.randint(1, 6); n = rng.randint(1, order)
        lins.append((t, x, y, z, a, b, s1, s2, order, n))
        for sig_, st in ((x, s1), (y, s2), (z, a * s1 + b * s2)):
            lin_cases.append({"op": "integrate", "order": order, "n": n, "start": C.fx(st),
                              "t": [C.fx(v) for v in t], "x": [C.fx(v) for v in sig_]})
    limpl = ctx.impl("C20.py", {"cases": lin_cases})["results"]
    for q, (t, x, y, z, a, b, s1, s2, order, n) in enumerate(lins):
        ctx.count(["lin", t[:3], x[:3], y[:3], a, b, order, n])
        ctx.tally("linearity")
        r = limpl[3 * q:3 * q + 3]
        rep = {"op": "integrate-linearity", "order": order, "n": n, "time": t, "x": x, "y": y, "a": a, "b": b,
               "start_x": s1, "start_y": s2}
        if any(isinstance(v, dict) for v in r):
            ctx.oracle_fail("integrate raised %s" % r, rep, key="integrate-raises")
            continue
        ix, iy, iz = ([C.unfx(v) for v in u] for u in r)
        sc = (abs(a) * sum(map(abs, x)) + abs(b) * sum(map(abs, y))) * max([v - u for u, v in zip(t, t[1:])] + [0]) + abs(a * s1) + abs(b * s2) + 1e-300
        for j in range(len(t)):
            if not C.close(iz[j], a * ix[j] + b * iy[j], 1e-9, 1e-12, sc):
                rep["index"] = j
                ctx.oracle_fail("integrate is not linear at index %d: %r vs %r" % (j, iz[j], a * ix[j] + b * iy[j]), rep)
                break

ANCHORS = ["src/ocean_science_utilities/tools/time_integration.py"]
READY = True
LEVEL_TEXT = ("Theorems (Coq, all orders 1..8 x implicit points, all signal lengths/time vectors): stencil weights sum to one, "
              "are exact on every polynomial of degree < order and equal the exact integrals of the Lagrange basis polynomials "
              "(finite table decided by vm_compute in exact rationals, lifted to all polynomials by a linearity lemma); integrate() "
              "starts at start_value, is linear in (signal,start), trapezoid on >1% jitter / after restarts / near the end, never "
              "indexes before 0, and an order-4 step adds the exact integral of any cubic. The model is tied to the code by running "
              "the extracted model and tools/time_integration.py on the same stencils (all 36) and generated signals; in addition the four stencil functions are translated "
              "syntactically from the current Python source into a deep embedding (Model/PyKernel.v) on every run and proved, by evaluation in exact rationals, to compute the model's weights.")
LEVEL_NOTE = ("Trusted: Coq kernel, extraction (R as binary64), numba compiling integrate() faithfully, the harness tolerances "
              "(1e-9 relative). Real-number axioms of the Coq standard library only (see evidence trusted_base).")
TECHNIQUE = "Coq proof (vm_compute table over Q + induction over the step list); the stencil functions are regenerated from the Python source on every run (deep embedding + interpreter in Coq) + extracted-model correspondence + exact-rational oracles"
DESIGN_REF = "DESIGN.md section 5 C20"
TRUSTED = ["translator harness/translate_kernel.py (Python ast -> terms of the embedded language of coq/Model/PyKernel.v; purely syntactic, fail-closed) and the interpreter semantics of Model/PyKernel.v (exact rationals for numpy float arithmetic; numpy slice/broadcast rules for 1-d arrays)"]
