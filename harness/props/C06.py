"""C06 estimators: fidelity of the reconstructed moments, agreement of the two MEM2 solvers,
rotation / mirror equivariance, Jacobian = derivative of the constraint function."""
import cmath
import math

import common as C
from props import C05 as G

RULE = ("one evaluation = one function-level call (moment_constraints, mem2_jacobian, initial_value, solve_cholesky, "
        "mem2_newton_solver) or one (variant, N, moments, rotation k / mirror) estimate; non-trivial = moments not all zero; "
        "distinct by full input hash")
ASSUMPTIONS = [
    "floating point rounding is not modelled; function-level comparisons at 1e-9 (absolute, quantities are O(1)), "
    "Newton at 1e-7 of the peak when every branch of the modelled iteration has relative margin > 1e-6",
    "scipy.optimize.root(method='lm') and np.linalg.lstsq are not modelled: fidelity, solver agreement and equivariance of "
    "their outputs are validated by execution (oracles), not proved",
    "the MEM discretisation error is validated against the aliasing series of the AR(2) spectrum (Poisson summation) computed "
    "independently in the harness; that series is not proved in Coq",
    "equivariance of the *iterative* Newton path holds up to rounding only (the '<' tests); it is checked at 1e-7 on robust "
    "paths and in the four-moment norm at 2 atol otherwise",
]

NS = [24, 36, 72, 144]
ATOL = 0.01


def gen_resolved(rng, n):
    """1-2 von-Mises lobes + isotropic background, every lobe at least 1.5 bins (and 2 degrees) wide"""
    binw = 360.0 / n
    lo = max(2.0, 1.5 * binw)
    kind = rng.choice(["uni", "bi"])
    w0 = rng.choice([0.0, 0.0, rng.uniform(0, 0.5)])
    sig = lambda: 10 ** rng.uniform(math.log10(lo), math.log10(80))
    if kind == "uni":
        m = G.mix([1 - w0], [G.vm_moments(rng.uniform(0, 2 * math.pi), sig())])
    else:
        w = rng.uniform(0.2, 0.8)
        m = G.mix([(1 - w0) * w, (1 - w0) * (1 - w)], [G.vm_moments(rng.uniform(0, 2 * math.pi), sig()) for _ in range(2)])
    return kind, [float(v) for v in m]


def mem_alias_moments(m, n):
    """Moments of the MEM distribution sampled on N uniform directions starting at 0 and renormalised in the
    discrete sense, from the Fourier coefficients c_k of the continuous AR(2) spectrum (c_k = Phi1 c_{k-1} + Phi2 c_{k-2}):
    sum_j D(theta_j) e^{i n theta_j} Delta = sum_{k = n mod N} c_k.   Returns None when the series converges too slowly."""
    c1 = complex(m[0], m[1]); c2 = complex(m[2], m[3])
    den = 1 - abs(c1) ** 2
    if den <= 0:
        return None
    p1 = (c1 - c2 * c1.conjugate()) / den
    p2 = c2 - p1 * c1
    disc = cmath.sqrt(p1 * p1 + 4 * p2)
    rho = max(abs((p1 + disc) / 2), abs((p1 - disc) / 2))
    if rho >= 0.9995:
        return None
    kmax = int(40.0 / -math.log(rho)) + 3 * n + 8
    if kmax > 400000:
        return None
    c = [1 + 0j, c1, c2]
    for k in range(3, kmax + 1):
        c.append(p1 * c[k - 1] + p2 * c[k - 2])
    coef = lambda k: c[k] if k >= 0 else c[-k].conjugate()
    M = []
    for nn in (0, 1, 2):
        s = 0j
        k = nn
        while k <= kmax:
            s += coef(k); k += n
        k = nn - n
        while -k <= kmax:
            s += coef(k); k -= n
        M.append(s)
    if abs(M[0]) < 1e-6:
        return None
    r1 = M[1] / M[0]; r2 = M[2] / M[0]
    return [r1.real, r1.imag, r2.real, r2.imag], rho


def rotl(xs, k):
    """output index j of the rotated problem corresponds to index j-k of the original"""
    n = len(xs)
    return [xs[(j - k) % n] for j in range(n)]


def mirror_list(xs):
    n = len(xs)
    return [xs[(-j) % n] for j in range(n)]


def run(ctx):
    rng = ctx.rng
    cases = []; mlines = []; post = []
    stats = {}

    def add(case, lines):
        i = len(cases); cases.append(case)
        j = len(mlines); mlines.extend(lines)
        return i, j

    # ---------------- 1. constraint function, Jacobian, first guess, Cholesky -------------
    for q in range(ctx.n(300, 10000)):
        n = rng.choice(G.NS_ALL + [rng.randint(8, 180)])
        th = G.to_rad(G.grid_deg(n, rng.choice([0.0, C.dyadic(rng, -180, 180, 10)])))
        if q < 5:
            m = G.HARD[q]; kind = "hard"
        else:
            kind, m = G.gen_moments(rng)
        r = rng.random()
        if r < 0.3:
            lam = [float(v) for v in _init(m)]; lk = "first-guess"
        else:
            mag = 10 ** rng.uniform(-2, rng.choice([0.5, 1, 2]))
            lam = [C.dyadic(rng, -mag, mag, 20) for _ in range(4)]; lk = "random"
        if rng.random() < 0.7:
            d = [2 * math.pi / n] * n; dk = "uniform"
        else:
            d = [C.dyadic(rng, 0.01, 0.2, 12) for _ in range(n)]; dk = "random-positive"
        h = 1e-4
        fd = []
        for nn in range(4):
            for sgn in (+1, -1):
                l2 = list(lam); l2[nn] = lam[nn] + sgn * h
                fd.append(l2)
        ids = []
        i0, j0 = add({"op": "jac", "l": G.fl(lam), "d": G.fl(d), "th": G.fl(th)},
                     ["jac %s %s %s" % (" ".join(G.fl(lam)), C.flist(d), C.flist(th))])
        i1, j1 = add({"op": "cons", "l": G.fl(lam), "m": G.fl(m), "d": G.fl(d), "th": G.fl(th)},
                     ["cons %s %s %s %s" % (" ".join(G.fl(lam)), " ".join(G.fl(m)), C.flist(d), C.flist(th))])
        for l2 in fd:
            ids.append(add({"op": "cons", "l": G.fl(l2), "m": G.fl(m), "d": G.fl(d), "th": G.fl(th)}, [])[0])
        i2, j2 = add({"op": "init", "m": G.fl(m)}, ["init " + " ".join(G.fl(m))])
        post.append(("fn", i0, j0, i1, j1, ids, i2, j2, kind, lk, dk, n, th, lam, m, d, h))

    for q in range(ctx.n(200, 8000)):
        B = [[C.dyadic(rng, -1, 1, 8) for _ in range(4)] for _ in range(4)]
        kindc = rng.choice(["spd", "spd", "spd", "indefinite", "neg-first", "covariance"])
        A = [[sum(B[i][k] * B[j][k] for k in range(4)) for j in range(4)] for i in range(4)]
        if kindc == "spd":
            sh = C.dyadic(rng, 0.05, 1, 8)
            for i in range(4):
                A[i][i] += sh
        elif kindc == "indefinite":
            sh = C.dyadic(rng, 0.2, 2, 8)
            i = rng.randrange(4)
            A[i][i] -= sh + A[i][i] * rng.choice([0, 1])
        elif kindc == "neg-first":
            A[0][0] = -abs(A[0][0]) * rng.choice([0, 1])
        else:
            sc = 10 ** rng.uniform(-6, 0)
            A = [[v * sc for v in row] for row in A]
            for i in range(4):
                A[i][i] += sc * C.dyadic(rng, 0.001, 0.1, 8)
        # the code reads only the lower triangle: make the upper one garbage in a few cases
        if rng.random() < 0.2:
            A[0][3] += 1.0
        rhs = [C.dyadic(rng, -1, 1, 10) for _ in range(4)]
        flat = [A[i][j] for i in range(4) for j in range(4)]
        i, j = add({"op": "chol", "a": G.fl(flat), "r": G.fl(rhs)},
                   ["chol %s %s" % (" ".join(G.fl(flat)), " ".join(G.fl(rhs)))])
        post.append(("chol", i, j, kindc, A, rhs))

    # ---------------- 2. Newton solver on the hard cases, all rotations and mirrors --------
    hard_ns = [36] + ([] if ctx.quick() else [24, 72, 144])
    for n in hard_ns:
        th = G.to_rad(G.grid_deg(n))
        d = [2 * math.pi / n] * n
        for hc, m0 in enumerate(G.HARD):
            ks = range(n) if (n == 36 or not ctx.quick()) else rng.sample(range(n), 6)
            for mir in (False, True):
                base = G.mirror_moments(m0) if mir else m0
                for k in ks:
                    m = G.rot_moments(base, k * 2 * math.pi / n)
                    g = _init(m)
                    i, j = add({"op": "solver", "m": G.fl(m), "g": G.fl(g), "th": G.fl(th), "d": G.fl(d), "approx": False},
                               ["newton 100 8 %s %s %s %s %s" % (C.fx(ATOL), " ".join(G.fl(m)), " ".join(G.fl(g)),
                                                                C.flist(d), C.flist(th))])
                    post.append(("hard", i, j, hc, mir, k, n, th, m, g))
    # ---------------- 3./4. fidelity, solver agreement, rotation and mirror ---------------
    ncase = ctx.n(24, 160)
    for q in range(ncase):
        n = NS[q % 4]
        dirs = G.grid_deg(n)
        if q % 5 == 4:
            kind, m0 = G.gen_moments(rng, rng.choice(["noisy", "narrow", "random"]))
            resolved = False
        else:
            kind, m0 = gen_resolved(rng, n)
            resolved = True
        if ctx.quick():
            ks = sorted(set([0, 1, n - 1, n // 4, n // 2] + rng.sample(range(n), 4)))
        else:
            ks = list(range(n))
        variants = []
        for mir in (False, True):
            base = G.mirror_moments(m0) if mir else m0
            for k in ks:
                variants.append((mir, k, G.rot_moments(base, k * 2 * math.pi / n)))
        cols = [[m[c] for _, _, m in variants] for c in range(4)]
        per = {}
        for method, sm, mv in G.VARIANTS:
            # the rotated / mirrored copies form one batch; the library gets it as a C-ordered vector or, with the
            # same values, split over three leading dimensions in Fortran order / as a strided slice
            case = {"op": "est", "method": method, "sm": sm, "dirs": G.fl(dirs), "shape": [len(variants)],
                    "a1": G.fl(cols[0]), "b1": G.fl(cols[1]), "a2": G.fl(cols[2]), "b2": G.fl(cols[3]),
                    "layout": G.gen_layout(rng, len(variants))}
            lines = []
            if mv == "newton":
                for _, _, m in variants:
                    lines.append("entry newton %s %s" % (C.flist(dirs), " ".join(G.fl(m))))
                    lines.append("entryn %s %s" % (C.flist(dirs), " ".join(G.fl(m))))
            elif mv == "mem":
                # model equivariance is a theorem; one model call per original suffices for correspondence
                lines.append("entry mem %s %s" % (C.flist(dirs), " ".join(G.fl(variants[0][2]))))
            per[sm or "mem"] = add(case, lines)
        post.append(("rot", per, kind, resolved, n, dirs, m0, variants))

    # ---------------- 5. a veering sea: consecutive frequency bins whose moments differ in the fourth decimal only
    for q in range(ctx.n(3, 30)):
        n = rng.choice([24, 36])
        L = rng.choice([50, 70])
        sig0 = rng.uniform(max(2.0, 1.6 * 360.0 / n) + 8.0, 40.0)
        mu0 = rng.uniform(0, 2 * math.pi)
        veer = math.radians(rng.choice([0.03, 0.04, -0.04]))          # per bin: every moment moves by < 1e-3
        ms = [[float(v) for v in G.vm_moments(mu0 + veer * i, sig0)] for i in range(L)]
        cols = [[m[c] for m in ms] for c in range(4)]
        ids = {}
        for sm in ("scipy", "newton"):
            ids[sm] = add({"op": "est", "method": "mem2", "sm": sm, "dirs": G.fl(G.grid_deg(n)), "shape": [L],
                           "a1": G.fl(cols[0]), "b1": G.fl(cols[1]), "a2": G.fl(cols[2]), "b2": G.fl(cols[3])}, [])[0]
        post.append(("veer", ids, n, ms))

    impl = ctx.impl("C06.py", {"cases": cases})["results"]
    mod = ctx.model(mlines)
    for it in post:
        if it[0] == "veer":
            eval_veer(ctx, it, impl, stats)
            continue
        if it[0] == "fn":
            eval_fn(ctx, it, impl, mod, stats)
        elif it[0] == "chol":
            eval_chol(ctx, it, impl, mod, stats)
        elif it[0] == "hard":
            eval_hard(ctx, it, impl, mod, stats, post)
        elif it[0] == "rot":
            eval_rot(ctx, it, impl, mod, stats)
    eval_hard_equivariance(ctx, post, impl, mod, stats)
    ctx.extra["measured_maxima"] = {k: v for k, v in sorted(stats.items())}


def _init(m):
    a1, b1, a2, b2 = m
    fac = 1 + a1 ** 2 + b1 ** 2 + a2 ** 2 + b2 ** 2
    return [2 * a1 * a2 + 2 * b1 * b2 - 2 * a1 * fac, 2 * a1 * b2 - 2 * b1 * a2 - 2 * b1 * fac,
            a1 ** 2 - b1 ** 2 - 2 * a2 * fac, 2 * a1 * b1 - 2 * b2 * fac]


def upd(stats, k, v):
    if not (isinstance(v, float) and math.isnan(v)):
        stats[k] = max(stats.get(k, 0.0), v)


def err_of(r):
    return isinstance(r, dict) and "error" in r


def eval_fn(ctx, it, impl, mod, stats):
    _, i0, j0, i1, j1, ids, i2, j2, kind, lk, dk, n, th, lam, m, d, h = it
    ctx.count(["fn", n, lam, m, d[:2]], any(m))
    ctx.tally("constraints/jacobian:%s:%s" % (lk, dk))
    rep = {"op": "moment_constraints / mem2_jacobian / initial_value", "lambda": lam, "moments": m,
           "direction_increment": d, "directions_radians": th}
    rs = [impl[i0], impl[i1], impl[i2]] + [impl[k] for k in ids]
    if any(err_of(r) for r in rs):
        ctx.oracle_fail("a MEM2 kernel raised: %s" % [r for r in rs if err_of(r)][:1], rep)
        return
    J = G.unfl(impl[i0]); Jm = G.unfl(mod[j0])
    F = G.unfl(impl[i1]); Fm = G.unfl(mod[j1])
    I = G.unfl(impl[i2]); Im = G.unfl(mod[j2])
    for a, b in zip(I, Im):
        if not C.close(a, b, 1e-12, 1e-14, 1.0):
            ctx.disagree("initial_value differs from the MEM-AP2 formula: %r vs %r" % (I, Im), dict(rep, op="initial_value"),
                         is_property_failure=True)
            break
    for q, (a, b) in enumerate(zip(F, Fm)):
        upd(stats, "constraints |impl-model|", abs(a - b))
        if not C.close(a, b, 0, 1e-9, 1.0):
            ctx.disagree("moment_constraints[%d] = %r, model %r" % (q, a, b), dict(rep, op="moment_constraints"),
                         is_property_failure=True)
            break
    for q, (a, b) in enumerate(zip(J, Jm)):
        upd(stats, "jacobian |impl-model|", abs(a - b))
        if not C.close(a, b, 0, 1e-9, 1.0):
            ctx.disagree("mem2_jacobian[%d,%d] = %r, model %r" % (q // 4, q % 4, a, b), dict(rep, op="mem2_jacobian"),
                         is_property_failure=True)
            break
    # oracles on the implementation alone: symmetry and Jacobian = derivative (central differences)
    for a in range(4):
        for b in range(a):
            if J[4 * a + b] != J[4 * b + a]:
                ctx.oracle_fail("mem2_jacobian is not symmetric at (%d,%d)" % (a, b), rep)
    for nn in range(4):
        Fp = G.unfl(impl[ids[2 * nn]]); Fmn = G.unfl(impl[ids[2 * nn + 1]])
        for mm in range(4):
            der = (Fp[mm] - Fmn[mm]) / (2 * h)
            upd(stats, "jacobian vs central difference", abs(der - J[4 * mm + nn]))
            if abs(der - J[4 * mm + nn]) > 1e-6:
                ctx.oracle_fail("mem2_jacobian[%d,%d] = %r but d constraint_%d / d lambda_%d = %r (central difference)"
                                % (mm, nn, J[4 * mm + nn], mm, nn, der), dict(rep, h=h))
                return


def eval_chol(ctx, it, impl, mod, stats):
    _, i, j, kindc, A, rhs = it
    ctx.count(["chol", A, rhs])
    ctx.tally("cholesky:" + kindc)
    rep = {"op": "solve_cholesky", "matrix": A, "rhs": rhs}
    im = impl[i]; mo = mod[j]
    margin = C.unfx(mo[1])
    if err_of(im):
        if mo[0] == "N" and im["error"] == "ValueError":
            return              # pre-fix behaviour: failure by exception; same information
        ctx.oracle_fail("solve_cholesky raised %s" % im, rep)
        return
    if margin < 1e-6:
        ctx.tally("cholesky:pivot-within-rounding-skipped")
        return
    if im["ok"] != (mo[0] == "S"):
        ctx.disagree("solve_cholesky success=%s but the model says %s" % (im["ok"], mo[0]), rep)
        return
    if mo[0] == "S":
        x = G.unfl(im["x"]); xm = G.unfl(mo[2:6])
        sc = max(abs(v) for v in xm) or 1.0
        for a, b in zip(x, xm):
            upd(stats, "cholesky rel diff x margin", abs(a - b) / sc * margin)
            if abs(a - b) > 1e-9 / margin * sc:
                ctx.disagree("solve_cholesky solution %r, model %r" % (x, xm), rep)
                break
        # oracle: lower-triangle symmetric system is solved
        L = [[A[max(a, b)][min(a, b)] for b in range(4)] for a in range(4)]
        res = max(abs(sum(L[a][b] * x[b] for b in range(4)) - rhs[a]) for a in range(4))
        big = max(abs(v) for row in L for v in row) * max(abs(v) for v in x) + 1
        upd(stats, "cholesky residual x margin", res / big * margin)
        if res > 1e-9 / margin * big:
            ctx.oracle_fail("solve_cholesky: A x - rhs = %r" % res, rep)


def residual(D, th, d, m):
    mm = [sum(f(t) * v * w for t, v, w in zip(th, D, d)) for f in
          (math.cos, math.sin, lambda t: math.cos(2 * t), lambda t: math.sin(2 * t))]
    return G.norm([a - b for a, b in zip(m, mm)])


def eval_hard(ctx, it, impl, mod, stats, post):
    _, i, j, hc, mir, k, n, th, m, g = it
    ctx.count(["hard", hc, mir, k, n])
    ctx.tally("hard-case-%d:N=%d" % (hc, n))
    rep = {"op": "mem2_newton_solver", "moments": m, "guess": g, "directions_radians": th,
           "direction_increment": [2 * math.pi / n] * n, "hard_case": hc, "mirrored": mir, "rotation_bins": k}
    im = impl[i]
    if err_of(im):
        ctx.oracle_fail("mem2_newton_solver raised %s: %s" % (im["error"], im["msg"]), rep)
        return
    D = G.unfl(im)
    d = [2 * math.pi / n] * n
    if any(math.isnan(v) or v < 0 for v in D) or abs(sum(D) * d[0] - 1) > 1e-9:
        ctx.oracle_fail("mem2_newton_solver: result is not a distribution", rep)
        return
    mo = mod[j]
    st = mo[0]; margin = C.unfx(mo[6]); want = G.unfl(mo[8:])
    ctx.tally("hard:model-status:" + st)
    res = residual(D, th, d, m)
    upd(stats, "hard cases: residual of the implementation (case %d)" % hc, res)
    if st == "lstsq":
        return
    if margin > 1e-6:
        ctx.tally("hard:robust")
        pk = max(max(want), 1e-300)
        dm = max(abs(a - b) for a, b in zip(D, want))
        upd(stats, "hard cases: |impl-model|/peak on robust paths", dm / pk)
        if dm > 1e-7 * pk:
            ctx.disagree("mem2_newton_solver differs from the modelled Newton iteration (max diff %r, peak %r)" % (dm, pk), rep)
        if st == "converged" and not res < ATOL * (1 + 1e-6):
            ctx.oracle_fail("Newton stopped as converged but the four-moment residual is %r >= atol" % res, rep)
    else:
        ctx.tally("hard:fragile")


def eval_hard_equivariance(ctx, post, impl, mod, stats):
    """rotating / mirroring the input of the solver rotates / mirrors its output (hard cases)"""
    groups = {}
    for it in post:
        if it[0] == "hard":
            _, i, j, hc, mir, k, n, th, m, g = it
            groups.setdefault((hc, n), {})[(mir, k)] = (i, j, m)
    for (hc, n), g in groups.items():
        if (False, 0) not in g:
            base_key = sorted(g)[0]
        else:
            base_key = (False, 0)
        i0, j0, m0 = g[base_key]
        if err_of(impl[i0]):
            continue
        D0 = G.unfl(impl[i0])
        mo0 = mod[j0]
        rob0 = mo0[0] != "lstsq" and C.unfx(mo0[6]) > 1e-6
        th = G.to_rad(G.grid_deg(n)); d = [2 * math.pi / n] * n
        for (mir, k), (i, j, m) in g.items():
            if err_of(impl[i]):
                continue
            D = G.unfl(impl[i])
            # express D0 in the frame of this variant
            base = D0
            if base_key[1]:
                base = rotl(base, -base_key[1])
            if mir != base_key[0]:
                base = mirror_list(base)
            exp = rotl(base, k)
            mo = mod[j]
            rob = mo[0] != "lstsq" and C.unfx(mo[6]) > 1e-6
            pk = max(max(exp), 1e-300)
            dm = max(abs(a - b) for a, b in zip(D, exp))
            rep = {"op": "mem2_newton_solver (equivariance)", "hard_case": hc, "N": n, "moments": m, "base_moments": m0,
                   "mirrored": mir, "rotation_bins": k}
            if rob and rob0:
                upd(stats, "hard cases: equivariance defect/peak on robust paths", dm / pk)
                ctx.tally("hard-equivariance:robust")
                if dm > 1e-6 * pk:
                    ctx.oracle_fail("Newton solution of the rotated/mirrored hard case is not the rotated/mirrored solution "
                                    "(max diff %r, peak %r)" % (dm, pk), rep)
            else:
                mi = [sum(f(t) * v * w for t, v, w in zip(th, D, d)) for f in (math.cos, math.sin, lambda t: math.cos(2 * t), lambda t: math.sin(2 * t))]
                me = [sum(f(t) * v * w for t, v, w in zip(th, exp, d)) for f in (math.cos, math.sin, lambda t: math.cos(2 * t), lambda t: math.sin(2 * t))]
                dd = G.norm([a - b for a, b in zip(mi, me)])
                upd(stats, "hard cases: equivariance defect (four-moment norm) on fragile paths", dd)
                ctx.tally("hard-equivariance:fragile(measured only)")


def eval_veer(ctx, it, impl, stats):
    """fidelity bin by bin along one spectrum whose direction veers slowly with frequency"""
    _, ids, n, ms = it
    dirs = G.grid_deg(n)
    step = 360.0 / n
    for sm, i in ids.items():
        im = impl[i]
        rep0 = {"op": "estimate_directional_distribution", "method": "mem2", "solution_method": sm, "direction": dirs,
                "shape": [len(ms)], "a1": [m[0] for m in ms], "b1": [m[1] for m in ms], "a2": [m[2] for m in ms],
                "b2": [m[3] for m in ms], "note": "one spectrum, mean direction veering slowly with frequency"}
        if err_of(im):
            ctx.oracle_fail("%s raised %s: %s" % (sm, im["error"], im["msg"]), rep0)
            continue
        out = G.unfl(im["out"])
        worst = (0.0, 0)
        for e, m in enumerate(ms):
            D = out[e * n:(e + 1) * n]
            ctx.count(["veer", sm, n, m], True)
            err = G.norm([a - b for a, b in zip(G.moments_of(D, dirs, step), m)])
            if not err < float("inf"):
                err = float("inf")
            if err > worst[0]:
                worst = (err, e)
        ctx.tally("veering spectrum:%s" % sm)
        upd(stats, "fidelity %s (veering spectrum)" % sm, worst[0])
        if not worst[0] < ATOL * (1 + 1e-6):
            ctx.oracle_fail("%s: along a slowly veering spectrum the reconstructed moments of frequency bin %d differ from "
                            "the input by %r >= atol" % (sm, worst[1], worst[0]), dict(rep0, entry=worst[1], moments=ms[worst[1]]))


def eval_rot(ctx, it, impl, mod, stats):
    _, per, kind, resolved, n, dirs, m0, variants = it
    step = 360.0 / n
    outs = {}
    for name, (i, j) in per.items():
        im = impl[i]
        rep0 = {"op": "estimate_directional_distribution", "method": "mem" if name == "mem" else "mem2",
                "solution_method": None if name == "mem" else name, "direction": dirs,
                "a1": [m[0] for _, _, m in variants], "b1": [m[1] for _, _, m in variants],
                "a2": [m[2] for _, _, m in variants], "b2": [m[3] for _, _, m in variants], "shape": [len(variants)]}
        if err_of(im):
            ctx.oracle_fail("%s raised %s: %s" % (name, im["error"], im["msg"]), rep0)
            continue
        out = G.unfl(im["out"])
        outs[name] = [out[e * n:(e + 1) * n] for e in range(len(variants))]
    newton_info = None
    if "newton" in per:
        j = per["newton"][1]
        newton_info = [(mod[j + 2 * e], mod[j + 2 * e + 1]) for e in range(len(variants))]
    alias = mem_alias_moments(m0, n) if resolved or kind != "random" else None
    for e, (mir, k, m) in enumerate(variants):
        rep = {"op": "estimate_directional_distribution", "direction": dirs, "moments": m, "base_moments": m0,
               "mirrored": mir, "rotation_bins": k, "kind": kind, "resolved": resolved}
        ctx.count(["rot", n, m0, mir, k], any(m0))
        ctx.tally("rotation:%s:N=%d" % ("resolved" if resolved else kind, n))
        errs = {}
        for name, rows in outs.items():
            D = rows[e]
            if any(math.isnan(v) for v in D):
                ctx.oracle_fail("%s returned NaN" % name, dict(rep, variant=name))
                continue
            mi = G.moments_of(D, dirs, step)
            errs[name] = G.norm([a - b for a, b in zip(mi, m)])
        # ---- fidelity
        if resolved:
            for name in ("newton", "scipy"):
                if name in errs:
                    upd(stats, "fidelity %s (resolved)" % name, errs[name])
                    if not errs[name] < ATOL * (1 + 1e-6):
                        ctx.oracle_fail("%s: reconstructed moments differ from the input by %r >= atol" % (name, errs[name]),
                                        dict(rep, variant=name))
            if "newton" in outs and "scipy" in outs:
                mn = G.moments_of(outs["newton"][e], dirs, step); ms = G.moments_of(outs["scipy"][e], dirs, step)
                dd = G.norm([a - b for a, b in zip(mn, ms)])
                upd(stats, "newton vs scipy (four-moment norm, resolved)", dd)
                if not dd < ATOL * (1 + 1e-6):
                    ctx.oracle_fail("Newton and scipy solutions differ by %r >= atol in the four-moment norm" % dd, rep)
        if "mem" in outs and alias is not None and "mem" in errs:
            am, rho = alias
            amr = G.rot_moments(G.mirror_moments(am) if mir else am, k * 2 * math.pi / n)
            mi = G.moments_of(outs["mem"][e], dirs, step)
            dd = G.norm([a - b for a, b in zip(mi, amr)])
            pred = G.norm([a - b for a, b in zip(amr, m)])
            upd(stats, "mem: moments vs aliasing series", dd)
            ctx.tally("mem-discretisation:%s" % ("<1e-6" if pred < 1e-6 else "<1e-2" if pred < 1e-2 else ">=1e-2"))
            if dd > 1e-7 / (1 - rho):
                ctx.oracle_fail("MEM: moments of the sampled distribution %r differ from the discretisation (aliasing) "
                                "prediction %r by %r; predicted distance to the input %r" % (mi, amr, dd, pred),
                                dict(rep, variant="mem", pole_radius=rho))
        # ---- rotation / mirror of the output against the first variant (mir=False, k=ks[0]=0)
        for name, rows in outs.items():
            base = rows[0]
            k0 = variants[0][1]
            b = rotl(base, -k0) if k0 else base
            if mir:
                b = mirror_list(b)
            exp = rotl(b, k)
            D = rows[e]
            pk = max(max(exp), 1e-300)
            dm = max(abs(a - c) for a, c in zip(D, exp))
            key = "equivariance defect/peak: %s" % name
            if name in ("mem", "approximate"):
                upd(stats, key, dm / pk)
                if dm > 1e-7 * pk:
                    ctx.oracle_fail("%s: output of the rotated/mirrored moments is not the rotated/mirrored output "
                                    "(max diff %r, peak %r)" % (name, dm, pk), dict(rep, variant=name))
            elif name == "newton":
                a0 = newton_info[0][1]; ae = newton_info[e][1]
                rob = all(x[0] not in ("lstsq", "zerodiv", "nan") and C.unfx(x[6]) > 1e-6 for x in (a0, ae))
                if rob:
                    upd(stats, key + " (robust paths)", dm / pk)
                    ctx.tally("newton-equivariance:robust")
                    if dm > 1e-6 * pk:
                        ctx.oracle_fail("newton: output of the rotated/mirrored moments is not the rotated/mirrored output "
                                        "(max diff %r, peak %r)" % (dm, pk), dict(rep, variant=name))
                else:
                    ctx.tally("newton-equivariance:fragile")
                    if resolved:
                        mi = G.moments_of(D, dirs, step); me = G.moments_of(exp, dirs, step)
                        dd = G.norm([a - c for a, c in zip(mi, me)])
                        upd(stats, key + " (fragile, four-moment norm)", dd)
                        if dd > 2 * ATOL:
                            ctx.oracle_fail("newton: rotated/mirrored problem gives moments %r away from the rotated solution" % dd,
                                            dict(rep, variant=name))
            else:
                mi = G.moments_of(D, dirs, step); me = G.moments_of(exp, dirs, step)
                dd = G.norm([a - c for a, c in zip(mi, me)])
                if resolved:
                    upd(stats, key + " (resolved, four-moment norm)", dd)
                    upd(stats, key + " (resolved, /peak)", dm / pk)
                    if dd > 1e-4:
                        ctx.oracle_fail("scipy: rotated/mirrored problem gives moments %r away from the rotated solution" % dd,
                                        dict(rep, variant=name))
                else:
                    upd(stats, key + " (unresolved, four-moment norm)", dd)
        # ---- correspondence of Newton with the model
        if "newton" in outs and newton_info is not None:
            mo, ex = newton_info[e]
            if mo[0] == "D" and ex[0] not in ("lstsq", "zerodiv", "nan"):
                margin = C.unfx(ex[6])
                ctx.tally("newton-status:" + ex[0])
                want = G.unfl(mo[2:]); D = outs["newton"][e]
                pk = max(max(want), 1e-300)
                dm = max(abs(a - c) for a, c in zip(D, want))
                if margin > 1e-6:
                    upd(stats, "newton |impl-model|/peak (robust)", dm / pk)
                    if dm > 1e-7 * pk:
                        ctx.disagree("newton differs from the modelled iteration (max diff %r, peak %r)" % (dm, pk),
                                     dict(rep, variant="newton"))
                    if ex[0] == "converged" and not errs.get("newton", 0) < ATOL * (1 + 1e-6):
                        ctx.oracle_fail("model converged on a robust path but the implementation's residual is %r" % errs["newton"],
                                        dict(rep, variant="newton"))
            elif mo[0] == "U":
                ctx.tally("newton:model-needs-lstsq")
    # MEM correspondence for the first variant
    if "mem" in per and "mem" in outs:
        mo = mod[per["mem"][1]]
        if mo[0] == "D":
            want = G.unfl(mo[2:]); D = outs["mem"][0]
            if not any(math.isnan(v) for v in want):
                pk = max(max(want), 1e-300); dm = max(abs(a - c) for a, c in zip(D, want))
                upd(stats, "mem |impl-model|/peak", dm / pk)
                if dm > 1e-5 * pk:
                    ctx.disagree("MEM differs from the closed form (max diff %r, peak %r)" % (dm, pk),
                                 {"op": "estimate_directional_distribution", "method": "mem", "direction": dirs,
                                  "moments": variants[0][2]}, is_property_failure=True)


def replay(ctx, obj):
    """re-run the recorded call on the implementation under test"""
    inp = obj.get("input", obj)
    op = inp.get("op", "")
    if op.startswith("estimate_directional_distribution"):
        dirs = inp["direction"]; n = len(dirs)
        ms = [inp["moments"]] + ([inp["base_moments"]] if "base_moments" in inp else [])
        for method, sm, _ in G.VARIANTS:
            case = {"op": "est", "method": method, "sm": sm, "dirs": G.fl(dirs), "shape": [len(ms)],
                    "a1": G.fl([m[0] for m in ms]), "b1": G.fl([m[1] for m in ms]),
                    "a2": G.fl([m[2] for m in ms]), "b2": G.fl([m[3] for m in ms])}
            r = ctx.impl("C06.py", {"cases": [case]})["results"][0]
            if err_of(r):
                print("REPLAY %s/%s raised %s: %s" % (method, sm, r["error"], r["msg"]))
                ctx.oracle_fail("raised", inp)
                continue
            out = G.unfl(r["out"])
            for e, m in enumerate(ms):
                D = out[e * n:(e + 1) * n]
                mi = G.moments_of(D, dirs, 360.0 / n)
                print("REPLAY %s/%s moments in %s -> moments of the result %s (four-moment error %.3g)" % (
                    method, sm, m, mi, G.norm([a - b for a, b in zip(mi, m)])))
            if len(ms) == 2 and "rotation_bins" in inp:
                k = inp["rotation_bins"]; b = out[n:2 * n]
                if inp.get("mirrored"):
                    b = mirror_list(b)
                exp = rotl(b, k)
                print("REPLAY %s/%s equivariance defect / peak = %.3g" % (method, sm, max(abs(x - y) for x, y in zip(out[:n], exp)) / max(exp)))
    elif op.startswith("mem2_newton_solver"):
        m = inp["moments"]; g = inp.get("guess", _init(m)); th = inp["directions_radians"]; n = len(th)
        d = inp.get("direction_increment", [2 * math.pi / n] * n)
        r = ctx.impl("C06.py", {"cases": [{"op": "solver", "m": G.fl(m), "g": G.fl(g), "th": G.fl(th), "d": G.fl(d)}]})["results"][0]
        if err_of(r):
            print("REPLAY mem2_newton_solver raised", r)
            ctx.oracle_fail("raised", inp)
        else:
            D = G.unfl(r)
            print("REPLAY mem2_newton_solver: min %g integral %.12g residual %.4g" % (min(D), sum(a * b for a, b in zip(D, d)), residual(D, th, d, m)))
    else:
        print("replay: the file is self-describing; 'input' holds the arguments of the call named in 'op':", op)


READY = True
LEVEL_TEXT = ("Theorems (Coq): for every lambda, every grid with positive increments and every m,n the entry (m,n) of mem2_jacobian is the "
              "derivative (Coquelicot is_derive) of constraint m with respect to multiplier n -- the min-shift does not matter --, it equals "
              "the covariance of the twiddle factors under the distribution and the lower-triangle formula is symmetric; solve_cholesky's "
              "result solves the symmetric system; status Converged of the modelled Newton loop implies four-moment residual < atol and "
              "accepted steps never increase the residual; rotation and mirror: for ANY grid and angle, MEM / the MEM2 distribution / the "
              "constraint function of rotated (mirrored) inputs equal those of the original on the shifted (negated) grid, the first guess "
              "is equivariant, and on uniform grids (N dl = 2pi) a rotation by k bins rotates the MEM output, the MEM2 distribution and the "
              "constraint function by k bins (mirror: reverses them), so the exact solution set and the residual norm are equivariant. "
              "Tied to /repo by running the extracted model and the implementation on the same inputs (constraints, Jacobian, first guess, "
              "Cholesky, Newton solver incl. the five hard cases under all rotations and mirrors, estimates under all/some rotations); "
              "fidelity (< atol), Newton-vs-scipy agreement, rotation/mirror of outputs, finite-difference Jacobian and the MEM "
              "discretisation error (against the aliasing series) are evaluated on the implementation.")
LEVEL_NOTE = ("Validated by execution, not proved: convergence of Newton/scipy on resolved inputs (fidelity < 0.01), agreement of the two "
              "solvers, the MEM discretisation error (checked against the Poisson-summation prediction computed in the harness), equivariance "
              "of the iterative Newton path (holds up to rounding because of the '<' tests; compared at 1e-6 of the peak on paths whose "
              "branch margins exceed 1e-6, otherwise in the four-moment norm), everything about scipy.optimize.root(lm) and np.linalg.lstsq "
              "(not modelled). No rounding-error bound is proved.")
TRUSTED = ["extracted model (R as binary64, libm of OCaml vs numpy/numba)", "harness tolerances documented in ASSUMPTIONS",
           "aliasing-series oracle for MEM (harness Python, 30 lines)", "scipy.special.ive for generating von-Mises moments (inputs only)"]
TECHNIQUE = "Coq proof (Coquelicot derivatives, nsatz trigonometric identities, permutation sums) + extracted-model correspondence + property oracles"
DESIGN_REF = "DESIGN.md section 5 C06"
