"""C08 source terms: sign, support, scaling; bulk rates integrate the spectral rates.

Generators and comparison helpers of this file are reused by props/C09.py.
"""
import array
import base64
import math

import common as C

RULE = ("one evaluation = one (spectrum point, source term) pair compared bin by bin between the extracted Coq model and "
        "the implementation, or one oracle relation (sign/support/scaling/additivity/bulk/imbalance/batch) on the "
        "implementation; non-trivial = the compared field is not identically zero; distinct by hash of "
        "(grid, spectrum, wind, depth, roughness, parameters, term)")
ASSUMPTIONS = [
    "floating point rounding is not modelled: fields are compared at 1e-9 relative to the bin value plus 1e-11 of the "
    "largest bin of the field, bulk values at 1e-9 of sum|terms|",
    "numba compiles the jitted loops to the Python semantics of the source (prange, fastmath reassociation in the "
    "bulk sum, typed dict parameter passing)",
    "xarray layout handling (one leading 'time' dimension) is exercised, not modelled",
    "ST4 saturation cosine power is applied to positive cosines only (integration width < 90 degrees in every "
    "generated case; the model's powr is numpy's pow only for non-negative bases)",
]

G = 9.81


# ---------------------------------------------------------------------------------------
# encoding helpers
# ---------------------------------------------------------------------------------------
def b64(vals):
    return base64.b64encode(array.array("d", vals).tobytes()).decode()


def unb64(s):
    a = array.array("d")
    a.frombytes(base64.b64decode(s))
    return list(a)


def hexl(v):
    return [C.fx(x) for x in v]


def finf(x):
    return "inf" if math.isinf(x) else C.fx(x)


# ---------------------------------------------------------------------------------------
# parameters
# ---------------------------------------------------------------------------------------
GEN_DEFAULT = dict(wave_age_tuning_parameter=0.006, growth_parameter_betamax=1.52, gravitational_acceleration=9.81,
                   charnock_maximum_roughness=float("inf"), charnock_constant=0.01, air_density=1.225,
                   water_density=1024.0, vonkarman_constant=0.4, elevation=10.0, air_viscosity=1.48e-5,
                   viscous_stress_parameter=0.0)
GEN_ORDER = ["gravitational_acceleration", "charnock_maximum_roughness", "charnock_constant", "air_density",
             "water_density", "vonkarman_constant", "wave_age_tuning_parameter", "growth_parameter_betamax",
             "elevation", "air_viscosity", "viscous_stress_parameter"]
ST4_DEFAULT = dict(saturation_breaking_constant=2.2e-05, saturation_breaking_directional_control=0.0,
                   saturation_cosine_power=2.0, saturation_integration_width_degrees=80.0, saturation_threshold=0.0009,
                   cumulative_breaking_constant=0.4, cumulative_breaking_max_relative_frequency=0.5)
ST4_ORDER = ["saturation_breaking_constant", "saturation_breaking_directional_control", "saturation_cosine_power",
             "saturation_integration_width_degrees", "saturation_threshold", "cumulative_breaking_constant",
             "cumulative_breaking_max_relative_frequency"]
ST6_DEFAULT = dict(p1=4.0, p2=4.0, a1=4.75 * 10**-6, a2=7e-5, saturation_threshold=0.035**2)
ST6_ORDER = ["p1", "p2", "a1", "a2", "saturation_threshold"]
ROM_DEFAULT = dict(saturation_breaking_constant=2.5, saturation_threshold=0.005, saturation_integrated_threshold=0.0011,
                   breaking_probability_constant=3.5e-5, gravitational_acceleration=9.81)
ROM_ORDER = ["saturation_breaking_constant", "saturation_threshold", "saturation_integrated_threshold",
             "breaking_probability_constant", "gravitational_acceleration"]


def gen_params(rng, nondefault):
    gp, s4, s6, ro = dict(GEN_DEFAULT), dict(ST4_DEFAULT), dict(ST6_DEFAULT), dict(ROM_DEFAULT)
    if nondefault:
        gp.update(wave_age_tuning_parameter=rng.choice([0.004, 0.008, 0.011]),
                  growth_parameter_betamax=rng.choice([1.2, 1.33, 1.75]),
                  gravitational_acceleration=rng.choice([9.78, 9.81, 9.83]),
                  charnock_constant=rng.choice([0.0095, 0.0144, 0.0185]),
                  air_density=rng.choice([1.15, 1.225, 1.29]), water_density=rng.choice([1000.0, 1025.0, 1030.0]),
                  vonkarman_constant=rng.choice([0.38, 0.4, 0.41]), elevation=rng.choice([8.0, 10.0, 12.5]),
                  viscous_stress_parameter=rng.choice([0.0, 1.0, 0.5]),
                  charnock_maximum_roughness=rng.choice([float("inf"), float("inf"), 0.0015]))
        s4.update(saturation_breaking_constant=rng.choice([2.2e-5, 4e-5, 1e-5, 0.0]),
                  saturation_breaking_directional_control=rng.choice([0.0, 0.25, 0.5, 1.0]),
                  saturation_cosine_power=rng.choice([2.0, 2.0, 1.5, 3.0]),
                  saturation_integration_width_degrees=rng.choice([80.0, 70.0, 62.0, 85.0, 47.0]),
                  saturation_threshold=rng.choice([0.0009, 0.0006, 0.0015]),
                  cumulative_breaking_constant=rng.choice([0.4, 0.0, 0.25, 1.0]),
                  cumulative_breaking_max_relative_frequency=rng.choice([0.5, 0.35, 0.75]))
        s6.update(p1=rng.choice([4.0, 2.0, 3.5]), p2=rng.choice([4.0, 2.0, 4.5]),
                  a1=rng.choice([4.75e-6, 1e-5]), a2=rng.choice([7e-5, 3e-5]),
                  saturation_threshold=rng.choice([0.035**2, 0.03**2, 0.0009]))
        ro.update(saturation_breaking_constant=rng.choice([2.5, 1.5]), saturation_threshold=rng.choice([0.005, 0.0002, 0.00005]),
                  saturation_integrated_threshold=rng.choice([0.0011, 0.0006]),
                  breaking_probability_constant=rng.choice([3.5e-5, 1e-4]),
                  gravitational_acceleration=gp["gravitational_acceleration"])
    return gp, s4, s6, ro


def par_tokens(par, order):
    return " ".join(finf(par[k]) for k in order)


def par_payload(par):
    return {k: ("inf" if math.isinf(v) else C.fx(v)) for k, v in par.items()}


# ---------------------------------------------------------------------------------------
# grids and spectra
# ---------------------------------------------------------------------------------------
def gen_grid(rng, uniform_dirs=False, nd_choices=(16, 24, 36), small=False, nf_range=(10, 26), shape=None):
    nd = rng.choice(nd_choices) if shape is None else shape[1]
    kind = "uniform" if uniform_dirs else rng.choice(["uniform", "uniform", "uniform", "offset", "jitter", "wrapped", "pm180"])
    step = 360.0 / nd
    if kind == "uniform":
        d = [j * step for j in range(nd)]
    elif kind == "offset":
        off = rng.choice([step / 2, 5.0, step / 4])
        d = [off + j * step for j in range(nd)]
    elif kind == "wrapped":
        # the axis starts mid-circle and wraps through north: 200, ..., 350, 0, ..., 190
        j0 = rng.randrange(1, nd)
        d = [((j0 + j) * step) % 360.0 for j in range(nd)]
    elif kind == "pm180":
        d = [-180.0 + j * step for j in range(nd)]
    else:
        d = [j * step + C.dyadic(rng, -0.3, 0.3, 6) * step for j in range(nd)]
        d[0] = abs(d[0])
    fk = rng.choice(["linear", "geometric", "geometric", "ties"])
    nf = rng.randint(3, 9) if small else rng.randint(*nf_range)
    if shape is not None:
        nf = shape[0]
    f0 = rng.choice([0.03, 0.035, 0.04, 0.05])
    if fk == "ties":
        # frequencies that are exact halves of other frequencies: the cumulative ST4 term compares
        # omega' > 0.5 * omega, so the bound itself is hit (the comparison must not be >=)
        h = rng.choice([0.03125, 0.0234375, 0.046875])
        f = [h * (i + 2) for i in range(nf)]
    elif fk == "linear":
        f1 = rng.choice([0.4, 0.5, 0.64, 0.8])
        f = [f0 + (f1 - f0) * i / (nf - 1) for i in range(nf)]
    else:
        ratio = rng.choice([1.1, 1.08, 1.15]) if not small else 1.4
        f = [f0 * ratio**i for i in range(nf)]
    return {"f": f, "dir": d, "dirkind": kind, "fkind": fk}


def direction_steps(d):
    """the spectrum's own direction bin widths: forward difference wrapped to [-180, 180)"""
    n = len(d)
    out = []
    for j in range(n):
        delta = d[(j + 1) % n] - d[j]
        out.append((delta + 360 - 180) % 360 - 360 + 180)
    return out


def frequency_steps(f):
    n = len(f)
    ext = [2 * f[0] - f[1]] + list(f) + [2 * f[-1] - f[-2]]
    diff = [ext[i + 1] - ext[i] for i in range(n + 1)]
    return [diff[i] * 0.5 + diff[i + 1] * 0.5 for i in range(n)]


def spreading(d, mean, s):
    out = []
    for x in d:
        a = math.radians(((x - mean + 180) % 360) - 180)
        c = math.cos(a / 2)
        out.append(abs(c) ** (2 * s))
    tot = sum(o * w for o, w in zip(out, direction_steps(d)))
    return [o / tot for o in out]


def jonswap(f, fp, alpha, gamma):
    out = []
    for x in f:
        sig = 0.07 if x <= fp else 0.09
        r = math.exp(-((x - fp) ** 2) / (2 * sig**2 * fp**2))
        out.append(alpha * G**2 * (2 * math.pi) ** -4 * x**-5 * math.exp(-1.25 * (fp / x) ** 4) * gamma**r)
    return out


def gen_spectrum(rng, grid, U10, wdir, kind=None):
    f, d = grid["f"], grid["dir"]
    nf, nd = len(f), len(d)
    kind = kind or rng.choice(["jonswap", "jonswap", "jonswap", "pm", "pm", "mixed", "mixed", "mixed", "random", "random", "random", "zero", "steep", "steep"])
    E = [[0.0] * nd for _ in range(nf)]

    def add_sea(fp, alpha, gamma, mean, s):
        ef = jonswap(f, fp, alpha, gamma)
        D = spreading(d, mean, s)
        for i in range(nf):
            for j in range(nd):
                E[i][j] += ef[i] * D[j]

    if kind in ("jonswap", "pm", "mixed", "steep"):
        age = rng.uniform(0.8, 1.6)
        fp = min(max(0.13 * G / max(U10, 2.0) * age, f[1]), f[-1] * 0.6)
        alpha = rng.uniform(0.006, 0.02) if kind != "steep" else rng.uniform(0.03, 0.06)
        gamma = 1.0 if kind == "pm" else rng.uniform(1.0, 5.0)
        add_sea(fp, alpha, gamma, wdir + rng.uniform(-40, 40), rng.choice([2, 4, 8, 12]))
        if kind == "mixed":
            fs = rng.uniform(f[0] * 1.2, max(f[0] * 1.3, fp * 0.7))
            hs = rng.uniform(0.3, 2.5)
            sd = fs / rng.uniform(8, 16)
            D = spreading(d, rng.uniform(0, 360), rng.choice([10, 20, 30]))
            for i in range(nf):
                ef = (hs / 4) ** 2 / sd / math.sqrt(2 * math.pi) * math.exp(-0.5 * ((f[i] - fs) / sd) ** 2)
                for j in range(nd):
                    E[i][j] += ef * D[j]
    elif kind == "random":
        lvl = rng.choice([1e-4, 1e-3, 1e-2])
        pz = rng.choice([0.1, 0.3, 0.6])
        for i in range(nf):
            env = lvl * (f[i] / 0.1) ** -4 if rng.random() < 0.7 else lvl
            for j in range(nd):
                E[i][j] = 0.0 if rng.random() < pz else env * C.dyadic(rng, 0.0, 1.0, 10)
        if rng.random() < 0.5:
            j0 = rng.randrange(nd)
            for i in range(nf):
                E[i][j0] = 0.0
        if rng.random() < 0.5:
            i0 = rng.randrange(nf)
            E[i0] = [0.0] * nd
    elif kind == "zero":
        pass
    if kind in ("jonswap", "pm", "mixed", "steep") and rng.random() < 0.35:
        # knock out bins: zero-energy bins inside an otherwise smooth sea
        for _ in range(rng.randint(1, 12)):
            E[rng.randrange(nf)][rng.randrange(nd)] = 0.0
    return kind, E


def positive_version(rng, E):
    m = max(max(r) for r in E)
    floor = (m if m > 0 else 1e-4) * 1e-6
    return [[v if v > floor else floor * (1 + C.dyadic(rng, 0, 1, 6)) for v in r] for r in E]


def gen_point(rng, grid, windkind):
    """one point of a batch: wind, depth, roughness, spectrum"""
    if windkind == "u10":
        U = rng.choice([1.0, 2.5, 40.0]) if rng.random() < 0.15 else round(rng.uniform(1.0, 40.0), 3)
        u10 = U
    else:
        U = round(rng.uniform(0.04, 1.8), 4)
        u10 = U * 28
    wd = rng.choice([0.0, 90.0, 180.0, 270.0, 360.0, -45.0, 405.0, 15.0, 22.5]) if rng.random() < 0.3 \
        else round(rng.uniform(0, 360), 2)
    depth = float("inf") if rng.random() < 0.45 else rng.choice([5.0, 12.0, 30.0, 80.0, 200.0, round(rng.uniform(4, 300), 1)])
    ust = u10 / 28.0
    z0 = rng.uniform(0.008, 0.035) * ust**2 / G + rng.choice([0.0, 1e-5, 1e-4])
    z0 = min(max(z0, 2e-6), 0.05)
    z0 = C.dyadic(rng, z0, z0, 30)
    kind, E = gen_spectrum(rng, grid, u10, wd)
    return {"U": U, "wd": wd, "depth": depth, "z0": z0, "E": E, "skind": kind}


def flat(E):
    return [v for r in E for v in r]


def unflat(v, nf, nd):
    return [v[i * nd:(i + 1) * nd] for i in range(nf)]


# ---------------------------------------------------------------------------------------
# model request lines
# ---------------------------------------------------------------------------------------
def grid_tokens(sg):
    return " ".join(C.flist(sg[k]) for k in ("radian_frequency", "radian_direction", "frequency_step", "direction_step"))


def field_tokens(Eflat):
    return " ".join(C.fx(v) for v in Eflat)


def line_gen(kind, U, wd, depth, z0, gp, sg, Eflat, cmd="gen", extra=""):
    return "%s %s %s %s %s %s %s %s%s %s" % (cmd, "U" if kind == "u10" else "S", C.fx(U), C.fx(wd), finf(depth), C.fx(z0),
                                            par_tokens(gp, GEN_ORDER), grid_tokens(sg), extra, field_tokens(Eflat))


def line_diss(cmd, depth, par, order, sg, Eflat):
    return "%s %s %s %s %s" % (cmd, finf(depth), par_tokens(par, order), grid_tokens(sg), field_tokens(Eflat))


def parse_field(tokens, n, extra=1):
    if tokens and tokens[0] == "ERR":
        return None, None
    vals = [C.unfx(t) for t in tokens]
    return vals[:n], vals[n:n + extra]


# ---------------------------------------------------------------------------------------
# comparison
# ---------------------------------------------------------------------------------------
RTOL = 1e-9
MAXDEV = [0.0]     # largest observed model/implementation deviation relative to (|value| + 1% of field max)
ATOL_FIELD = 1e-11


def field_diff(a, b, rtol=RTOL, atol_rel=ATOL_FIELD):
    """first index where two flat fields differ beyond tolerance, else None"""
    if a is None or b is None or len(a) != len(b):
        return -1
    scale = max([abs(x) for x in a if x == x] + [abs(x) for x in b if x == x] + [0.0])
    for i, (x, y) in enumerate(zip(a, b)):
        if not C.close(x, y, rtol, atol_rel * scale):
            return i
        if scale > 0 and x == x and y == y and abs(x) != float("inf"):
            e = abs(x - y) / (max(abs(x), abs(y)) + 0.01 * scale)
            if e > MAXDEV[0]:
                MAXDEV[0] = e
    return None


def bulk_terms(field, df, dth, nf, nd):
    s = 0.0
    sa = 0.0
    for i in range(nf):
        for j in range(nd):
            t = field[i * nd + j] * df[i] * dth[j]
            s += t
            sa += abs(t)
    return s, sa


FIELD_OUTPUTS = {"gen_rate", "gen_rate_int", "st4_rate", "st6_rate", "rom_rate", "imb"}


def is_err(x):
    return isinstance(x, dict) and "error" in x


# ---------------------------------------------------------------------------------------
# the check
# ---------------------------------------------------------------------------------------
def make_batches(rng, nbatch, uniform_dirs=False, nd_choices=(16, 24, 36)):
    batches = []
    for b in range(nbatch):
        small = rng.random() < 0.12
        grid = gen_grid(rng, uniform_dirs=uniform_dirs, nd_choices=nd_choices if not small else (8, 12, 16), small=small)
        windkind = rng.choice(["u10", "u10", "friction_velocity", "ustar"])
        npt = rng.choice([1, 1, 2, 3, 4, 8]) if not small else rng.choice([1, 2, 5])
        nondefault = rng.random() < 0.5
        gp, s4, s6, ro = gen_params(rng, nondefault)
        if batches and (b == 1 or rng.random() < 0.3):
            # a twin of the preceding batch: the SAME parameter sets (hence, in the runner, the same
            # source-term objects) on a DIFFERENT grid of the SAME shape - an object must not carry
            # anything over from the spectrum it was evaluated on before
            prev = batches[-1]
            for _ in range(20):
                grid = gen_grid(rng, uniform_dirs=uniform_dirs, nd_choices=nd_choices, small=prev["small"],
                                shape=(len(prev["grid"]["f"]), len(prev["grid"]["dir"])))
                if grid["f"] != prev["grid"]["f"]:
                    break
            small, nondefault = prev["small"], prev["nondefault"]
            gp, s4, s6, ro = dict(prev["gp"]), dict(prev["s4"]), dict(prev["s6"]), dict(prev["ro"])
        pts = [gen_point(rng, grid, windkind) for _ in range(npt)]
        batches.append({"grid": grid, "windkind": windkind, "pts": pts, "gp": gp, "s4": s4, "s6": s6, "ro": ro,
                        "nondefault": nondefault, "small": small})
    return batches


def case_of(batch, pts=None, want=(), E_override=None, z0=True, dedt=None, imb_diss=None):
    pts = batch["pts"] if pts is None else pts
    g = batch["grid"]
    c = {"f": hexl(g["f"]), "dir": hexl(g["dir"]),
         "E": [b64(flat(p["E"])) for p in pts] if E_override is None else [b64(e) for e in E_override],
         "depth": [finf(p["depth"]) for p in pts],
         "U": hexl([p["U"] for p in pts]), "wd": hexl([p["wd"] for p in pts]), "kind": batch["windkind"],
         "z0": hexl([p["z0"] for p in pts]) if z0 else None,
         "gen_par": par_payload(batch["gp"]), "st4_par": par_payload(batch["s4"]),
         "st6_par": par_payload(batch["s6"]), "rom_par": par_payload(batch["ro"]),
         "want": list(want)}
    if dedt is not None:
        c["dedt"] = [b64(e) for e in dedt]
    if imb_diss:
        c["imb_diss"] = imb_diss
    return c


def replay_of(batch, k, extra=None):
    p = batch["pts"][k]
    g = batch["grid"]
    r = {"frequency_hz": g["f"], "direction_deg": g["dir"], "variance_density": p["E"], "depth": p["depth"],
         "wind_speed": p["U"], "wind_direction": p["wd"], "wind_speed_input_type": batch["windkind"],
         "roughness_length": p["z0"], "st4_input_parameters": {k_: str(v) for k_, v in batch["gp"].items()},
         "st4_breaking_parameters": batch["s4"], "st6_breaking_parameters": batch["s6"],
         "romero_parameters": batch["ro"], "point_index_in_batch": k, "batch_size": len(batch["pts"]),
         "spectrum_kind": p["skind"]}
    if extra:
        r.update(extra)
    return r


def run(ctx):
    rng = ctx.rng
    nb = ctx.n(14, 700)
    batches = make_batches(rng, nb)
    # deterministic corner batches: empty spectrum, single point, default parameters on the 36-direction grid
    # ------------------------------------------------------------------ implementation cases
    cases = []
    index = []          # (batch index, role, info)
    for bi, b in enumerate(batches):
        nf, nd = len(b["grid"]["f"]), len(b["grid"]["dir"])
        pos = all(v > 0 for p in b["pts"] for r in p["E"] for v in r)
        b["positive"] = pos
        want = ["grid", "gen_rate", "gen_bulk", "rough", "gen_rate_int", "gen_bulk_int",
                "st4_rate", "st4_bulk", "st6_rate", "st6_bulk"]
        if b["windkind"] == "u10":
            # evaluate_imbalance / evaluate_bulk_imbalance take the wind as U10 (they have no input-type argument)
            want += ["imb", "bimb"]
        b["imb_diss"] = rng.choice(["st4", "st6"])
        b["with_dedt"] = rng.random() < 0.6
        dedt = None
        if b["with_dedt"]:
            dedt = [[v * C.dyadic(rng, -1e-4, 1e-4, 8) + rng.choice([0.0, 1e-9]) for v in flat(p["E"])] for p in b["pts"]]
        b["dedt"] = dedt
        cases.append(case_of(b, want=want, dedt=dedt, imb_diss=b["imb_diss"]))
        index.append((bi, "main", None))
        # Romero on a strictly positive version of the same spectra
        b["Epos"] = [flat(positive_version(rng, p["E"])) for p in b["pts"]]
        cases.append(case_of(b, want=["rom_rate", "rom_bulk"], E_override=b["Epos"]))
        index.append((bi, "romero", None))
        # scaling and additivity at fixed roughness
        cfac = rng.choice([0.5, 2.0, 3.0, 0.25])
        b["cfac"] = cfac
        cases.append(case_of(b, want=["gen_rate"], E_override=[[cfac * v for v in flat(p["E"])] for p in b["pts"]]))
        index.append((bi, "scaled", cfac))
        b["F"] = [flat(gen_spectrum(rng, b["grid"], 10.0, rng.uniform(0, 360), kind=rng.choice(["jonswap", "random"]))[1])
                  for _ in b["pts"]]
        cases.append(case_of(b, want=["gen_rate"], E_override=b["F"]))
        index.append((bi, "other", None))
        cases.append(case_of(b, want=["gen_rate"],
                             E_override=[[x + y for x, y in zip(flat(p["E"]), F)] for p, F in zip(b["pts"], b["F"])]))
        index.append((bi, "sum", None))
        # empty spectrum on this grid / these parameters
        cases.append(case_of(b, want=["st4_rate", "st4_bulk", "st6_rate", "st6_bulk", "gen_rate"],
                             E_override=[[0.0] * (nf * nd) for _ in b["pts"]]))
        index.append((bi, "empty", None))
        # every point alone (batch independence), for batches of more than one point
        if len(b["pts"]) > 1:
            for k in range(len(b["pts"])):
                cases.append(case_of(b, pts=[b["pts"][k]],
                                     want=["gen_rate", "gen_bulk", "st4_rate", "st4_bulk", "st6_rate", "st6_bulk", "rough"]))
                index.append((bi, "alone", k))
    res = ctx.impl("C08.py", {"cases": cases}, timeout=3400)["results"]
    by = {}
    for (bi, role, info), r in zip(index, res):
        by.setdefault(bi, {}).setdefault(role, []).append((info, r))

    # ------------------------------------------------------------------ model requests
    mlines = []
    mindex = []
    for bi, b in enumerate(batches):
        main = by[bi]["main"][0][1]
        if is_err(main) or is_err(main.get("grid")):
            continue
        sg = {k: [C.unfx(v) for v in main["grid"][k]] for k in main["grid"]}
        b["sg"] = sg
        rough = None if is_err(main.get("rough")) else [C.unfx(v) for v in main["rough"]]
        b["rough"] = rough
        for k, p in enumerate(b["pts"]):
            Ef = flat(p["E"])
            mlines.append(line_gen(b["windkind"], p["U"], p["wd"], p["depth"], p["z0"], b["gp"], sg, Ef))
            mindex.append((bi, k, "gen"))
            if rough is not None and rough[k] == rough[k] and rough[k] > 0:
                mlines.append(line_gen(b["windkind"], p["U"], p["wd"], p["depth"], rough[k], b["gp"], sg, Ef))
                mindex.append((bi, k, "gen_int"))
            mlines.append(line_diss("st4", p["depth"], b["s4"], ST4_ORDER, sg, Ef))
            mindex.append((bi, k, "st4"))
            mlines.append(line_diss("st6", p["depth"], b["s6"], ST6_ORDER, sg, Ef))
            mindex.append((bi, k, "st6"))
            mlines.append(line_diss("rom", p["depth"], b["ro"], ROM_ORDER, sg, b["Epos"][k]))
            mindex.append((bi, k, "rom"))
            mlines.append("kcg %s %s" % (finf(p["depth"]), C.flist(sg["radian_frequency"])))
            mindex.append((bi, k, "kcg"))
    mres = ctx.model(mlines, timeout=3400)
    mod = {}
    for key, toks in zip(mindex, mres):
        mod[key] = toks

    # ------------------------------------------------------------------ compare + oracles
    second = []      # imbalance model lines need the model's own fields
    sindex = []
    for bi, b in enumerate(batches):
        g = b["grid"]
        nf, nd = len(g["f"]), len(g["dir"])
        n = nf * nd
        main = by[bi]["main"][0][1]
        ctx.tally("batch size %d" % len(b["pts"]))
        ctx.tally("directions %d (%s)" % (nd, g["dirkind"]))
        ctx.tally("frequency grid " + g["fkind"])
        ctx.tally("wind input type " + b["windkind"])
        ctx.tally("parameters " + ("non-default" if b["nondefault"] else "default"))
        if is_err(main):
            ctx.oracle_fail("source-term evaluation raised: %s" % main, replay_of(b, 0), key=None)
            continue
        if is_err(main.get("grid")):
            ctx.oracle_fail("spectral_grid raised: %s" % main["grid"], replay_of(b, 0))
            continue
        sg = b["sg"]
        df, dth = sg["frequency_step"], sg["direction_step"]
        # --- the spectrum's own bin widths
        edf, edth = frequency_steps(g["f"]), direction_steps(g["dir"])
        ctx.count(["grid", g["f"], g["dir"]])
        if any(not C.close(a, e, 1e-12, 1e-15) for a, e in zip(df, edf)) or \
           any(not C.close(a, e, 1e-12, 1e-12) for a, e in zip(dth, edth)) or \
           any(not C.close(a, 2 * math.pi * e, 1e-14) for a, e in zip(sg["radian_frequency"], g["f"])) or \
           any(not C.close(a, math.radians(e), 1e-14, 1e-300) for a, e in zip(sg["radian_direction"], g["dir"])):
            ctx.oracle_fail("spectral grid of the source terms differs from the spectrum's own frequencies/directions/bin widths",
                            replay_of(b, 0, {"impl_grid": sg, "expected_frequency_step": edf, "expected_direction_step": edth}))
        if abs(sum(dth) - 360.0) > 1e-9:
            ctx.oracle_fail("direction steps do not sum to 360: %r" % sum(dth), replay_of(b, 0, {"impl_grid": sg}))

        def get(case, name, k):
            """flat field / scalar of point k from an implementation result, or an error marker"""
            if is_err(case):
                return case
            v = case.get(name)
            if v is None or is_err(v):
                return v if v is not None else {"error": "missing", "msg": name}
            x = v[k]
            return unb64(x) if name in FIELD_OUTPUTS else C.unfx(x)

        rom = by[bi]["romero"][0][1]
        scaled = by[bi]["scaled"][0][1]
        other = by[bi]["other"][0][1]
        summ = by[bi]["sum"][0][1]
        empty = by[bi]["empty"][0][1]
        alone = {info: r for info, r in by[bi].get("alone", [])}
        for k, p in enumerate(b["pts"]):
            Ef = flat(p["E"])
            ctx.tally("spectrum " + p["skind"])
            ctx.tally("depth " + ("infinite" if math.isinf(p["depth"]) else "finite"))
            wdr = math.radians(p["wd"])
            cosm = [math.cos(t - wdr) for t in sg["radian_direction"]]

            # ---------------- model vs implementation, field by field
            def compare(term, mkey, implfield, implbulk, Eused, extra=None):
                toks = mod.get(mkey)
                rep = replay_of(b, k, extra)
                if is_err(implfield):
                    ctx.oracle_fail("%s raised %s" % (term, implfield), rep)
                    return None
                if toks is None:
                    return implfield
                mf, mb = parse_field(toks, n)
                if mf is None:
                    ctx.disagree("%s: model error %s" % (term, " ".join(toks[:6])), rep)
                    return implfield
                nz = any(v != 0 for v in mf)
                ctx.count([term, g["f"][:4], g["dir"][:3], Eused[:64], p["U"], p["wd"], str(p["depth"]), p["z0"],
                           sorted(b["gp"].items()) if term.startswith("gen") else term], nz)
                i = field_diff(implfield, mf)
                if i is not None:
                    rep.update({"term": term, "flat_index": i, "frequency_index": i // nd, "direction_index": i % nd,
                                "impl_value": implfield[i] if i >= 0 else None, "model_value": mf[i] if i >= 0 else None})
                    ctx.disagree("%s: implementation differs from the model at bin (%d,%d): impl %r model %r"
                                 % (term, i // nd, i % nd, implfield[i] if i >= 0 else None, mf[i] if i >= 0 else None),
                                 rep, is_property_failure=False)
                if implbulk is not None and not is_err(implbulk):
                    s, sa = bulk_terms(mf, df, dth, nf, nd)
                    if not C.close(implbulk, mb[0], 1e-9, 1e-9 * sa + 1e-300):
                        rep.update({"term": term + " bulk", "impl_value": implbulk, "model_value": mb[0]})
                        ctx.disagree("%s bulk rate: impl %r model %r" % (term, implbulk, mb[0]), rep)
                return implfield

            gr = compare("gen.rate(z0)", (bi, k, "gen"), get(main, "gen_rate", k), get(main, "gen_bulk", k), Ef)
            if b["rough"] is not None and (bi, k, "gen_int") in mod:
                gi = compare("gen.rate(internal z0)", (bi, k, "gen_int"), get(main, "gen_rate_int", k),
                             get(main, "gen_bulk_int", k), Ef, {"internal_roughness": b["rough"][k]})
            else:
                gi = get(main, "gen_rate_int", k)
                ctx.tally("internal roughness not finite")
            d4 = compare("st4 dissipation", (bi, k, "st4"), get(main, "st4_rate", k), get(main, "st4_bulk", k), Ef)
            d6 = compare("st6 dissipation", (bi, k, "st6"), get(main, "st6_rate", k), get(main, "st6_bulk", k), Ef)
            dr = compare("romero dissipation", (bi, k, "rom"), get(rom, "rom_rate", k), get(rom, "rom_bulk", k), b["Epos"][k],
                         {"variance_density_positive": unflat(b["Epos"][k], nf, nd)})

            # premise of the sign theorems: wavenumbers and group velocities of the (modelled) Newton iteration > 0
            tk = mod.get((bi, k, "kcg"))
            if tk is not None and tk[0] != "ERR":
                vals = [C.unfx(t) for t in tk[1:1 + nf]] + [C.unfx(t) for t in tk[2 + nf:2 + 2 * nf]]
                if all(v > 0 for v in vals):
                    ctx.tally("theorem premise k_i > 0, cg_i > 0 holds")
                else:
                    ctx.tally("theorem premise k_i > 0, cg_i > 0 FAILS")
                    ctx.notes.append("premise k>0/cg>0 fails for depth %r frequencies %r" % (p["depth"], g["f"]))
            # ---------------- oracles on the implementation alone
            rep = replay_of(b, k)
            if gr is not None and not is_err(gr):
                ctx.count(["oracle-gen", Ef[:64], p["U"], p["wd"], p["z0"]], any(v != 0 for v in gr))
                mx = max(abs(v) for v in gr) if gr else 0.0
                for idx, v in enumerate(gr):
                    i, j = divmod(idx, nd)
                    if not (v >= 0):
                        ctx.oracle_fail("wind input negative (or NaN) at bin (%d,%d): %r" % (i, j, v),
                                        dict(rep, frequency_index=i, direction_index=j, value=v))
                        break
                    if Ef[idx] == 0 and v != 0:
                        ctx.oracle_fail("wind input non-zero (%r) in bin (%d,%d) without energy" % (v, i, j),
                                        dict(rep, frequency_index=i, direction_index=j, value=v))
                        break
                    if cosm[j] < -1e-9 and v != 0:
                        ctx.oracle_fail("wind input non-zero (%r) in direction %d with no downwind component (cos=%r)"
                                        % (v, j, cosm[j]), dict(rep, frequency_index=i, direction_index=j, value=v))
                        break
                    if cosm[j] <= 1e-9 and abs(v) > 1e-12 * mx:
                        ctx.oracle_fail("wind input %r in direction %d perpendicular to the wind" % (v, j),
                                        dict(rep, frequency_index=i, direction_index=j, value=v))
                        break
                # bulk = sum rate df dth  with the spectrum's own widths
                gb = get(main, "gen_bulk", k)
                if not is_err(gb):
                    s, sa = bulk_terms(gr, edf, edth, nf, nd)
                    if not C.close(gb, s, 1e-10, 1e-10 * sa):
                        ctx.oracle_fail("generation bulk_rate %r is not the sum of rate*df*dtheta %r" % (gb, s),
                                        dict(rep, bulk_rate=gb, integral_of_rate=s))
                # scaling, additivity at fixed roughness
                sc = get(scaled, "gen_rate", k)
                if not is_err(sc):
                    c = b["cfac"]
                    ctx.count(["oracle-scale", Ef[:64], c])
                    for idx in range(n):
                        if not C.close(sc[idx], c * gr[idx], 1e-12, 1e-300):
                            ctx.oracle_fail("wind input not proportional to the spectrum at fixed roughness: rate(%g E)=%r, %g rate(E)=%r"
                                            % (c, sc[idx], c, c * gr[idx]),
                                            dict(rep, factor=c, frequency_index=idx // nd, direction_index=idx % nd))
                            break
                else:
                    ctx.oracle_fail("gen.rate raised on the scaled spectrum: %s" % sc, rep)
                ot, sm = get(other, "gen_rate", k), get(summ, "gen_rate", k)
                if not is_err(ot) and not is_err(sm):
                    ctx.count(["oracle-add", Ef[:64], b["F"][k][:64]])
                    for idx in range(n):
                        if not C.close(sm[idx], gr[idx] + ot[idx], 1e-11, 1e-300):
                            ctx.oracle_fail("wind input not additive in the spectrum at fixed roughness: rate(E+F)=%r rate(E)+rate(F)=%r"
                                            % (sm[idx], gr[idx] + ot[idx]),
                                            dict(rep, other_spectrum=unflat(b["F"][k], nf, nd), frequency_index=idx // nd,
                                                 direction_index=idx % nd))
                            break
            for nm, dd, Eu in (("st4", d4, Ef), ("st6", d6, Ef), ("romero", dr, b["Epos"][k])):
                if dd is None or is_err(dd):
                    continue
                ctx.count(["oracle-" + nm, Eu[:64]], any(v != 0 for v in dd))
                for idx, v in enumerate(dd):
                    if not (v <= 0):
                        ctx.oracle_fail("%s dissipation positive (or NaN) at bin (%d,%d): %r" % (nm, idx // nd, idx % nd, v),
                                        dict(rep, term=nm, frequency_index=idx // nd, direction_index=idx % nd, value=v))
                        break
                    if nm != "romero" and Eu[idx] == 0 and v != 0:
                        ctx.oracle_fail("%s dissipation non-zero (%r) in bin (%d,%d) without energy" % (nm, v, idx // nd, idx % nd),
                                        dict(rep, term=nm, frequency_index=idx // nd, direction_index=idx % nd, value=v))
                        break
                bname = {"st4": "st4_bulk", "st6": "st6_bulk", "romero": "rom_bulk"}[nm]
                bb = get(main if nm != "romero" else rom, bname, k)
                if not is_err(bb):
                    s, sa = bulk_terms(dd, edf, edth, nf, nd)
                    if not C.close(bb, s, 1e-10, 1e-10 * sa):
                        ctx.oracle_fail("%s bulk_rate %r is not the sum of rate*df*dtheta %r" % (nm, bb, s),
                                        dict(rep, term=nm, bulk_rate=bb, integral_of_rate=s))
                else:
                    ctx.oracle_fail("%s bulk_rate raised %s" % (nm, bb), rep)
            # empty spectrum
            for nm in ("st4", "st6"):
                ee = get(empty, nm + "_rate", k)
                eb = get(empty, nm + "_bulk", k)
                ctx.count(["oracle-empty", nm, bi, k], False)
                if is_err(ee) or is_err(eb):
                    ctx.oracle_fail("%s dissipation of the empty spectrum raised %s" % (nm, ee if is_err(ee) else eb), rep)
                elif any(v != 0 for v in ee) or eb != 0:
                    ctx.oracle_fail("%s dissipation of the empty spectrum is not identically zero" % nm,
                                    dict(rep, term=nm, variance_density="all zero"))
            eg = get(empty, "gen_rate", k)
            if not is_err(eg) and any(v != 0 for v in eg):
                ctx.oracle_fail("wind input of the empty spectrum is not identically zero", dict(rep, variance_density="all zero"))
            # imbalance
            dsel = d4 if b["imb_diss"] == "st4" else d6
            if b["windkind"] != "u10":
                ctx.tally("imbalance not evaluated (wind given as friction velocity)")
                continue_imb = False
            else:
                continue_imb = True
            im, bim = (get(main, "imb", k), get(main, "bimb", k)) if continue_imb else ({"error": "skip"}, {"error": "skip"})
            dedt = b["dedt"][k] if b["dedt"] is not None else [0.0] * n
            if not is_err(im) and gi is not None and not is_err(gi) and dsel is not None and not is_err(dsel):
                ctx.count(["oracle-imbalance", Ef[:64], b["imb_diss"]])
                if all(v == v for v in gi):
                    scale = max(abs(v) for v in gi + dsel + dedt)
                    for idx in range(n):
                        want = gi[idx] + dsel[idx] - dedt[idx]
                        if not C.close(im[idx], want, 1e-12, 1e-13 * scale):
                            ctx.oracle_fail("imbalance %r is not generation + dissipation - dE/dt = %r at bin (%d,%d)"
                                            % (im[idx], want, idx // nd, idx % nd),
                                            dict(rep, dissipation=b["imb_diss"], frequency_index=idx // nd, direction_index=idx % nd,
                                                 generation=gi[idx], dissipation_value=dsel[idx], dEdt=dedt[idx],
                                                 time_derivative=unflat(dedt, nf, nd) if b["dedt"] is not None else None))
                            break
                    gbi = get(main, "gen_bulk_int", k)
                    dbk = get(main, b["imb_diss"] + "_bulk", k)
                    m0 = C.unfx(main["dedt_m0"][k]) if b["dedt"] is not None and not is_err(main.get("dedt_m0")) else 0.0
                    if b["dedt"] is not None and not is_err(main.get("dedt_m0")):
                        # the variance of the supplied rate-of-change spectrum, integrated independently (direction sum,
                        # trapezoid over frequency): a decaying sea has a NEGATIVE integral, and it counts
                        fg = b["grid"]["f"]
                        ed = [sum(dedt[i_ * nd + j_] * edth[j_] for j_ in range(nd)) for i_ in range(nf)]
                        m0_ind = sum(0.5 * (ed[i_] + ed[i_ + 1]) * (fg[i_ + 1] - fg[i_]) for i_ in range(nf - 1))
                        m0_abs = sum(0.5 * (abs(ed[i_]) + abs(ed[i_ + 1])) * (fg[i_ + 1] - fg[i_]) for i_ in range(nf - 1))
                        ctx.tally("rate-of-change spectrum: net %s" % ("negative" if m0_ind < 0 else "positive"))
                        if not C.close(m0, m0_ind, 1e-9, 1e-12 * m0_abs):
                            ctx.oracle_fail("m0() of the rate-of-change spectrum is %r, its frequency-direction integral is %r "
                                            "(the bulk imbalance subtracts this term)" % (m0, m0_ind),
                                            dict(rep, dissipation=b["imb_diss"], m0_dEdt=m0, integral_dEdt=m0_ind,
                                                 time_derivative=unflat(dedt, nf, nd)))
                        m0 = m0_ind
                    if not is_err(bim) and not is_err(gbi) and not is_err(dbk):
                        want = gbi + dbk - m0
                        if not C.close(bim, want, 1e-12, 1e-13 * (abs(gbi) + abs(dbk) + abs(m0))):
                            ctx.oracle_fail("bulk imbalance %r is not bulk generation + bulk dissipation - m0(dE/dt) = %r" % (bim, want),
                                            dict(rep, dissipation=b["imb_diss"], bulk_generation=gbi, bulk_dissipation=dbk, m0_dEdt=m0))
                        second.append("bimb %s %s %s" % (C.fx(gbi), C.fx(dbk), C.fx(m0)))
                        sindex.append((bi, k, "bimb", bim))
                    elif is_err(bim):
                        ctx.oracle_fail("evaluate_bulk_imbalance raised %s" % bim, rep)
                    # the model's imbalance from the model's own fields
                    tg, td = mod.get((bi, k, "gen_int")), mod.get((bi, k, b["imb_diss"]))
                    if tg is not None and td is not None and tg[0] != "ERR" and td[0] != "ERR":
                        second.append("imb %s %s %s %s" % (grid_tokens(sg), " ".join(tg[:n]), " ".join(td[:n]), field_tokens(dedt)))
                        sindex.append((bi, k, "imb", im))
                else:
                    ctx.tally("imbalance skipped (roughness NaN)")
            elif is_err(im) and continue_imb:
                ctx.oracle_fail("evaluate_imbalance raised %s" % im, rep)
            # batch independence
            if k in alone:
                a = alone[k]
                ctx.count(["oracle-batch", bi, k])
                for nmf in ("gen_rate", "st4_rate", "st6_rate", "gen_bulk", "st4_bulk", "st6_bulk", "rough"):
                    x, y = get(main, nmf, k), get(a, nmf, 0)
                    if is_err(x) or is_err(y):
                        if is_err(x) != is_err(y):
                            ctx.oracle_fail("%s: point %d raises only %s" % (nmf, k, "in the batch" if is_err(x) else "alone"), rep)
                        continue
                    xs = x if isinstance(x, list) else [x]
                    ys = y if isinstance(y, list) else [y]
                    tol = 1e-13 if nmf != "rough" else 1e-9
                    sc = max([abs(v) for v in xs if v == v] + [0.0])
                    bad = [q for q in range(len(xs)) if not C.close(xs[q], ys[q], tol, tol * sc)]
                    if bad:
                        q = bad[0]
                        ctx.oracle_fail("%s: point %d of a batch of %d differs from the same point evaluated alone (%r vs %r)"
                                        % (nmf, k, len(b["pts"]), xs[q], ys[q]),
                                        dict(rep, output=nmf, flat_index=q, in_batch=xs[q], alone=ys[q],
                                             other_points=[replay_of(b, kk) for kk in range(len(b["pts"])) if kk != k][:7]))
                        break
            if bi < 2 and k == 0:
                ctx.sample({"grid": "%d x %d" % (nf, nd), "spectrum": p["skind"], "wind": [p["U"], p["wd"], b["windkind"]],
                            "depth": str(p["depth"]), "z0": p["z0"],
                            "gen bulk impl/model": [get(main, "gen_bulk", k), C.unfx(mod[(bi, k, "gen")][n]) if (bi, k, "gen") in mod else None],
                            "st4 bulk impl/model": [get(main, "st4_bulk", k), C.unfx(mod[(bi, k, "st4")][n]) if (bi, k, "st4") in mod else None]})
    ctx.extra["max_relative_deviation_model_vs_impl"] = MAXDEV[0]
    if second:
        sres = ctx.model(second)
        for (bi, k, what, implv), toks in zip(sindex, sres):
            b = batches[bi]
            nf, nd = len(b["grid"]["f"]), len(b["grid"]["dir"])
            rep = replay_of(b, k, {"dissipation": b["imb_diss"]})
            if what == "bimb":
                ctx.count(["bimb", bi, k])
                if not C.close(implv, C.unfx(toks[0]), 1e-12, 1e-300):
                    ctx.disagree("bulk imbalance: impl %r model %r" % (implv, C.unfx(toks[0])), rep, is_property_failure=True)
            else:
                ctx.count(["imb", bi, k])
                mf = [C.unfx(t) for t in toks]
                i = field_diff(implv, mf)
                if i is not None:
                    ctx.disagree("imbalance field: implementation differs from model (gen + diss - dE/dt) at bin (%d,%d)"
                                 % (i // nd, i % nd), dict(rep, frequency_index=i // nd, direction_index=i % nd,
                                                            impl_value=implv[i], model_value=mf[i]))


READY = True
LEVEL_TEXT = ("Theorems (Coq, every grid size, every non-negative spectrum, every wind/depth/roughness, positive physical "
              "parameters): ST4 wind input >= 0 in every bin, = 0 where E = 0 and where cos(theta_j - theta_wind) <= 0, linear in "
              "E at fixed roughness; ST4 (saturation + cumulative) and ST6 (inherent + cumulative) dissipation <= 0, = 0 where "
              "E = 0, identically 0 (field and bulk) for the empty spectrum; Romero <= 0 for positive wavenumbers / group "
              "velocities; bulk = sum_ij rate_ij df_i dtheta_j for both bulk paths; imbalance = generation + dissipation - dE/dt "
              "(spectral and bulk); batch results are the per-point results (map / nth_error). The premises on wavenumber and "
              "group velocity are discharged for deep water (the modelled Newton iteration returns w^2/g). The Gallina model "
              "follows the jitted loops line by line (mutual-angle wrap, Janssen clamp, band-integrated saturation with its edge "
              "tolerance, break in the cumulative loop, running ST6 sum, vectorised Newton wavenumber solver with its global stop) "
              "and is tied to /repo on every run by executing the extracted model and the implementation on the same generated "
              "spectra (observed deviation < 1e-14).")
LEVEL_NOTE = ("Not proved: nothing about floating point rounding; positivity of the finite-depth Newton wavenumbers (premise "
              "k_i, cg_i > 0, checked on every generated case by execution); numba/xarray layout semantics and the internally "
              "solved roughness length (generation.rate without roughness_length is compared against the model evaluated at the "
              "implementation's own roughness() output). The saturation cosine power is modelled for positive cosines "
              "(integration width < 90 degrees). Romero is stated for strictly positive spectra only (the code divides by the "
              "directional saturation). Standard-library real-number axioms only.")
TECHNIQUE = "Coq proof over a Gallina model of the jitted loops + extracted-model correspondence + relation oracles on the implementation"
DESIGN_REF = "DESIGN.md section 5 C08"
TRUSTED = ["numba compilation of the jitted source-term loops (prange, fastmath reassociation in numba_integrate_spectral_data)",
           "xarray/numpy layout of FrequencyDirectionSpectrum (one leading dimension) as exercised by harness/impl/C08.py"]
