"""C12 equilibrium-range wind estimate: closed form, f^-p tails, log law, direction conventions, 2D = 1D."""
import math

import common as C

RULE = ("one evaluation = one spectrum (member of a batch) x method x convention x parameter set; non-trivial = the "
        "spectrum has at least one positive bin and the call did not raise; distinct by hash of "
        "(grid, spectrum, method, convention, parameters)")
ASSUMPTIONS = ["floating point rounding is not modelled (friction velocity / u10 compared at 1e-9 relative, directions "
               "as unit vectors at 1e-6 degree)",
               "xarray layout semantics (isel with an index array, mean(skipna), argmax) are validated by the "
               "correspondence, not proved",
               "frequencies are >= 0 and the exponent is > 0 (numpy 0**p = 0)"]

DEFAULTS = dict(power=4.0, fmax=0.5, I=2.5, beta=0.012, kappa=0.4, grav=9.81, nb=20,
                alpha=0.012, gc=9.81, visc=0.0, nu=1.48e-5)
KWNAME = dict(power="power", fmax="fmax", I="directional_spreading_constant", beta="phillips_constant_beta",
              kappa="vonkarman_constant", grav="grav", nb="number_of_bins", alpha="charnock_constant",
              gc="gravitational_acceleration", visc="viscous_constant", nu="air_kinematic_viscosity")
NAN = float("nan")


# ------------------------------------------------------------------------------------------
# generators
# ------------------------------------------------------------------------------------------
def gen_grid(rng, nf):
    kind = rng.choice(["uniform", "uniform", "uniform0", "geometric", "jitter"])
    if kind == "uniform":
        df = rng.choice([1 / 128.0, 1 / 64.0, 3 / 256.0, 1 / 100.0 if False else 5 / 512.0])
        f0 = rng.randint(1, 8) / 128.0
        f = [f0 + i * df for i in range(nf)]
    elif kind == "uniform0":
        df = rng.choice([1 / 128.0, 1 / 64.0])
        f = [i * df for i in range(nf)]
    elif kind == "geometric":
        f0 = rng.randint(2, 6) / 128.0
        q = rng.choice([1.03, 1.05, 1.07])
        f = []
        x = f0
        for i in range(nf):
            f.append(round(x * 4096) / 4096.0)
            x *= q
        f = sorted(set(f))
        while len(f) < nf:
            f.append(f[-1] + 1 / 64.0)
    else:
        df = 1 / 64.0
        f0 = rng.randint(1, 6) / 128.0
        f = [f0 + i * df + rng.randint(-8, 8) / 4096.0 for i in range(nf)]
    return kind, f


def gen_params(rng, nf):
    """returns (P: full parameter dict as used by the model, kw: what is passed explicitly, power_int)"""
    P = dict(DEFAULTS)
    kw = {}
    power_int = False
    mode = rng.random()
    if mode < 0.3:
        pass
    else:
        for k in P:
            if rng.random() < 0.6:
                if k == "power":
                    v = rng.choice([4.0, 4.0, 5.0, 3.5, 4.5, 3.0])
                    power_int = (v == int(v)) and rng.random() < 0.5
                elif k == "fmax":
                    v = None   # filled by caller (depends on the grid)
                elif k == "I":
                    v = C.dyadic(rng, 1.5, 3.5, 8)
                elif k == "beta":
                    v = C.dyadic(rng, 0.008, 0.02, 8)
                elif k == "kappa":
                    v = C.dyadic(rng, 0.35, 0.45, 8)
                elif k == "grav":
                    v = C.dyadic(rng, 9.7, 9.9, 10)
                elif k == "nb":
                    v = rng.randint(3, min(25, max(3, nf - 3)))
                elif k == "alpha":
                    v = C.dyadic(rng, 0.008, 0.03, 8)
                elif k == "gc":
                    v = C.dyadic(rng, 9.7, 9.9, 10)
                elif k == "visc":
                    v = rng.choice([0.0, 0.11, 0.25])
                else:
                    v = C.dyadic(rng, 1e-5, 2e-5, 8)
                if v is not None:
                    P[k] = v
                    kw[k] = v
    if "power" not in kw:
        power_int = True      # library default is the int 4
    return P, kw, power_int


def pick_fmax(rng, f, P, kw):
    r = rng.random()
    if r < 0.35 and "fmax" not in kw:
        return                      # library default 0.5
    if r < 0.55:
        v = f[rng.randint(len(f) // 2, len(f) - 1)]                 # exactly a grid point
    elif r < 0.7:
        i = rng.randint(len(f) // 2, len(f) - 2)
        v = 0.5 * (f[i] + f[i + 1])                                 # exact tie between two bins
    elif r < 0.85:
        v = f[-1] + rng.choice([0.0, 0.25, 3.0])                    # at / beyond the end of the grid
    else:
        v = C.dyadic(rng, f[len(f) // 3], f[-1], 10)
    P["fmax"] = v
    kw["fmax"] = v


def mean_range(f, P):
    """(i_min, i_max) of the code, from the definition (independent of the model)"""
    nf = len(f)
    nb = P["nb"]
    a0 = [abs(x - 0) for x in f]
    a1 = [abs(x - P["fmax"]) for x in f]
    imin = a0.index(min(a0))
    ifm = a1.index(min(a1))
    imax = min(max(imin + 1, ifm + 1 - nb), nf - nb)
    return imin, imax


def gen_spectrum(rng, f, P, method, kind):
    """returns dict(E, a1, b1, meta) for one spectrum; meta has the oracle facts"""
    nf = len(f)
    p = P["power"]
    nb = P["nb"]
    meta = {"kind": kind}
    th = rng.uniform(0, 2 * math.pi)
    a1 = []
    b1 = []
    for i in range(nf):
        t = rng.uniform(0, 2 * math.pi)
        r = C.dyadic(rng, 0.2, 0.95, 10)
        a1.append(C.dyadic(rng, -1, 1, 12) if rng.random() < 0.2 else r * math.cos(t))
        b1.append(C.dyadic(rng, -1, 1, 12) if rng.random() < 0.2 else r * math.sin(t))
    if kind in ("tail", "longtail"):
        c = C.dyadic(rng, 2.0 ** -14, 2.0 ** -7, 12)
        imin, imax = mean_range(f, P)
        if method == "mean":
            if imax <= imin:
                kind = meta["kind"] = "random"
            else:
                s = rng.randint(imin, imax - 1)
                if rng.random() < 0.3:
                    s = imax - 1
                ln = nb if kind == "tail" else nb + rng.randint(1, 6)
                e_ = min(nf, s + ln)
        else:
            s = rng.randint(1, nf - 2)
            e_ = rng.randint(s + 1, nf)
        if kind in ("tail", "longtail") and f[s] == 0.0:
            kind = meta["kind"] = "random"      # E f^p = c is impossible at f = 0
        if kind in ("tail", "longtail"):
            rr = C.dyadic(rng, 0.3, 0.9, 8)
            E = []
            for i in range(nf):
                if f[i] == 0.0:
                    E.append(0.0)
                    continue
                lvl = c / (f[i] ** p)
                if s <= i < e_:
                    E.append(lvl)
                    a1[i] = rr * math.cos(th)
                    b1[i] = rr * math.sin(th)
                else:
                    E.append(lvl * C.dyadic(rng, 0.05, 0.9, 8))
            meta.update({"c": c, "theta_deg": math.degrees(th), "tail": [s, e_]})
            return {"E": E, "a1": a1, "b1": b1, "meta": meta}
    if kind == "allnan":
        return {"E": [NAN] * nf, "a1": a1, "b1": b1, "meta": meta}
    if kind == "allzero":
        return {"E": [0.0] * nf, "a1": a1, "b1": b1, "meta": meta}
    # random shapes (positive), optionally with NaN / zero bins
    fp = f[rng.randint(1, max(1, nf // 3))]
    E = []
    for i in range(nf):
        x = f[i] / fp if fp > 0 else 1.0
        base = (x ** 4) if x < 1 else (x ** -rng.choice([3.5, 4, 4.5]))
        E.append(C.dyadic(rng, 0.2, 1.0, 10) * base * 2.0 ** -rng.randint(0, 6))
    if kind == "nan":
        for i in range(nf):
            if rng.random() < 0.12:
                E[i] = NAN
            if rng.random() < 0.05:
                a1[i] = NAN
            if rng.random() < 0.05:
                b1[i] = NAN
        if rng.random() < 0.3:      # a long NaN run (an all-NaN window for the mean method)
            s = rng.randint(0, max(0, nf - nb - 2))
            for i in range(s, min(nf, s + nb + 2)):
                E[i] = NAN
    if kind == "zeros":
        for i in range(nf):
            if rng.random() < 0.15:
                E[i] = 0.0
        if rng.random() < 0.3:
            s = rng.randint(0, max(0, nf - nb - 2))
            for i in range(s, min(nf, s + nb + 2)):
                E[i] = 0.0
    return {"E": E, "a1": a1, "b1": b1, "meta": meta}


def gen_dirs(rng):
    nd = rng.choice([4, 8, 12, 16, 24, 36])
    if rng.random() < 0.7:
        off = rng.choice([0.0, 5.0, 7.5, 180.0, 352.5])
        d = [(off + j * 360.0 / nd) for j in range(nd)]
        if rng.random() < 0.5:
            d = [x % 360.0 for x in d]
    else:
        cuts = sorted(rng.sample(range(1, 720), nd))
        d = [x / 2.0 for x in cuts]
    return d


# ------------------------------------------------------------------------------------------
# formatting for the model
# ------------------------------------------------------------------------------------------
def params_tokens(P):
    return " ".join([C.fx(P["power"]), C.fx(P["fmax"]), C.fx(P["I"]), C.fx(P["beta"]), C.fx(P["kappa"]),
                     C.fx(P["grav"]), str(int(P["nb"])), C.fx(P["alpha"]), C.fx(P["gc"]), C.fx(P["visc"]),
                     C.fx(P["nu"])])


def unit_deg(d):
    return math.cos(math.radians(d)), math.sin(math.radians(d))


def dir_close(a, b, tol_deg=1e-6):
    if math.isnan(a) or math.isnan(b):
        return math.isnan(a) and math.isnan(b)
    ua = unit_deg(a)
    ub = unit_deg(b)
    return math.hypot(ua[0] - ub[0], ua[1] - ub[1]) <= math.radians(tol_deg)


def u10_formula(P, u):
    if math.isnan(u):
        return NAN
    z0 = P["alpha"] * u * u / P["gc"] + (P["visc"] * P["nu"] / u if u > 0 else 0.0)
    if not z0 > 0:
        return NAN
    return u / P["kappa"] * math.log(10.0 / z0)


def fill0(x):
    return 0.0 if math.isnan(x) else x


def scaled_py(f, E, p):
    return [e * (0.0 if x == 0.0 else x ** p) for x, e in zip(f, E)]


def near_tie(f, E, P, method):
    """is the selected index decided by rounding?  (two candidate windows / bins whose selection key agrees to
    1e-9 relative: the implementation and the model may then legitimately select different bins)"""
    sc = scaled_py(f, E, P["power"])
    if method == "peak":
        v = sorted((fill0(x) for x in sc), reverse=True)
        return len(v) > 1 and v[0] != v[1] and abs(v[0] - v[1]) <= 1e-9 * abs(v[0])
    imin, imax = mean_range(f, P)
    nb = P["nb"]
    var = []
    for i in range(imin, imax):
        w = [x for x in sc[i:i + nb] if not math.isnan(x)]
        if not w:
            return False            # a NaN window: first NaN wins in both
        mu = sum(w) / len(w)
        if mu == 0:
            return False
        var.append(sum((x - mu) ** 2 for x in w) / len(w) / mu ** 2)
    v = sorted(var)
    return len(v) > 1 and abs(v[0] - v[1]) <= 1e-9 * max(abs(v[0]), 1e-30) + 1e-25


# ------------------------------------------------------------------------------------------
def run(ctx):
    rng = ctx.rng
    ncase = ctx.n(140, 3500)
    cases = []
    metas = []
    mlines = []
    # ---------------------------------------------------------------- 1D cases
    for ic in range(ncase):
        method = rng.choice(["peak", "mean"])
        nf = rng.randint(8, 30) if rng.random() < 0.15 else rng.randint(30, 90)
        gk, f = gen_grid(rng, nf)
        nf = len(f)
        P, kw, power_int = gen_params(rng, nf)
        pick_fmax(rng, f, P, kw)
        conv = rng.choice([None, "going_to_counter_clockwise_east", "coming_from_clockwise_north",
                           "coming_from_clockwise_north"])
        r = rng.random()
        if r < 0.12:
            layout = []
        elif r < 0.75:
            layout = [rng.randint(1, 4)]
        else:
            layout = [rng.randint(1, 3), rng.randint(1, 3)]
        nspec = 1
        for x in layout:
            nspec *= x
        specs = []
        for j in range(nspec):
            kind = rng.choice(["tail", "tail", "longtail", "random", "random", "nan", "zeros", "allnan", "allzero"]
                              if nspec > 1 else ["tail", "tail", "longtail", "random", "random", "nan", "zeros"])
            specs.append(gen_spectrum(rng, f, P, method, kind))
        # a power-of-two rescaled copy of the whole batch (exact in binary floating point): linearity oracle
        scale = None
        if rng.random() < 0.35:
            scale = 2.0 ** rng.randint(-3, 4)
        case = {"kind": "1d", "layout": layout, "method": method, "convention": conv,
                "kw": {KWNAME[k]: (int(v) if k == "nb" else C.fx(v)) for k, v in kw.items()},
                "power_int": power_int, "positional": rng.random() < 0.3,
                "f": [C.fx(x) for x in f],
                "E": [[C.fx(x) for x in s["E"]] for s in specs],
                "a1": [[C.fx(x) for x in s["a1"]] for s in specs],
                "b1": [[C.fx(x) for x in s["b1"]] for s in specs]}
        cases.append(case)
        m = {"ci": len(cases) - 1, "grid": gk, "f": f, "P": P, "kw": kw, "method": method, "conv": conv,
             "layout": layout, "specs": specs, "mline0": len(mlines), "scaled_case": None, "power_int": power_int}
        cf = "T" if conv == "coming_from_clockwise_north" else "F"
        mm = "P" if method == "peak" else "M"
        for s in specs:
            tail = "%s %s %s %s" % (C.flist(f), C.flist(s["E"]), C.flist(s["a1"]), C.flist(s["b1"]))
            mlines.append("est1d %s %s %s %s" % (mm, cf, params_tokens(P), tail))
            mlines.append("eq %s %s %s" % (mm, params_tokens(P), tail))
        if scale is not None:
            c2 = dict(case)
            c2["E"] = [[C.fx(x * scale) for x in s["E"]] for s in specs]
            cases.append(c2)
            m["scaled_case"] = len(cases) - 1
            m["scale"] = scale
        metas.append(m)
    # ---------------------------------------------------------------- 2D cases
    n2 = ctx.n(40, 800)
    metas2 = []
    for ic in range(n2):
        method = rng.choice(["peak", "mean"])
        nf = rng.randint(24, 60)
        gk, f = gen_grid(rng, nf)
        nf = len(f)
        P, kw, power_int = gen_params(rng, nf)
        pick_fmax(rng, f, P, kw)
        conv = rng.choice([None, "coming_from_clockwise_north"])
        dirs = gen_dirs(rng)
        nd = len(dirs)
        layout = [] if (rng.random() < 0.2 and method == "peak") else [rng.randint(1, 3)]
        nspec = 1
        for x in layout:
            nspec *= x
        specs = []
        for j in range(nspec):
            kind = rng.choice(["random", "random", "single", "nan", "zerorow"])
            fp = f[rng.randint(1, nf // 3)]
            rows = []
            jdir = rng.randrange(nd)
            for i in range(nf):
                x = f[i] / fp
                base = (x ** 4) if x < 1 else (x ** -4)
                if kind == "single":
                    row = [0.0] * nd
                    row[jdir] = C.dyadic(rng, 0.2, 1, 10) * base
                else:
                    row = [C.dyadic(rng, 0.0, 1, 10) * base * (1.0 if rng.random() < 0.8 else 0.0) for _ in range(nd)]
                if kind == "nan":
                    row = [NAN if rng.random() < 0.1 else v for v in row]
                    if rng.random() < 0.05:
                        row = [NAN] * nd
                if kind == "zerorow" and rng.random() < 0.2:
                    row = [0.0] * nd
                rows.append(row)
            specs.append({"rows": rows, "kind": kind})
        case = {"kind": "2d", "layout": layout, "method": method, "convention": conv,
                "kw": {KWNAME[k]: (int(v) if k == "nb" else C.fx(v)) for k, v in kw.items()},
                "power_int": power_int, "positional": False,
                "f": [C.fx(x) for x in f], "dirs": [C.fx(x) for x in dirs],
                "E": [[[C.fx(x) for x in row] for row in s["rows"]] for s in specs]}
        cases.append(case)
        m = {"ci": len(cases) - 1, "grid": gk, "f": f, "dirs": dirs, "P": P, "kw": kw, "method": method,
             "conv": conv, "layout": layout, "specs": specs, "mline0": len(mlines)}
        cf = "T" if conv == "coming_from_clockwise_north" else "F"
        mm = "P" if method == "peak" else "M"
        for s in specs:
            rows = "%d %s" % (nf, " ".join(C.flist(r) for r in s["rows"]))
            mlines.append("est2d %s %s %s %s %s %s" % (mm, cf, params_tokens(P), C.flist(f), C.flist(dirs), rows))
            mlines.append("red2d %s %s" % (C.flist(dirs), rows))
        metas2.append(m)
    # ---------------------------------------------------------------- corpus: known finding (0-d, mean)
    f0 = [(i + 2) / 64.0 for i in range(40)]
    corpus_case = {"kind": "1d", "layout": [], "method": "mean", "convention": None, "kw": {}, "power_int": True,
                   "positional": False, "f": [C.fx(x) for x in f0],
                   "E": [[C.fx(2.0 ** -10 / x ** 4) for x in f0]],
                   "a1": [[C.fx(0.5)] * 40], "b1": [[C.fx(0.25)] * 40]}
    cases.append(corpus_case)

    impl = ctx.impl("C12.py", {"cases": cases})["results"]
    mod = ctx.model(mlines)

    def replay_of(m, j=None):
        rep = {"op": "estimate_u10_from_spectrum", "method": m["method"], "direction_convention": m["conv"],
               "keyword_arguments": {KWNAME[k]: v for k, v in m["kw"].items()}, "layout": m["layout"],
               "frequency": m["f"]}
        if "dirs" in m:
            rep["direction"] = m["dirs"]
            rep["variance_density"] = [s["rows"] for s in m["specs"]] if j is None else m["specs"][j]["rows"]
        else:
            ss = m["specs"] if j is None else [m["specs"][j]]
            rep["variance_density"] = [s["E"] for s in ss]
            rep["a1"] = [s["a1"] for s in ss]
            rep["b1"] = [s["b1"] for s in ss]
            rep["meta"] = [s["meta"] for s in ss]
        if j is not None:
            rep["member_of_batch"] = j
        return rep

    # ================================================================= 1D
    for m in metas:
        im = impl[m["ci"]]
        P = m["P"]
        method = m["method"]
        f = m["f"]
        nf = len(f)
        cf = m["conv"] == "coming_from_clockwise_north"
        imin, imax = mean_range(f, P)
        raises_expected = (method == "mean" and imax <= imin)
        zero_d_mean = (method == "mean" and m["layout"] == [])
        ctx.tally("method:" + method)
        ctx.tally("layout:%dd" % len(m["layout"]))
        ctx.tally("grid:" + m["grid"])
        ctx.tally("convention:" + str(m["conv"]))
        ctx.tally("params:" + ("default" if not m["kw"] else "custom"))
        if isinstance(im, dict) and "error" in im:
            mo = mod[m["mline0"]]
            if zero_d_mean:
                ctx.tally("known:mean-method-0d-raises")
                ctx.oracle_fail("mean method raises %s for a single spectrum without leading dimensions" % im["error"],
                                replay_of(m), key="windestimate.equilibrium_range_values:mean-method-0d")
                continue
            if raises_expected and mo == ["X"]:
                ctx.tally("raises (window range empty, as modelled)")
                ctx.count(["raise", f, P["nb"], P["fmax"]], False)
                continue
            ctx.disagree("implementation raised %s, model returned %s" % (im, mo[:3]), replay_of(m),
                         is_property_failure=(mo != ["X"]))
            continue
        if zero_d_mean:
            ctx.notes.append("0-d mean-method call did not raise any more")
        nspec = len(m["specs"])
        if len(im["ustar"]) != nspec or im["shape"] != m["layout"]:
            ctx.disagree("output shape %s for leading shape %s" % (im["shape"], m["layout"]), replay_of(m),
                         is_property_failure=True)
            continue
        ims = impl[m["scaled_case"]] if m["scaled_case"] is not None else None
        for j, s in enumerate(m["specs"]):
            mo = mod[m["mline0"] + 2 * j]
            me = mod[m["mline0"] + 2 * j + 1]
            rep = replay_of(m, j)
            E = s["E"]
            nontriv = any((not math.isnan(x)) and x > 0 for x in E)
            ctx.count([f, E, s["a1"][:8], s["b1"][:8], method, m["conv"], sorted(m["kw"].items())], nontriv)
            ctx.tally("spectrum:" + s["meta"]["kind"])
            us = C.unfx(im["ustar"][j])
            d = C.unfx(im["dir"][j])
            u10 = C.unfx(im["u10"][j])
            ee = C.unfx(im["eq"]["e"][j])
            ea = C.unfx(im["eq"]["a1"][j])
            eb = C.unfx(im["eq"]["b1"][j])
            rep["impl"] = {"friction_velocity": us, "direction": d, "u10": u10, "eq_level": ee, "a1": ea, "b1": eb}
            if mo == ["X"]:
                ctx.disagree("model: the code should raise (empty window range); implementation returned", rep)
                continue
            mus, md, mu10 = (C.unfx(t) for t in mo[:3])
            mee, mea, meb = (C.unfx(t) for t in me[:3])
            rep["model"] = {"friction_velocity": mus, "direction": md, "u10": mu10, "eq_level": mee}
            if ctx.evaluations <= 3:
                ctx.sample({"method": method, "convention": m["conv"], "nf": nf, "kind": s["meta"]["kind"],
                            "impl": rep["impl"], "model": rep["model"]})
            # ---- correspondence
            u10scale = None if math.isnan(mu10) or math.isnan(mus) else abs(mus / P["kappa"]) * (abs(math.log(10.0)) + 1)
            sing = (not math.isnan(mea)) and (not math.isnan(meb)) and math.hypot(mea, meb) < 1e-6 and (mea, meb) != (0.0, 0.0)
            diffs = []
            if not C.close(ee, mee, 1e-9, 1e-300):
                diffs.append("equilibrium level: impl %r model %r" % (ee, mee))
            if not C.close(us, mus, 1e-9, 1e-300):
                diffs.append("friction velocity: impl %r model %r" % (us, mus))
            if not C.close(u10, mu10, 1e-9, 1e-300, u10scale):
                diffs.append("u10: impl %r model %r" % (u10, mu10))
            if sing:
                ctx.tally("skipped: direction of a near-zero (a1,b1)")
            else:
                if not dir_close(d, md):
                    diffs.append("direction: impl %r model %r" % (d, md))
                if not (C.close(ea, mea, 1e-9, 1e-12) and C.close(eb, meb, 1e-9, 1e-12)):
                    diffs.append("a1/b1 at the selected frequencies: impl (%r,%r) model (%r,%r)" % (ea, eb, mea, meb))
            if diffs and near_tie(f, E, P, method):
                # two windows / bins tie in exact arithmetic (e.g. they differ by exchanging one zero bin for
                # another): which one is selected is decided by rounding, so this comparison says nothing
                ctx.tally("skipped: selected bin decided by rounding (tie of the selection key)")
            else:
                for t in diffs:
                    ctx.disagree(t, rep, is_property_failure=True)
            # ---- oracles on the implementation alone
            # (a) closed form from the implementation's own equilibrium level
            want = 8 * math.pi ** 3 * ee / (4 * P["grav"] * P["I"] * P["beta"])
            if not C.close(us, want, 1e-12, 1e-300):
                ctx.oracle_fail("friction velocity %r is not 8 pi^3 E_eq/(4 g I beta) = %r" % (us, want), rep)
            # (b) peak method: E_eq is the maximum of fillna0(E f^p)
            sc = scaled_py(f, E, P["power"])
            if method == "peak":
                mx = max(fill0(x) for x in sc)
                if not C.close(ee, mx, 1e-12, 1e-300):
                    ctx.oracle_fail("peak method: E_eq %r is not max(E f^p) = %r" % (ee, mx), rep)
            # (c) analytic tails: E_eq = c, direction = tail direction
            if s["meta"]["kind"] in ("tail", "longtail"):
                c = s["meta"]["c"]
                if not C.close(ee, c, 1e-12 * 50, 0):
                    ctx.oracle_fail("spectrum with a c f^-p range: E_eq = %r, c = %r (%s method)" % (ee, c, method), rep)
                td = s["meta"]["theta_deg"]
                expd = (270.0 - td) if cf else td
                if not dir_close(d, expd, 1e-6):
                    ctx.oracle_fail("direction %r, tail direction (in the requested convention) %r" % (d, expd % 360), rep)
            # (d) range
            if not math.isnan(d) and not (0.0 <= d <= 360.0):
                ctx.oracle_fail("direction %r outside [0,360)" % d, rep)
            # (e) log law with Charnock roughness
            wu = u10_formula(P, us)
            if not C.close(u10, wu, 1e-11, 1e-300, None if math.isnan(wu) else abs(us / P["kappa"]) * 3):
                ctx.oracle_fail("u10 %r is not u*/kappa ln(10/z0) = %r" % (u10, wu), rep)
            # (f) linear in E (power-of-two factor: exact)
            if ims is not None and not (isinstance(ims, dict) and "error" in ims):
                us2 = C.unfx(ims["ustar"][j])
                if not C.close(us2, m["scale"] * us, 1e-12, 1e-300):
                    rep2 = dict(rep)
                    rep2["scale"] = m["scale"]
                    ctx.oracle_fail("friction velocity of %g*E is %r, %g * friction velocity of E is %r"
                                    % (m["scale"], us2, m["scale"], m["scale"] * us), rep2)
                ctx.tally("oracle:linear-scaling")
            # (g) convention: both conventions on the same call
            dg = C.unfx(im["dir_gt"][j]) if "dir_gt" in im else None
            dc = C.unfx(im["dir_cf"][j]) if "dir_cf" in im else None
            if dg is not None and not math.isnan(dg):
                # bearing dc (clockwise from north): unit vector (east, north) = (sin, cos); must be the opposite
                # of the going-to vector (cos dg, sin dg)
                ve = math.sin(math.radians(dc)); vn = math.cos(math.radians(dc))
                ge = math.cos(math.radians(dg)); gn = math.sin(math.radians(dg))
                if math.hypot(ve + ge, vn + gn) > 1e-7:
                    ctx.oracle_fail("coming-from bearing %r is not opposite to going-to direction %r" % (dc, dg), rep)
                if not (0.0 <= dc <= 360.0):
                    ctx.oracle_fail("coming-from direction %r outside [0,360)" % dc, rep)
    # ================================================================= 2D
    for m in metas2:
        im = impl[m["ci"]]
        P = m["P"]
        f = m["f"]
        method = m["method"]
        imin, imax = mean_range(f, P)
        ctx.tally("2d:method:" + method)
        if isinstance(im, dict) and "error" in im:
            mo = mod[m["mline0"]]
            if method == "mean" and imax <= imin and mo == ["X"]:
                ctx.tally("2d: raises (window range empty, as modelled)")
                continue
            ctx.disagree("2D: implementation raised %s, model returned %s" % (im, mo[:3]), replay_of(m),
                         is_property_failure=(mo != ["X"]))
            continue
        nf = len(f)
        for j, s in enumerate(m["specs"]):
            mo = mod[m["mline0"] + 2 * j]
            mr = mod[m["mline0"] + 2 * j + 1]
            rep = replay_of(m, j)
            ctx.count([f, m["dirs"], s["rows"][:6], method, m["conv"], sorted(m["kw"].items())], True)
            ctx.tally("2d:spectrum:" + s["kind"])
            us = C.unfx(im["ustar"][j]); d = C.unfx(im["dir"][j]); u10 = C.unfx(im["u10"][j])
            us1 = C.unfx(im["ustar_1d"][j]); d1 = C.unfx(im["dir_1d"][j]); u101 = C.unfx(im["u10_1d"][j])
            rep["impl"] = {"friction_velocity": us, "direction": d, "u10": u10,
                           "via_1d": {"friction_velocity": us1, "direction": d1, "u10": u101}}
            # 2D equals its 1D reduction (implementation alone)
            if not (C.close(us, us1, 1e-12) and C.close(u10, u101, 1e-12) and dir_close(d, d1, 1e-9)):
                ctx.oracle_fail("2D input differs from its 1D reduction: %r vs %r" % ((us, d, u10), (us1, d1, u101)), rep)
            # the 1D reduction itself against the model
            k0 = 1
            es = [C.unfx(t) for t in mr[k0:k0 + nf]]
            k1 = k0 + nf + 1
            a1s = [C.unfx(t) for t in mr[k1:k1 + nf]]
            k2 = k1 + nf + 1
            b1s = [C.unfx(t) for t in mr[k2:k2 + nf]]
            ie = [C.unfx(t) for t in im["red"]["e"][j * nf:(j + 1) * nf]]
            ia = [C.unfx(t) for t in im["red"]["a1"][j * nf:(j + 1) * nf]]
            ib = [C.unfx(t) for t in im["red"]["b1"][j * nf:(j + 1) * nf]]
            bad = None
            for i in range(nf):
                sc_e = sum(abs(fill0(v)) for v in s["rows"][i]) * 360.0 + 1e-300
                if not C.close(ie[i], es[i], 1e-9, 0, sc_e):
                    bad = ("e", i, ie[i], es[i]); break
                if math.isnan(a1s[i]) != math.isnan(ia[i]) or math.isnan(b1s[i]) != math.isnan(ib[i]):
                    bad = ("a1/b1 NaN pattern", i, (ia[i], ib[i]), (a1s[i], b1s[i])); break
                if not math.isnan(a1s[i]) and es[i] > 1e-9 * sc_e:
                    if not (C.close(ia[i], a1s[i], 1e-9, 1e-9) and C.close(ib[i], b1s[i], 1e-9, 1e-9)):
                        bad = ("a1/b1", i, (ia[i], ib[i]), (a1s[i], b1s[i])); break
            if bad:
                ctx.disagree("1D reduction of the 2D spectrum (%s) at bin %d: impl %r model %r" % bad, rep,
                             is_property_failure=True)
                continue
            if mo == ["X"]:
                ctx.disagree("2D: model says the code should raise; implementation returned", rep)
                continue
            mus, md, mu10 = (C.unfx(t) for t in mo[:3])
            rep["model"] = {"friction_velocity": mus, "direction": md, "u10": mu10}
            diffs = []
            if not C.close(us, mus, 1e-9, 1e-300):
                diffs.append("2D friction velocity: impl %r model %r" % (us, mus))
            u10scale = None if math.isnan(mu10) or math.isnan(mus) else abs(mus / P["kappa"]) * 4
            if not C.close(u10, mu10, 1e-9, 1e-300, u10scale):
                diffs.append("2D u10: impl %r model %r" % (u10, mu10))
            if not dir_close(d, md, 1e-5):
                diffs.append("2D direction: impl %r model %r" % (d, md))
            if diffs and near_tie(f, ie, P, method):
                ctx.tally("skipped: selected bin decided by rounding (tie of the selection key)")
            else:
                for t in diffs:
                    ctx.disagree(t, rep, is_property_failure=True)
    ctx.extra["corpus"] = "0-d mean-method call (known finding) exercised"
    # corpus case (last)
    imc = impl[len(cases) - 1]
    if isinstance(imc, dict) and "error" in imc:
        ctx.oracle_fail("mean method raises %s for a single spectrum without leading dimensions" % imc["error"],
                        {"op": "estimate_u10_from_spectrum", "method": "mean", "layout": [], "frequency": f0,
                         "variance_density": [2.0 ** -10 / x ** 4 for x in f0]},
                        key="windestimate.equilibrium_range_values:mean-method-0d")


READY = True
LEVEL_TEXT = ("Theorems (Coq, over R, all spectra / grids / batch sizes / parameter sets): the friction velocity returned by "
              "the estimate is 8 pi^3 E_eq/(4 g I beta) for both methods; peak method: E_eq is the maximum of "
              "fillna0(E f^p), attained at the first maximal bin, where a1,b1 are read; a spectrum with E f^p = c at a bin "
              "and <= c elsewhere has E_eq = c (peak); mean method modelled with the code's index range [i_min,i_max), "
              "skip-NaN window statistics, numpy's NaN-first argmin and the clipping of the averaged indices to "
              "nf-1-nb: if E f^p = c on the nb bins of a window inside the searched range (no NaN, positive spectrum, "
              "every flat window at the same level) then E_eq = c; scaling the spectrum by c>0 scales u* by c and leaves "
              "the selected bins and the direction unchanged (both methods, NaN bins included); U10 = u*/kappa "
              "ln(10/z0) with the Charnock z0 (viscous term included), z0 > 0 for u* > 0; direction = "
              "fmod(atan2(b1,a1) 180/pi, 360) lies in [0,360) and its unit vector is (a1,b1)/|(a1,b1)| (atan2 defined by "
              "quadrant from atan and proved against cos/sin); the coming-from/clockwise-from-north bearing "
              "fmod(270-d,360) has sin = -cos d, cos = -sin d (opposite of the going-to vector) and lies in [0,360); the "
              "convention switch touches only the direction; a 2D spectrum gives the result of its 1D reduction; batch "
              "members are independent. Examples show the premises of both level theorems are satisfiable. The model is "
              "tied to windestimate.py / roughness.py / spectrum.py by running the extracted model and "
              "estimate_u10_from_spectrum + equilibrium_range_values + as_frequency_spectrum on the same generated "
              "spectra (analytic tails, random, NaN, zero, all-NaN, all-zero; 0-2 leading dimensions; default and "
              "non-default keyword arguments; 2D).")
LEVEL_NOTE = ("Not proved: floating point rounding (comparison at 1e-9 relative, directions as unit vectors); xarray's isel / "
              "mean(skipna) / argmax semantics are modelled and validated only by execution. When two windows (mean) or "
              "two bins (peak) tie in exact arithmetic the selected one is decided by rounding: such cases (detected "
              "independently from the input) are excluded from the model comparison and counted in the evidence; the "
              "implementation-only oracles still apply to them. Frequencies are assumed >= 0 and ascending (then "
              "i_min = 0). Known finding (kept as a corpus case): the mean method raises ValueError for a single 1D "
              "spectrum without leading dimensions.")
TECHNIQUE = "Coq proof over R + extracted-model correspondence + closed-form oracles on the implementation"
DESIGN_REF = "DESIGN.md section 5 C12"
TRUSTED = ["numpy/xarray: argmax/argmin tie and NaN rules, mean(skipna), fancy indexing (modelled, validated by correspondence)",
           "libm pow/atan/log in OCaml vs numpy (differences far below the 1e-9 tolerance)"]
