def run(ctx):
    pass
