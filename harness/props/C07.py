"""C07 wavenumber solver / group velocity / spectrum members.

Correspondence: the extracted Coq model (coq/Model/Dispersion.v) and wavetheory/lineardispersion.py
(+ the WaveSpectrum members) run on the same calls, compared at 1e-9 relative.
Oracles on the implementation alone: positivity, residual of the dispersion relation at the solver
tolerance, exact deep-water value, shallow/deep limits, monotone scans in w and d, finite-difference
group velocity (2e-3), ratio in [0.5, 1], spectrum members = the functions at the spectrum's
frequencies and per-point depths (NaN depth = deep)."""
import math

import common as C

G0 = 9.81
TOL0 = 1e-3
RULE = ("one evaluation = one (w,d) point of a solver call, one (k,d) point of a kinematics call or one "
        "(point,frequency) element of a spectrum member; non-trivial = finite depth with 1e-3 < kd < 30 "
        "(Newton update does real work) ; distinct by (call signature, w, d) hash")
ASSUMPTIONS = ["floating point rounding is not modelled: model and implementation are compared at 1e-9 relative, "
               "calls whose convergence test is decided within 1e-9 of the tolerance are skipped and counted",
               "convergence within 10 Newton steps is validated by execution (one-parameter family scan), not proved",
               "numba compiles lineardispersion.py faithfully",
               "the element-wise translator harness/translate_pointwise.py (Python AST -> Coq text over R, fail-closed) is trusted to map each accepted construct to its meaning: wavetheory/lineardispersion.py -> Generated/DispersionSrc.v (finite depth only; the loop schema of Proofs/DispersionGen.v is hand-written)"]

SRC_FUNCS = ["intrinsic_dispersion_relation", "phase_velocity", "ratio_group_velocity_to_phase_velocity",
             "intrinsic_group_velocity", "jacobian_wavenumber_to_radial_frequency",
             "jacobian_radial_frequency_to_wavenumber", "inverse_intrinsic_dispersion_relation"]
SRC_ALIASES = {"c": "phase_velocity", "cg": "intrinsic_group_velocity", "k": "inverse_intrinsic_dispersion_relation",
               "w": "intrinsic_dispersion_relation", "n": "ratio_group_velocity_to_phase_velocity"}


def pregen(ctx):
    """regenerate coq/Generated/DispersionSrc.v from the CURRENT wavetheory/lineardispersion.py (fail-closed
    element-wise translator); Proofs/DispersionGen.v proves the regenerated formulas and loop pieces equal to
    the model, so a changed formula breaks a proof obligation of Properties/C07.v"""
    import os, sys
    sys.path.insert(0, os.path.join(C.VERIF, "harness"))
    import translate_pointwise as TP
    src = os.path.join(C.REPO, "src", "ocean_science_utilities", "wavetheory", "lineardispersion.py")
    aliases = dict(TP.generate(src, SRC_FUNCS, os.path.join(C.COQ, "Generated", "DispersionSrc.v"),
                               "wavetheory/lineardispersion.py"))
    for a, f in SRC_ALIASES.items():
        if aliases.get(a) != f:
            raise TP.Refuse("module-level alias %s is no longer %s" % (a, f))


FINDING_KEY = "lineardispersion.inverse_intrinsic_dispersion_relation:tolerance-jump-nonmonotone"


def omega_py(g, k, d):
    if math.isinf(d):
        return math.sqrt(g * k)
    return math.sqrt(g * k * math.tanh(k * d))


def gen_point(rng, g=G0):
    """(w, d, tag) inside the quantifier of the property: w in [3e-3,50], d in [1e-2,1e4] or inf"""
    r = rng.random()
    if r < 0.12:
        w = C.dyadic(rng, 3e-3, 50, 20) if rng.random() < 0.5 else math.exp(rng.uniform(math.log(3e-3), math.log(50)))
        return C.dyadic(rng, w, w, 20), float("inf"), "deep-inf"
    if r < 0.55:
        # log-uniform in both
        w = math.exp(rng.uniform(math.log(3e-3), math.log(50)))
        d = math.exp(rng.uniform(math.log(1e-2), math.log(1e4)))
        return C.dyadic(rng, w, w, 20), C.dyadic(rng, d, d, 20), "loguniform"
    if r < 0.85:
        # intermediate depth: dimensionless frequency x = w sqrt(d/g) in [0.2, 4]
        d = math.exp(rng.uniform(math.log(1e-2), math.log(1e4)))
        x = math.exp(rng.uniform(math.log(0.2), math.log(4.0)))
        w = x * math.sqrt(g / d)
        if not (3e-3 <= w <= 50):
            w = min(max(w, 3e-3), 50)
        return C.dyadic(rng, w, w, 20), C.dyadic(rng, d, d, 20), "intermediate"
    if r < 0.93:
        # near the first-guess switch w = sqrt(g/d)
        d = C.dyadic(rng, 0.05, 2000, 12)
        w = math.sqrt(g / d) * (1 + rng.choice([-1, 1]) * rng.choice([0, 2 ** -40, 2 ** -20, 1e-3, 1e-2]))
        w = min(max(w, 3e-3), 50)
        return w, d, "guess-switch"
    # near kd = 5 for the first guess (deep guess k = w^2/g): w^2 d / g = 5
    d = C.dyadic(rng, 0.05, 2000, 12)
    w = math.sqrt(5 * g / d) * (1 + rng.choice([-1, 1]) * rng.choice([0, 2 ** -40, 1e-4, 1e-2]))
    w = min(max(w, 3e-3), 50)
    return w, d, "kd5-switch"


def dtok(d):
    return C.fx(d)


def kinv_line(g, tol, fuel, ws, ds):
    return "kinv %s %s %d %d %s" % (C.fx(g), C.fx(tol), fuel, len(ws),
                                    " ".join("%s %s" % (C.fx(a), dtok(b)) for a, b in zip(ws, ds)))


def trace_line(g, fuel, ws, ds):
    return "trace %s %d %d %s" % (C.fx(g), fuel, len(ws),
                                  " ".join("%s %s" % (C.fx(a), dtok(b)) for a, b in zip(ws, ds)))


def run(ctx):
    _run_main(ctx)
    import reuse_common
    reuse_common.reuse_check(ctx, "C07")


def _run_main(ctx):
    rng = ctx.rng
    cases = []      # implementation payload
    mlines = []     # model requests
    meta = []       # (kind, info)

    # ------------------------------------------------------------------ solver calls
    ncall = ctx.n(260, 6000)
    for i in range(ncall):
        # "a1": array of frequencies with a ONE-ELEMENT depth array (numpy broadcasting, like a scalar depth)
        mode = rng.choice(["ss", "as", "a1", "aa", "aa", "aa", "22", "alias"])
        n = rng.choice([1, 1, 2, 3, 5, 8, 13, 24, 40])
        custom = rng.random() < 0.25
        g, tol, fuel = G0, TOL0, 10
        if custom:
            g = rng.choice([G0, 9.81, 1.0, 3.71, 24.79])
            tol = rng.choice([1e-3, 1e-2, 1e-5, 1e-8])
            fuel = rng.choice([1, 2, 3, 10, 20])
        pts = [gen_point(rng, g) for _ in range(n)]
        if mode in ("as", "a1"):
            d0 = pts[0][1]
            pts = [(w, d0, t) for (w, _, t) in pts]
        shape = None
        if mode == "22":
            a = rng.choice([1, 2, 3, 4])
            b = rng.choice([1, 2, 3, 5])
            pts = [gen_point(rng, g) for _ in range(a * b)]
            shape = [a, b]
        ws = [p[0] for p in pts]
        ds = [p[1] for p in pts]
        c = {"op": "kinv", "mode": mode, "w": [C.fx(v) for v in ws], "d": [C.fx(v) for v in ds]}
        if shape:
            c["shape"] = shape
        if custom:
            c.update({"grav": C.fx(g), "maxit": fuel, "tol": C.fx(tol)})
        cases.append(c)
        if mode == "ss":
            # one independent solver run per element
            for w, d in zip(ws, ds):
                mlines.append(kinv_line(g, tol, fuel, [w], [d]))
        else:
            mlines.append(kinv_line(g, tol, fuel, ws, ds))
        meta.append(("kinv", dict(mode=mode, g=g, tol=tol, fuel=fuel, custom=custom, pts=pts, shape=shape)))

    # ------------------------------------------------------------------ kinematics calls (omega, c, n, cg)
    nkin = ctx.n(120, 2500)
    for i in range(nkin):
        mode = rng.choice(["ss", "as", "aa", "aa"])
        n = rng.choice([1, 2, 4, 9, 20])
        g = G0 if rng.random() < 0.7 else rng.choice([1.0, 3.71, 24.79])
        pts = []
        for _ in range(n):
            r = rng.random()
            if r < 0.12:
                k = math.exp(rng.uniform(math.log(1e-6), math.log(300)))
                pts.append((C.dyadic(rng, k, k, 20), float("inf")))
            elif r < 0.3:
                # kd exactly 5 or next to it (the > 5 switch)
                d = rng.choice([0.5, 1.0, 2.0, 4.0, 8.0, 16.0, 0.25, 1024.0])
                k = 5.0 / d
                k = k * (1 + rng.choice([0, 0, 2 ** -52, -2 ** -52, 2 ** -30, -2 ** -30, 1e-6, -1e-6]))
                pts.append((k, d))
            else:
                d = math.exp(rng.uniform(math.log(1e-2), math.log(1e4)))
                kd = math.exp(rng.uniform(math.log(1e-5), math.log(300)))
                d = C.dyadic(rng, d, d, 20)
                k = C.dyadic(rng, kd / d, kd / d, 20)
                pts.append((k, d))
        if mode == "as":
            pts = [(k, pts[0][1]) for (k, _) in pts]
        c = {"op": "kin", "mode": mode, "k": [C.fx(p[0]) for p in pts],
             "d": [C.fx(p[1]) for p in pts] if mode != "as" else [C.fx(pts[0][1])]}
        if g != G0:
            c["grav"] = C.fx(g)
        cases.append(c)
        mlines.append("kin %s %d %s" % (C.fx(g), len(pts), " ".join("%s %s" % (C.fx(k), dtok(d)) for k, d in pts)))
        meta.append(("kin", dict(mode=mode, g=g, pts=pts)))

    # ------------------------------------------------------------------ spectra
    nspec = ctx.n(60, 1200)
    layouts = [((), ()), (("time",), None), (("time",), None), (("time", "latitude"), None),
               (("latitude", "longitude"), None), (("longitude",), None), (("time", "latitude", "longitude"), None)]
    for i in range(nspec):
        kind = rng.choice(["1d", "2d"])
        dims, _ = rng.choice(layouts)
        if ctx.quick() and len(dims) > 2:
            dims = ("time", "latitude")     # 4-d arrays cost > 1 min of numba compilation: thorough tier only
        lead = [rng.choice([1, 2, 3, 4]) for _ in dims]
        if len(dims) == 1 and rng.random() < 0.3:
            lead = [rng.choice([6, 12])]
        npnt = 1
        for v in lead:
            npnt *= v
        nf = rng.choice([1, 2, 5, 12, 30])
        fs = sorted(set(C.dyadic(rng, f, f, 16) for f in
                        (math.exp(rng.uniform(math.log(5e-4), math.log(7.9))) for _ in range(nf))))
        # the kinematic members are element-wise in frequency: a coordinate stored descending (period
        # ascending) or in no particular order must give the same value at each frequency
        forder = rng.choice(["ascending", "ascending", "ascending", "descending", "shuffled"])
        if forder == "descending":
            fs = fs[::-1]
        elif forder == "shuffled":
            rng.shuffle(fs)
        depths = []
        for _ in range(npnt):
            r = rng.random()
            if r < 0.2:
                depths.append(float("nan"))
            elif r < 0.35:
                depths.append(float("inf"))
            else:
                d = math.exp(rng.uniform(math.log(1e-2), math.log(1e4)))
                depths.append(C.dyadic(rng, d, d, 16))
        c = {"op": "spec", "kind": kind, "f": [C.fx(v) for v in fs], "lead_shape": lead, "lead_dims": list(dims),
             "depth": [C.fx(v) for v in depths], "seed": i, "ndir": rng.choice([4, 8])}
        cases.append(c)
        mlines.append("spec %s %s %s" % (C.fx(G0), C.flist(fs), "%d %s" % (len(depths), " ".join(C.fx(v) for v in depths))))
        meta.append(("spec", dict(kind=kind, dims=dims, lead=lead, fs=fs, depths=depths, forder=forder)))

    # ------------------------------------------------------------------ monotone scans (implementation only)
    scans = []
    nscan = ctx.n(40, 400)
    for i in range(nscan):
        which = rng.choice(["w", "w", "d"])
        m = rng.choice([12, 25, 60])
        mode = rng.choice(["aa", "ss", "as"]) if which == "w" else rng.choice(["aa", "ss"])
        if which == "w":
            d = float("inf") if rng.random() < 0.1 else C.dyadic(rng, *(lambda v: (v, v))(math.exp(rng.uniform(math.log(1e-2), math.log(1e4)))), 16)
            lo = math.exp(rng.uniform(math.log(3e-3), math.log(5)))
            step = 1 + rng.choice([5e-3, 1e-2, 0.05, 0.2])
            ws = [lo * step ** j for j in range(m)]
            ws = [w for w in ws if w <= 50]
            ds = [d] * len(ws)
        else:
            w = math.exp(rng.uniform(math.log(3e-3), math.log(50)))
            lo = math.exp(rng.uniform(math.log(1e-2), math.log(50)))
            step = 1 + rng.choice([1e-2, 0.05, 0.3])
            ds = [lo * step ** j for j in range(m)]
            ds = [d for d in ds if d <= 1e4]
            if rng.random() < 0.3:
                ds.append(float("inf"))
            ws = [w] * len(ds)
        if mode == "as" and which != "w":
            mode = "aa"
        c = {"op": "kinv", "mode": mode, "w": [C.fx(v) for v in ws], "d": [C.fx(v) for v in ds]}
        scans.append((which, mode, ws, ds))
        cases.append(c)
        meta.append(("scan", None))

    # the one-parameter family x = w sqrt(d/g): convergence within the iteration budget and
    # monotonicity of the returned value (validated, not proved)
    fam = []
    nfam = ctx.n(4000, 100000)
    for d in (1.0, 0.015625, 4096.0, 37.5):
        lo = max(10 ** -2.5, 3e-3 / math.sqrt(G0 / d))
        hi = min(10 ** 2.5, 50 / math.sqrt(G0 / d))
        m = max(50, int(nfam / 4 * (math.log10(hi / lo) / 5)))
        xs = [lo * (hi / lo) ** (j / (m - 1)) for j in range(m)]
        ws = [min(max(x * math.sqrt(G0 / d), 3e-3), 50) for x in xs]
        for mode in ("ss", "aa"):
            # "aa" in chunks of 500 so that different chunks see different iteration counts
            if mode == "ss":
                cases.append({"op": "kinv", "mode": "ss", "w": [C.fx(v) for v in ws], "d": [C.fx(d)] * len(ws)})
                fam.append((mode, d, ws)); meta.append(("fam", None))
            else:
                for s in range(0, len(ws), 500):
                    sub = ws[s:s + 500]
                    cases.append({"op": "kinv", "mode": "aa", "w": [C.fx(v) for v in sub], "d": [C.fx(d)] * len(sub)})
                    fam.append((mode, d, sub)); meta.append(("fam", None))

    # deterministic corpus case of the recorded finding (scalar calls straddling the switch from two
    # Newton steps to one: the returned wavenumber DEcreases by 0.16 % while w increases)
    fw = [1.359408559108896 * math.sqrt(G0), 1.3594868152083532 * math.sqrt(G0)]
    cases.append({"op": "kinv", "mode": "ss", "w": [C.fx(v) for v in fw], "d": [C.fx(1.0)] * 2})
    meta.append(("finding", None))

    impl = ctx.impl("C07.py", {"cases": cases})["results"]
    mod = ctx.model(mlines)

    # ================================================================== evaluate
    mi = 0          # index into model replies
    si = 0
    fi = 0
    borderline_requests = []
    for ci, (kind, info) in enumerate(meta):
        im = impl[ci]
        if kind == "kinv":
            pts = info["pts"]
            g, tol, fuel = info["g"], info["tol"], info["fuel"]
            ws = [p[0] for p in pts]; ds = [p[1] for p in pts]
            rep = {"op": "inverse_intrinsic_dispersion_relation", "mode": info["mode"], "w": ws, "d": ds,
                   "grav": g, "tolerance": tol, "maximum_number_of_iterations": fuel, "shape": info["shape"]}
            if info["mode"] == "ss":
                mrows = mod[mi:mi + len(pts)]; mi += len(pts)
                mk = [C.unfx(r[2]) for r in mrows]
                mflag = [r[0] == "T" for r in mrows]
            else:
                r = mod[mi]; mi += 1
                mk = [C.unfx(v) for v in r[2:]]
                mflag = [r[0] == "T"] * len(pts)
            if isinstance(im, dict) and "error" in im:
                ctx.oracle_fail("inverse_intrinsic_dispersion_relation raised %s: %s" % (im["error"], im["msg"]), rep)
                continue
            ik = [C.unfx(v) for v in im["k"]]
            ctx.tally("kinv-call:" + info["mode"] + ("-custom" if info["custom"] else ""))
            if len(ik) != len(pts):
                ctx.oracle_fail("result has %d elements for %d inputs" % (len(ik), len(pts)), rep)
                continue
            bad = [j for j in range(len(pts)) if not C.close(ik[j], mk[j], 1e-9)]
            if bad:
                # decided within rounding error of the tolerance?  ask the model for the trace
                borderline_requests.append((rep, bad, ik, mk, info))
            for j, (w, d, tag) in enumerate(pts):
                kd = ik[j] * d if not math.isinf(d) else float("inf")
                ctx.count(["kinv", info["mode"], g, tol, fuel, w, d], (not math.isinf(d)) and 1e-3 < kd < 30)
                ctx.tally("pt:" + tag)
                rp = dict(rep); rp["index"] = j; rp["w_j"] = w; rp["d_j"] = d; rp["k_impl"] = ik[j]
                if not (ik[j] > 0 and math.isfinite(ik[j])):
                    ctx.oracle_fail("wavenumber %r for w=%r d=%r is not positive and finite" % (ik[j], w, d), rp)
                    continue
                if fuel >= 10:
                    res = abs(omega_py(g, ik[j], d) - w)
                    if res > tol * w * (1 + 1e-9) + 1e-15 * w:
                        ctx.oracle_fail("|omega(k)-w| = %.3e w exceeds the tolerance %.1e (w=%r d=%r k=%r)"
                                        % (res / w, tol, w, d, ik[j]), rp)
                    if math.isinf(d) and not C.close(ik[j], w * w / g, 1e-12):
                        ctx.oracle_fail("deep water: k=%r but w^2/g=%r" % (ik[j], w * w / g), rp)
                    if tol <= 1e-3 and not math.isinf(d):
                        x = w * math.sqrt(d / g)
                        if x * x > 20 and abs(ik[j] * g / (w * w) - 1) > 2.1e-3:
                            ctx.oracle_fail("deep limit: k g/w^2 = %r at w^2 d/g = %r" % (ik[j] * g / (w * w), x * x), rp)
                        if x < 0.05 and abs(ik[j] * math.sqrt(g * d) / w - 1) > 1.1e-3 + x * x / 5:
                            ctx.oracle_fail("shallow limit: k sqrt(g d)/w = %r at w sqrt(d/g) = %r"
                                            % (ik[j] * math.sqrt(g * d) / w, x), rp)
            if ci < 2:
                ctx.sample({"kinv": {"mode": info["mode"], "w": ws[:4], "d": ds[:4], "impl": ik[:4], "model": mk[:4]}})
        elif kind == "kin":
            pts = info["pts"]; g = info["g"]
            r = mod[mi]; mi += 1
            vals = [C.unfx(v) for v in r[1:]]
            m_om = vals[0::4]; m_n = vals[1::4]; m_cg = vals[2::4]; m_nex = vals[3::4]
            rep = {"op": "kinematics", "mode": info["mode"], "k": [p[0] for p in pts], "d": [p[1] for p in pts], "grav": g}
            if isinstance(im, dict) and "error" in im:
                ctx.oracle_fail("dispersion kinematics raised %s: %s" % (im["error"], im["msg"]), rep)
                continue
            ctx.tally("kin-call:" + info["mode"])
            i_om = [C.unfx(v) for v in im["omega"]]; i_ph = [C.unfx(v) for v in im["phase"]]
            i_n = [C.unfx(v) for v in im["n"]]; i_cg = [C.unfx(v) for v in im["cg"]]
            for j, (k, d) in enumerate(pts):
                kd = k * d
                ctx.count(["kin", info["mode"], g, k, d], (not math.isinf(d)) and 1e-3 < kd < 30)
                ctx.tally("kd>5" if kd > 5 else ("kd==5" if kd == 5 else "kd<5"))
                rp = dict(rep); rp["index"] = j; rp["k_j"] = k; rp["d_j"] = d
                for nm, a, b in (("intrinsic_dispersion_relation", i_om[j], m_om[j]),
                                 ("phase_velocity", i_ph[j], m_om[j] / k),
                                 ("ratio_group_velocity_to_phase_velocity", i_n[j], m_n[j]),
                                 ("intrinsic_group_velocity", i_cg[j], m_cg[j])):
                    if not C.close(a, b, 1e-9):
                        rp2 = dict(rp); rp2["impl"] = a; rp2["model"] = b
                        ctx.disagree("%s(k=%r, d=%r) = %r, defining formula gives %r" % (nm, k, d, a, b), rp2,
                                     is_property_failure=True)
                if "jac_w2k" in im:
                    a = C.unfx(im["jac_w2k"][j]); b = C.unfx(im["jac_k2w"][j])
                    if not C.close(a, i_cg[j], 1e-12) or not C.close(a * b, 1.0, 1e-12):
                        ctx.oracle_fail("jacobians are not cg and 1/cg at k=%r d=%r" % (k, d), rp)
                # oracles on the implementation alone
                ratio = i_cg[j] / i_ph[j] if i_ph[j] else float("nan")
                if not (0.5 - 1e-12 <= ratio <= 1 + 1e-12):
                    ctx.oracle_fail("group/phase velocity ratio %r outside [0.5,1] at k=%r d=%r" % (ratio, k, d), rp)
                h = 1e-4
                fd = (omega_py(g, k * (1 + h), d) - omega_py(g, k * (1 - h), d)) / (2 * k * h)
                if abs(i_cg[j] - fd) > 2e-3 * abs(fd):
                    ctx.oracle_fail("group velocity %r differs from d omega/dk = %r by more than 2e-3 (k=%r d=%r)"
                                    % (i_cg[j], fd, k, d), rp)
        elif kind == "spec":
            r = mod[mi]; mi += 1
            fs = info["fs"]; depths = info["depths"]
            nf = len(fs)
            rep = {"op": "spectrum-members", "kind": info["kind"], "lead_dims": list(info["dims"]),
                   "lead_shape": info["lead"], "frequency": fs, "depth": depths}
            if isinstance(im, dict) and "error" in im:
                ctx.oracle_fail("spectrum wavenumber/wavelength/wave_speed/group_velocity: %s: %s" % (im["error"], im["msg"]), rep)
                continue
            ctx.tally("spec:%s:%s" % (info["kind"], ",".join(info["dims"]) or "scalar"))
            ctx.tally("spec-frequency-order:" + info.get("forder", "ascending"))
            vals = [C.unfx(v) for v in r[2:]]
            mk = vals[0::4]; mwl = vals[1::4]; mws = vals[2::4]; mgv = vals[3::4]
            ik = [C.unfx(v) for v in im["wavenumber"]]; iwl = [C.unfx(v) for v in im["wavelength"]]
            iws = [C.unfx(v) for v in im["wave_speed"]]; igv = [C.unfx(v) for v in im["group_velocity"]]
            idep = [C.unfx(v) for v in im["depth"]]
            for p, d in enumerate(depths):
                want = float("inf") if math.isnan(d) else d
                if idep[p] != want:
                    ctx.oracle_fail("spectrum.depth[%d] = %r for stored depth %r (missing must become inf)" % (p, idep[p], d), rep)
            if len(ik) != len(mk):
                ctx.oracle_fail("wavenumber has %d elements, expected %d" % (len(ik), len(mk)), rep)
                continue
            kbad = [j for j in range(len(mk)) if not C.close(ik[j], mk[j], 1e-9)]
            if kbad:
                ws_ = []; ds_ = []
                for d in depths:
                    for f in fs:
                        ws_.append(f * 2 * math.pi); ds_.append(float("inf") if math.isnan(d) else d)
                borderline_requests.append((rep, kbad, ik, mk, dict(g=G0, tol=TOL0, fuel=10, pts=list(zip(ws_, ds_, [""] * len(ws_))), spec=True)))
            for j in range(len(mk)):
                p = j // nf; f = fs[j % nf]
                d = float("inf") if math.isnan(depths[p]) else depths[p]
                w = f * 2 * math.pi
                kd = ik[j] * d if not math.isinf(d) else float("inf")
                ctx.count(["spec", info["kind"], list(info["dims"]), f, depths[p] if not math.isnan(depths[p]) else "nan", p],
                          (not math.isinf(d)) and 1e-3 < kd < 30)
                ctx.tally("spec-depth:" + ("nan" if math.isnan(depths[p]) else ("inf" if math.isinf(depths[p]) else "finite")))
                rp = dict(rep); rp["point"] = p; rp["frequency_index"] = j % nf
                if not kbad:
                    for nm, a, b in (("wavelength", iwl[j], mwl[j]), ("wave_speed", iws[j], mws[j]), ("group_velocity", igv[j], mgv[j])):
                        if not C.close(a, b, 1e-9):
                            rp2 = dict(rp); rp2["impl"] = a; rp2["model"] = b
                            ctx.disagree("spectrum.%s[point %d, f=%r] = %r, model %r" % (nm, p, f, a, b), rp2, is_property_failure=True)
                # oracles: the members are the functions at (2 pi f, depth or inf)
                if not (ik[j] > 0 and math.isfinite(ik[j])):
                    ctx.oracle_fail("spectrum.wavenumber %r at f=%r depth=%r" % (ik[j], f, depths[p]), rp)
                    continue
                res = abs(omega_py(G0, ik[j], d) - w)
                if res > TOL0 * w * (1 + 1e-9):
                    ctx.oracle_fail("spectrum.wavenumber: |omega(k)-w| = %.3e w at f=%r depth=%r (missing depth = deep)"
                                    % (res / w, f, depths[p]), rp)
                if not C.close(iwl[j] * ik[j], 2 * math.pi, 1e-12):
                    ctx.oracle_fail("spectrum.wavelength*wavenumber = %r, not 2 pi" % (iwl[j] * ik[j]), rp)
                if not C.close(iws[j] * ik[j], w, 1e-12):
                    ctx.oracle_fail("spectrum.wave_speed*wavenumber = %r, not 2 pi f = %r" % (iws[j] * ik[j], w), rp)
                kdv = ik[j] * d
                nn = 0.5 if (math.isinf(d) or kdv > 5) else 0.5 + kdv / math.sinh(2 * kdv)
                cgw = nn * omega_py(G0, ik[j], d) / ik[j]
                if not C.close(igv[j], cgw, 1e-9):
                    ctx.oracle_fail("spectrum.group_velocity = %r, cg(k, depth) = %r at f=%r depth=%r" % (igv[j], cgw, f, depths[p]), rp)
        elif kind == "scan":
            which, mode, ws, ds = scans[si]; si += 1
            rep = {"op": "monotone-scan", "varying": which, "mode": mode, "w": ws, "d": ds}
            if isinstance(im, dict) and "error" in im:
                ctx.oracle_fail("scan raised %s" % im, rep)
                continue
            ik = [C.unfx(v) for v in im["k"]]
            ctx.tally("scan:" + which + ":" + mode)
            for j in range(len(ik) - 1):
                ctx.count(["scan", which, mode, ws[j], ds[j]])
                if which == "w":
                    if not ik[j + 1] > ik[j]:
                        rp = dict(rep); rp["index"] = j
                        ctx.oracle_fail("k not increasing in w: k(%r)=%r, k(%r)=%r at d=%r" % (ws[j], ik[j], ws[j + 1], ik[j + 1], ds[j]), rp)
                        break
                else:
                    slack = 1e-9 if mode == "aa" else 4.1e-3     # separate scalar calls: each within the solver tolerance
                    if not ik[j + 1] <= ik[j] * (1 + slack):
                        rp = dict(rep); rp["index"] = j
                        ctx.oracle_fail("k increases with depth: k(d=%r)=%r, k(d=%r)=%r at w=%r" % (ds[j], ik[j], ds[j + 1], ik[j + 1], ws[j]), rp)
                        break
        elif kind == "fam":
            mode, d, ws = fam[fi]; fi += 1
            rep = {"op": "one-parameter-family", "mode": mode, "d": d, "w_first": ws[0], "w_last": ws[-1], "n": len(ws)}
            if isinstance(im, dict) and "error" in im:
                ctx.oracle_fail("family scan raised %s" % im, rep)
                continue
            ik = [C.unfx(v) for v in im["k"]]
            ctx.tally("family:" + mode, len(ik))
            worst = 0.0
            for j, (w, k) in enumerate(zip(ws, ik)):
                ctx.count(["fam", mode, d, w], 1e-3 < k * d < 30)
                ok = k > 0 and math.isfinite(k)
                res = abs(omega_py(G0, k, d) - w) / w if ok else float("inf")
                worst = max(worst, res)
                if res > TOL0 * (1 + 1e-9):
                    ctx.oracle_fail("family scan: |omega(k)-w|/w = %.3e at w=%r d=%r (k=%r): no convergence within the "
                                    "iteration budget" % (res, w, d, k), {"op": "inverse_intrinsic_dispersion_relation",
                                                                           "mode": mode, "w": [w], "d": [d], "k_impl": k})
                    break
            # monotone in w: consecutive points inside one array call; points >= 0.5 % apart for scalar calls
            stride = 1
            if mode == "ss":
                ratio = ws[1] / ws[0]
                stride = max(1, int(math.ceil(math.log(1.005) / math.log(ratio))))
            for j in range(len(ik) - stride):
                if not ik[j + stride] > ik[j]:
                    ctx.oracle_fail("family scan (%s): k(%r)=%r >= k(%r)=%r at d=%r" % (mode, ws[j], ik[j], ws[j + stride], ik[j + stride], d),
                                    {"op": "inverse_intrinsic_dispersion_relation", "mode": mode, "w": [ws[j], ws[j + stride]],
                                     "d": [d, d], "k_impl": [ik[j], ik[j + stride]]})
                    break
            ctx.extra.setdefault("family_worst_relative_residual", {})["%s d=%g" % (mode, d)] = worst
        elif kind == "finding":
            if isinstance(im, dict) and "error" in im:
                continue
            ik = [C.unfx(v) for v in im["k"]]
            ctx.count("finding-case")
            if not ik[1] > ik[0]:
                ctx.oracle_fail("strict monotonicity in w fails at the solver-tolerance level: separate scalar calls "
                                "k(w=%r, d=1) = %r > k(w=%r, d=1) = %r (two Newton steps vs one; both satisfy the 1e-3 residual)"
                                % (fw[0], ik[0], fw[1], ik[1]),
                                {"op": "inverse_intrinsic_dispersion_relation", "mode": "ss", "w": fw, "d": [1.0, 1.0], "k_impl": ik},
                                key=FINDING_KEY)

    # ---- borderline analysis of the solver disagreements
    if borderline_requests:
        tl = []
        for rep, bad, ik, mk, info in borderline_requests:
            pts = info["pts"]
            if info.get("mode") == "ss":
                for j in bad:
                    tl.append(trace_line(info["g"], info["fuel"], [pts[j][0]], [pts[j][1]]))
            else:
                tl.append(trace_line(info["g"], info["fuel"], [p[0] for p in pts], [p[1] for p in pts]))
        tr = ctx.model(tl)
        ti = 0
        for rep, bad, ik, mk, info in borderline_requests:
            nreq = len(bad) if info.get("mode") == "ss" else 1
            rows = tr[ti:ti + nreq]; ti += nreq
            tol = info["tol"]
            border = all(any(abs(C.unfx(v) - tol) <= 1e-7 * tol for v in row[1:]) for row in rows)
            j = bad[0]
            rp = dict(rep); rp["index"] = j; rp["impl"] = ik[j]; rp["model"] = mk[j]
            if border:
                ctx.tally("skipped-borderline-convergence-test")
                continue
            ctx.disagree("wavenumber differs from the modelled solver: element %d impl %r model %r (w=%r d=%r)"
                         % (j, ik[j], mk[j], info["pts"][j][0], info["pts"][j][1]), rp)
            # is the input itself a counterexample?  (residual / positivity oracles above already ran)


READY = True
LEVEL_TEXT = ("Theorems (Coq, real-number model of lineardispersion.py, all w,k,d > 0 and deep water, all batch sizes): omega(k,d) = "
              "sqrt(g k tanh(k d)) is strictly increasing in k, so the root is unique, increases with w and decreases with depth; the "
              "root lies between w^2/g and w^2/(g tanh(w^2 d/g)) and above w/sqrt(g d); the first guess is a positive under-estimate; a "
              "Newton step from an under-estimate stays positive; if the loop leaves through the tolerance test EVERY element of the batch "
              "satisfies |omega(k)-w|/w < tol; deep-water elements are exactly w^2/g in any mixed batch; group/phase ratio in [1/2,1]; the "
              "implemented group velocity is d omega/dk exactly for kd <= 5 and within 1e-3 relative for kd > 5 (kd/sinh 2kd < 5e-4, proved "
              "without Interval); the solver on (w,d,g) is the dimensionless solver on w sqrt(d/g) (scale invariance, whole batches); spectrum "
              "members are the functions at 2 pi f and per-point depth with missing = deep. The model is tied to the code by running the "
              "extracted model and the numba implementation on the same scalar / array / 2-d calls and spectra (1e-9 relative).")
LEVEL_NOTE = ("NOT proved, validated by execution only: that the Newton loop converges within its 10 iterations (one-parameter family scan "
              "x = w sqrt(d/g) in [10^-2.5, 10^2.5], 10^5 points in thorough, residual oracle on every generated point) and monotonicity of the "
              "RETURNED tolerance-level value (monotone scans; strictness across separate scalar calls fails at one spot inside the 1e-3 tolerance "
              "and is recorded as a finding). No rounding-error bound: theorems are about R, the executable comparison is in binary64. Trusted: Coq "
              "kernel, extraction (R as float), numba compiling faithfully, harness tolerances; axioms: the standard-library real-number axioms and "
              "classic only.")
TECHNIQUE = "Coq proof (real analysis with Coquelicot: monotonicity, is_derive, bounds, loop invariants) + extracted-model correspondence + residual/monotone/finite-difference oracles"
DESIGN_REF = "DESIGN.md section 5 C07"


def replay(ctx, obj):
    """re-run one recorded input on the implementation under test and on the model"""
    inp = obj.get("input") or {}
    op = inp.get("op")
    if op in ("inverse_intrinsic_dispersion_relation", "monotone-scan"):
        ws = inp["w"]; ds = inp["d"]
        mode = inp.get("mode", "aa")
        g = inp.get("grav", G0); tol = inp.get("tolerance", TOL0); fuel = inp.get("maximum_number_of_iterations", 10)
        c = {"op": "kinv", "mode": mode if mode in ("ss", "as", "aa", "22", "alias") else "aa",
             "w": [C.fx(v) for v in ws], "d": [C.fx(v) for v in ds]}
        if inp.get("shape"):
            c["shape"] = inp["shape"]
        if "grav" in inp and (g != G0 or tol != TOL0 or fuel != 10):
            c.update({"grav": C.fx(g), "maxit": fuel, "tol": C.fx(tol)})
        im = ctx.impl("C07.py", {"cases": [c]})["results"][0]
        if mode == "ss":
            mk = [C.unfx(r[2]) for r in ctx.model([kinv_line(g, tol, fuel, [w], [d]) for w, d in zip(ws, ds)])]
        else:
            mk = [C.unfx(v) for v in ctx.model([kinv_line(g, tol, fuel, ws, ds)])[0][2:]]
        print("implementation:", im if "error" in im else [C.unfx(v) for v in im["k"]])
        print("model         :", mk)
        if "error" in im:
            ctx.oracle_fail("raised %s" % im, inp); return
        ik = [C.unfx(v) for v in im["k"]]
        for j, (w, d, k) in enumerate(zip(ws, ds, ik)):
            ctx.count(["replay", w, d])
            if not (k > 0 and math.isfinite(k)):
                ctx.oracle_fail("wavenumber %r for w=%r d=%r is not positive and finite" % (k, w, d), inp)
            elif fuel >= 10 and abs(omega_py(g, k, d) - w) > tol * w * (1 + 1e-9):
                ctx.oracle_fail("|omega(k)-w| = %.3e w exceeds %.1e (w=%r d=%r k=%r)" % (abs(omega_py(g, k, d) - w) / w, tol, w, d, k), inp)
            elif not C.close(k, mk[j], 1e-9):
                ctx.disagree("element %d: implementation %r, modelled solver %r" % (j, k, mk[j]), inp)
        if op == "monotone-scan" or len(ws) == 2:
            for j in range(len(ik) - 1):
                if ds[j] == ds[j + 1] and ws[j + 1] > ws[j] and not ik[j + 1] > ik[j]:
                    ctx.oracle_fail("k not increasing in w: k(%r)=%r, k(%r)=%r" % (ws[j], ik[j], ws[j + 1], ik[j + 1]), inp,
                                    key=FINDING_KEY if (abs(ik[j + 1] / ik[j] - 1) < 2.1e-3 and mode == "ss") else None)
    elif op == "kinematics":
        ks = inp["k"]; ds = inp["d"]; g = inp.get("grav", G0)
        c = {"op": "kin", "mode": "aa", "k": [C.fx(v) for v in ks], "d": [C.fx(v) for v in ds], "grav": C.fx(g)}
        im = ctx.impl("C07.py", {"cases": [c]})["results"][0]
        r = ctx.model(["kin %s %d %s" % (C.fx(g), len(ks), " ".join("%s %s" % (C.fx(k), dtok(d)) for k, d in zip(ks, ds)))])[0]
        vals = [C.unfx(v) for v in r[1:]]
        print("implementation:", im if "error" in im else {k_: [C.unfx(v) for v in im[k_]] for k_ in ("omega", "n", "cg")})
        print("model (omega, n, cg, n_exact per point):", vals)
        if "error" in im:
            ctx.oracle_fail("raised %s" % im, inp); return
        for j in range(len(ks)):
            ctx.count(["replay", ks[j], ds[j]])
            for nm, a, b in (("omega", C.unfx(im["omega"][j]), vals[4 * j]), ("n", C.unfx(im["n"][j]), vals[4 * j + 1]),
                             ("cg", C.unfx(im["cg"][j]), vals[4 * j + 2])):
                if not C.close(a, b, 1e-9):
                    ctx.disagree("%s(k=%r,d=%r) = %r, defining formula %r" % (nm, ks[j], ds[j], a, b), inp, is_property_failure=True)
    elif op == "spectrum-members":
        fs = inp["frequency"]; depths = inp["depth"]
        c = {"op": "spec", "kind": inp["kind"], "f": [C.fx(v) for v in fs], "lead_shape": inp["lead_shape"],
             "lead_dims": inp["lead_dims"], "depth": [C.fx(v) for v in depths], "seed": 0, "ndir": 8}
        im = ctx.impl("C07.py", {"cases": [c]})["results"][0]
        print("implementation:", im if "error" in im else {k_: [C.unfx(v) for v in im[k_]][:12] for k_ in ("depth", "wavenumber", "wavelength", "wave_speed", "group_velocity")})
        if "error" in im:
            ctx.oracle_fail("raised %s" % im, inp); return
        ik = [C.unfx(v) for v in im["wavenumber"]]
        nf = len(fs)
        for j, k in enumerate(ik):
            d = depths[j // nf]; d = float("inf") if math.isnan(d) else d
            w = fs[j % nf] * 2 * math.pi
            ctx.count(["replay", j])
            if not (k > 0 and math.isfinite(k)) or abs(omega_py(G0, k, d) - w) > TOL0 * w * (1 + 1e-9):
                ctx.oracle_fail("spectrum.wavenumber %r at f=%r depth=%r violates the dispersion relation" % (k, fs[j % nf], depths[j // nf]), inp)
            elif not C.close(C.unfx(im["wavelength"][j]) * k, 2 * math.pi, 1e-12) or not C.close(C.unfx(im["wave_speed"][j]) * k, w, 1e-12):
                ctx.oracle_fail("spectrum wavelength / wave_speed inconsistent with wavenumber at element %d" % j, inp)
    else:
        print("replay: unknown op %r - run ./check C07 with the recorded seed %r instead" % (op, obj.get("seed")))
