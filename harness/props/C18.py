"""C18 file cache: contents, hits, size bound and LRU eviction over any request history."""
import common as C
import fc_common as F

RULE = ("histories over ops {get of 1..3 URIs (with comment variants, versions, validate/postprocess directives), remove, purge, "
        "reopen (with/without eviction), touch, age, foreign file, set mode}: exhaustive over a 15-letter alphabet to length 2 "
        "(quick) / 3 (thorough) x cache sizes forcing 0/1/many evictions x sequential/parallel, plus random histories; "
        "non-trivial = at least one get and >= 2 ops; distinct by full history")
ASSUMPTIONS = ["time stamps are made logical by the harness (os.utime) so that recency is unambiguous; real time-stamp ties are not explored",
               "md5 naming is treated as injective (the harness uses the real md5 names; the model uses an injective constructor)",
               "thread interleavings inside ThreadPool are not in the model; parallel mode is exercised without raising faults",
               "duplicate URIs inside one request are outside the explored space"]
TRUSTED = ["model of the OS directory: a file is name -> (bytes, time); rename is atomic; os.walk lists the directory"]


def run(ctx):
    hs = []
    depth = ctx.n(2, 3)
    for h in F.exhaustive_histories(depth, faults=False):
        hs.append(h)
    for _ in range(ctx.n(250, 4000)):
        hs.append(F.random_history(ctx.rng, False, ctx.n(12, 60)))
    for _ in range(ctx.n(80, 1500)):
        hs.append(F.duplicate_history(ctx.rng))      # the same URI named more than once in one request
    okc = F.run_histories(ctx, hs, "C18")
    ctx.sample({"history": hs[len(hs) // 2]})
    ctx.sample({"history": hs[-1]})
    ctx.extra["traces_validated_against_impl"] = okc


ANCHORS = ["src/ocean_science_utilities/filecache/cache_object.py", "src/ocean_science_utilities/filecache/filecache.py", "src/ocean_science_utilities/filecache/remote_resources.py"]
READY = True
LEVEL_TEXT = "Theorems (Coq, induction over ARBITRARY operation histories of the file-cache state machine, no length bound): the invariant (entries = cache-named files on disk, every cache file complete and holding bytes of its own resource, registered bytes <= configured size, time stamps below the clock) holds after every history from an empty directory and is preserved by every single operation; a returning request (distinct URIs) returns only registered, existing, complete files of the right resource that were used in this request and were not evicted by it; all-hit requests contact no resource; eviction is oldest-first and keeps any newer protected set that fits; foreign files are never touched; files not named by a request are unchanged or evicted. The model is tied to cache_object.py by running the extracted state machine and the real FileCache (instrumented resource, logical time stamps) on the same histories: exhaustive to length 2/3 over a 15-letter alphabet x 3 cache sizes x sequential/parallel plus random long histories, comparing return values, directory bytes, recency order, entry table, resources contacted and configured size after every operation, and evaluating the property's clauses on the real directory."
LEVEL_NOTE = "Closed under the global context (no axioms): the model is over Z/nat/lists. Trusted: Coq kernel, extraction (ExtrOcamlBasic, no R), the harness's logical-time normalisation, md5 treated as injective, OS directory semantics (atomic rename). Not in the model: real thread interleavings of ThreadPool (parallel mode is run without raising faults and compared with the sequential model), real time-stamp ties, duplicate URIs inside one request, FileNotFoundError on externally deleted cache files."
TECHNIQUE = "Coq proof by induction over operation histories (state-machine invariants, frame lemmas) + extracted-model correspondence on exhaustive and random histories + invariant oracles on the real directory"
DESIGN_REF = "DESIGN.md section 5 C18"
