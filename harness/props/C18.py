"""C18 file cache: contents, hits, size bound and LRU eviction over any request history."""
import common as C
import fc_common as F

RULE = ("histories over ops {get of 1..3 URIs (with comment variants, versions, validate/postprocess directives), remove, purge, "
        "reopen (with/without eviction), touch, age, foreign file, set mode}: exhaustive over a 15-letter alphabet to length 2 "
        "(quick) / 3 (thorough) x cache sizes forcing 0/1/many evictions x sequential/parallel, plus random histories; "
        "non-trivial = at least one get and >= 2 ops; distinct by full history")
ASSUMPTIONS = ["time stamps are made logical by the harness (os.utime) so that recency is unambiguous; real time-stamp ties are not explored",
               "md5 naming is treated as injective (the harness uses the real md5 names; the model uses an injective constructor)",
               "thread interleavings inside ThreadPool are not in the model; parallel mode is exercised without raising faults",
               "duplicate URIs inside one request are outside the explored space"]
TRUSTED = ["model of the OS directory: a file is name -> (bytes, time); rename is atomic; os.walk lists the directory"]


def run(ctx):
    hs = []
    depth = ctx.n(2, 3)
    for h in F.exhaustive_histories(depth, faults=False):
        hs.append(h)
    for _ in range(ctx.n(250, 4000)):
        hs.append(F.random_history(ctx.rng, False, ctx.n(12, 60)))
    okc = F.run_histories(ctx, hs, "C18")
    ctx.sample({"history": hs[len(hs) // 2]})
    ctx.sample({"history": hs[-1]})
    ctx.extra["traces_validated_against_impl"] = okc


READY = False
LEVEL_TEXT = ""
LEVEL_NOTE = ""
