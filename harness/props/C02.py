"""C02 directional integration: direction_step, e/a1/b1/a2/b2, as_frequency_spectrum, integrate_spectral_data.

Also hosts the generators / parsers / comparison helpers shared with C03 (props/C03.py imports them)."""
import math

import common as C

RULE = ("one evaluation = one (2D spectrum point, band) pair compared between the extracted Coq model and the "
        "implementation, or one auxiliary case (wrapped_difference batch, numba integral); non-trivial = the spectrum "
        "has at least two frequencies, the band contains at least two of them and the band energy is positive; "
        "distinct by hash of (grid, density, band)")
ASSUMPTIONS = [
    "floating point rounding is not modelled: comparison at 1e-9 relative to the sum of absolute terms of each quadrature",
    "xarray/numpy layout semantics (broadcasting, isel, sum(skipna), integrate, argmax) are validated by execution over the "
    "layouts (), (time), (time, latitude), not proved",
    "'covers the circle' is read as: the grid is congruent modulo 360 to an increasing grid whose cyclic gaps are all in (0,180)",
    "the element-wise translator harness/translate_pointwise.py (Python AST -> Coq text over R, fail-closed) is trusted to map each accepted construct to its meaning: tools/math.py wrapped_difference -> Generated/MathSrc.v",
]
TRUSTED = ["Lib/Atan2.v atan2 is built from atan by quadrant; numpy.arctan2 is tied to it by correspondence only"]

NAN = float("nan")
INF = float("inf")
BULK = ["m0", "hm0", "tm01", "tm02", "pidx", "pfreq", "pdir", "pspr", "ma1", "mb1", "ma2", "mb2", "mdir", "mspr"]


# ------------------------------------------------------------------------------------------
# generators
# ------------------------------------------------------------------------------------------
def isnan(x):
    return x != x


def gen_freq(rng, nf):
    kind = rng.choice(["uniform", "nonuniform", "nonuniform", "from0", "log"])
    if kind == "uniform":
        f0 = C.dyadic(rng, 0.02, 0.1, 8)
        df = C.dyadic(rng, 0.005, 0.05, 8)
        return kind, [f0 + i * df for i in range(nf)]
    if kind == "log":
        f0 = C.dyadic(rng, 0.02, 0.06, 8)
        r = 1.0 + C.dyadic(rng, 0.05, 0.2, 6)
        return kind, [f0 * r ** i for i in range(nf)]
    f = [0.0 if kind == "from0" else C.dyadic(rng, 0.01, 0.1, 8)]
    for _ in range(nf - 1):
        f.append(f[-1] + C.dyadic(rng, 0.004, 0.08, 8))
    return kind, f


GRID_SIZES = [8, 8, 12, 16, 24, 36, 36, 48, 72, 90, 144]


def gen_grid(rng, uniform_only=False, nmax=144):
    """-> dict(kind, th, n, uniform, dl, start, phi) ; phi = increasing reference grid (th = phi mod 360)"""
    n = rng.choice(GRID_SIZES) if rng.random() < 0.7 else rng.randint(8, 144)
    n = min(n, nmax)
    kinds = ["uniform0", "uniform_start", "uniform_mod", "uniform_pm180"]
    if not uniform_only:
        kinds += ["nonuniform", "nonuniform_mod", "nonuniform", "regular_interior"]
    kind = rng.choice(kinds)
    start = 0.0 if kind == "uniform0" else C.dyadic(rng, -180.0, 360.0, 10)
    if kind.startswith("uniform"):
        dl = 360.0 / n
        phi = [start + j * dl for j in range(n)]
        uniform = True
    elif kind == "regular_interior":
        # equal interior spacing, another width for the bin that closes the circle (a sector grid such as
        # 20, 30, ..., 340, or a model grid with one direction left out): every gap stays below 180
        step = rng.choice([5.0, 7.5, 10.0, 360.0 / (n + rng.choice([1, 2, 3]))])
        if 360.0 - (n - 1) * step >= 179.0 or 360.0 - (n - 1) * step <= 0.5:
            step = 360.0 / (n + 1)
        phi = [start + j * step for j in range(n)]
        dl = None
        uniform = False
    else:
        w = [rng.uniform(0.4, 1.6) for _ in range(n)]
        tot = sum(w)
        gaps = [360.0 * v / tot for v in w]            # max gap < 360*1.6/(0.4*7+1.6) < 131 for n >= 8
        phi = [start]
        for g in gaps[:-1]:
            phi.append(phi[-1] + g)
        dl = None
        uniform = False
    if kind in ("uniform_mod", "nonuniform_mod"):
        th = [v % 360.0 for v in phi]
    elif kind == "uniform_pm180":
        th = [(v + 180.0) % 360.0 - 180.0 for v in phi]
    else:
        th = list(phi)
    return {"kind": kind, "th": th, "n": n, "uniform": uniform, "dl": dl, "start": start, "phi": phi}


def ang_diff(a, b):
    return (a - b + 180.0) % 360.0 - 180.0


def gen_density(rng, f, th):
    """non-negative 2D density with zero / NaN bins; -> (kind, E[nf][nd], flags)"""
    nf, nd = len(f), len(th)
    kind = rng.choice(["noise", "cos2s", "cos2s", "cos2s_seam", "bimodal", "single_bin", "sector"])
    E = []
    fp = rng.choice(f) if f[-1] > 0 else 0.1
    base_dir = rng.uniform(-180.0, 180.0)
    if kind == "cos2s_seam":
        base_dir = rng.choice([180.0, -180.0, 179.5, -179.5, 180.0 - 360.0 / nd, 90.0, -90.0, 0.0])
    turn = rng.uniform(-60.0, 60.0)
    sp = rng.choice([1, 2, 4, 10, 40])
    for i in range(nf):
        fi = f[i]
        shape = math.exp(-((fi - fp) / (0.3 * fp + 0.02)) ** 2) + 0.05 * rng.random()
        amp = C.dyadic(rng, 0.01, 4.0, 12) * shape
        row = []
        md = base_dir + turn * (fi - fp) / (abs(fp) + 0.05)
        for j in range(nd):
            d = math.radians(ang_diff(th[j], md))
            if kind == "noise":
                v = amp * rng.random()
            elif kind in ("cos2s", "cos2s_seam"):
                v = amp * (math.cos(d / 2.0) ** (2 * sp))
            elif kind == "bimodal":
                d2 = math.radians(ang_diff(th[j], md + 140.0))
                v = amp * (math.cos(d / 2.0) ** 8 + 0.7 * math.cos(d2 / 2.0) ** 20)
            elif kind == "single_bin":
                v = amp if j == (i * 3 + int(sp)) % nd else 0.0
            else:  # sector
                v = amp if abs(ang_diff(th[j], md)) < 50.0 else 0.0
            row.append(v)
        E.append(row)
    flags = []
    if rng.random() < 0.35:      # a frequency without energy
        E[rng.randrange(nf)] = [0.0] * nd
        flags.append("zero_row")
    if rng.random() < 0.3:       # scattered NaN bins
        for _ in range(rng.randint(1, 4)):
            E[rng.randrange(nf)][rng.randrange(nd)] = NAN
        flags.append("nan_bins")
    if rng.random() < 0.12:      # a frequency that is NaN in every direction
        E[rng.randrange(nf)] = [NAN] * nd
        flags.append("nan_row")
    if rng.random() < 0.04:
        E = [[NAN] * nd for _ in range(nf)]
        flags.append("all_nan")
    if rng.random() < 0.04:
        E = [[0.0] * nd for _ in range(nf)]
        flags.append("all_zero")
    return kind, E, flags


def gen_bands(rng, f, count):
    bands = [(0.0, INF, "default")]
    nf = len(f)
    while len(bands) < count:
        k = rng.choice(["grid", "grid", "between", "empty", "single", "low", "high"])
        i = rng.randrange(nf)
        j = rng.randrange(nf)
        i, j = min(i, j), max(i, j)
        if k == "grid":
            bands.append((f[i], f[j], k))                      # fmax on a grid point: excluded by '<'
        elif k == "between":
            lo = f[i] - 0.001 if rng.random() < 0.5 else f[i] + 0.001
            hi = f[j] + 0.001
            bands.append((lo, hi, k))
        elif k == "empty":
            bands.append((f[-1] + 1.0, f[-1] + 2.0, k))
        elif k == "single":
            bands.append((f[i], f[i] + 1e-4, k))
        elif k == "low":
            bands.append((0.0, f[j] + 0.0005, k))
        else:
            bands.append((f[i], INF, k))
    return bands


def hexrow(r):
    return [C.fx(v) for v in r]


def model_line_2d(f, th, E, bands):
    toks = ["p2d", str(len(f)), str(len(th))]
    toks += [C.fx(v) for v in f] + [C.fx(v) for v in th]
    for r in E:
        toks += [C.fx(v) for v in r]
    toks.append(str(len(bands)))
    for b in bands:
        toks += [C.fx(b[0]), C.fx(b[1])]
    return " ".join(toks)


def model_line_1d(f, pt, bands):
    toks = ["p1d", str(len(f))] + [C.fx(v) for v in f]
    for k in ("e", "a1", "b1", "a2", "b2"):
        toks += [C.fx(v) for v in pt[k]]
    toks.append(str(len(bands)))
    for b in bands:
        toks += [C.fx(b[0]), C.fx(b[1])]
    return " ".join(toks)


class Tok:
    def __init__(self, toks):
        self.t = toks
        self.i = 0
        if toks and toks[0] == "ERR":
            raise C.Infra("model driver error: " + " ".join(toks))

    def f(self):
        v = self.t[self.i]
        self.i += 1
        return C.unfx(v)

    def lst(self):
        n = int(self.t[self.i])
        self.i += 1
        return [self.f() for _ in range(n)]

    def bulk(self):
        d = {}
        for k in BULK:
            v = self.t[self.i]
            self.i += 1
            d[k] = (float(int(v)) if v != "-1" else NAN) if k == "pidx" else C.unfx(v)
        return d


def parse_2d(toks, nb):
    t = Tok(toks)
    d = {"step": t.lst(), "e": t.lst(), "a1": t.lst(), "b1": t.lst(), "a2": t.lst(), "b2": t.lst(),
         "isd_freq": t.lst(), "isd_both": t.f(), "dirpf": t.lst(), "sprpf": t.lst()}
    d["bulk"] = [t.bulk() for _ in range(nb)]
    return d


def parse_1d(toks, nb):
    t = Tok(toks)
    d = {"dirpf": t.lst(), "sprpf": t.lst()}
    d["bulk"] = [t.bulk() for _ in range(nb)]
    return d


# ------------------------------------------------------------------------------------------
# comparison helpers
# ------------------------------------------------------------------------------------------
def fin(x):
    return not (isnan(x) or math.isinf(x))


def same_missing(a, b):
    """both finite or both non-finite (numpy 0/0 = nan, x/0 = inf: both are the model's None)"""
    return fin(a) == fin(b)


def dir_close(a, b, tol=1e-6):
    return abs(ang_diff(a, b)) <= tol


def spread_q(v):
    """spread in degrees -> 2 - 2r (its well-conditioned pre-image)"""
    r = math.radians(v)
    return r * r


def spread_close(a, b, tol=1e-9):
    """compare spreads through their squares; a NaN against a value whose square is ~0 is the r->1 rounding edge"""
    if fin(a) and fin(b):
        return abs(spread_q(a) - spread_q(b)) <= tol, None
    if not fin(a) and not fin(b):
        return True, None
    v = a if fin(a) else b
    if spread_q(v) <= 1e-7:
        return True, "spread-at-r=1-rounding"
    return False, None


def unh(lst):
    return [C.unfx(v) for v in lst]


def band_info(f, e, lo, hi):
    """indices in band and trapezoid of |e| (scale) for a 1D energy list (NaN -> 0)"""
    idx = [i for i, v in enumerate(f) if v >= lo and v < hi]
    s = 0.0
    m = 0.0
    for a, b in zip(idx, idx[1:]):
        ea = 0.0 if isnan(e[a]) else e[a]
        eb = 0.0 if isnan(e[b]) else e[b]
        s += (f[b] - f[a]) * (abs(ea) + abs(eb)) / 2.0
        m += (f[b] - f[a]) * (ea + eb) / 2.0
    return idx, s, m


def compare_bulk(ctx, tag, f, e_model, mb, ib, lo, hi, rep, fail, a1=None, b1=None, skip_dirs=False, skip_means=False):
    """mb: model bulk dict (floats), ib: impl bulk dict (floats). `fail(desc)` reports.
    Returns True when everything agreed."""
    ok = True
    idx, sc, _ = band_info(f, e_model, lo, hi)
    fmax_abs = max([abs(v) for v in f] + [1e-30])

    def bad(desc):
        nonlocal ok
        ok = False
        fail("%s: %s (band [%r,%r))" % (tag, desc, lo, hi))

    # m0 and the integral parameters
    if not C.close(ib["m0"], mb["m0"], 1e-9, 1e-300, sc):
        bad("m0 impl %r model %r" % (ib["m0"], mb["m0"]))
    for k in ("hm0", "tm01", "tm02"):
        if not same_missing(ib[k], mb[k]):
            bad("%s impl %r model %r" % (k, ib[k], mb[k]))
        elif fin(mb[k]) and not C.close(ib[k], mb[k], 1e-8, 1e-300):
            # periods are ill-conditioned only when m1/m2 cancel, impossible for e >= 0, f >= 0
            bad("%s impl %r model %r" % (k, ib[k], mb[k]))
    # peak
    pi_i, pi_m = ib["pidx"], mb["pidx"]
    peak_ok = True
    if not any(fin(e_model[i]) and e_model[i] > 0 for i in idx):
        # no positive energy inside the band: the peak is not defined by the property (the code answers index 0 or the
        # first zero bin); counted, not compared
        ctx.tally("skipped:peak-of-a-band-without-energy")
        peak_ok = False
    elif isnan(pi_m) or isnan(pi_i):
        if not (isnan(pi_m) and isnan(pi_i)):
            bad("peak_index impl %r model %r" % (pi_i, pi_m))
        peak_ok = False
    elif int(pi_i) != int(pi_m):
        ei, em = e_model[int(pi_i)], e_model[int(pi_m)]
        if fin(ei) and fin(em) and abs(ei - em) <= 1e-12 * max(abs(ei), abs(em)):
            ctx.tally("skipped:peak-near-tie")
        else:
            bad("peak_index impl %r model %r" % (pi_i, pi_m))
        peak_ok = False
    if peak_ok:
        if not C.close(ib["pfreq"], mb["pfreq"], 1e-12, 0.0):
            bad("peak_frequency impl %r model %r" % (ib["pfreq"], mb["pfreq"]))
    # band means of the moments
    for k in (() if skip_means else ("ma1", "mb1", "ma2", "mb2")):
        if not same_missing(ib[k], mb[k]):
            bad("%s impl %r model %r" % (k, ib[k], mb[k]))
        elif fin(mb[k]) and abs(ib[k] - mb[k]) > 1e-9 * (1.0 + abs(mb[k])):
            bad("%s impl %r model %r" % (k, ib[k], mb[k]))
    if skip_dirs:
        return ok
    # directions as unit vectors, away from the zero vector; spreads through their squares
    def dirs(kd, ks, A, B):
        if not same_missing(ib[kd], mb[kd]):
            bad("%s impl %r model %r" % (kd, ib[kd], mb[kd]))
        elif fin(mb[kd]):
            if fin(A) and fin(B) and math.hypot(A, B) >= 1e-3:
                if not dir_close(ib[kd], mb[kd]):
                    bad("%s impl %r model %r" % (kd, ib[kd], mb[kd]))
            else:
                ctx.tally("skipped:direction-of-near-zero-vector")
        okq, note = spread_close(ib[ks], mb[ks])
        if note:
            ctx.tally("skipped:" + note)
        if not okq:
            bad("%s impl %r model %r" % (ks, ib[ks], mb[ks]))
    if not skip_means:
        dirs("mdir", "mspr", mb["ma1"], mb["mb1"])
    if peak_ok and a1 is not None:
        p = int(pi_m)
        dirs("pdir", "pspr", a1[p], b1[p])
    return ok


def bulk_at(bulk_entry, pt):
    """impl bulk dict {key: [hex per point] | {"error":..}} -> ({key: float}, errors)"""
    out = {}
    errs = {}
    for k in BULK:
        v = bulk_entry[k]
        if isinstance(v, dict):
            errs[k] = v
            out[k] = NAN
        else:
            out[k] = C.unfx(v[pt])
    return out, errs


def err_of(x):
    return isinstance(x, dict) and "error" in x


# ------------------------------------------------------------------------------------------
# python reference of the definition (independent of model and implementation): used as oracle
# ------------------------------------------------------------------------------------------
def ref_steps(th):
    n = len(th)
    raw = [th[j + 1] - th[j] for j in range(n - 1)] + [th[0] - th[n - 1]]
    return [(d + 360.0 - 180.0) % 360.0 - 360.0 + 180.0 for d in raw]


def ref_row(row, th, st):
    terms = [(0.0 if isnan(v) else v) * s for v, s in zip(row, st)]
    e = math.fsum(terms)
    sc = math.fsum(abs(t) for t in terms)
    out = {"e": e, "scale": sc}
    for name, fn in (("a1", lambda t: math.cos(math.radians(t))), ("b1", lambda t: math.sin(math.radians(t))),
                     ("a2", lambda t: math.cos(2 * math.radians(t))), ("b2", lambda t: math.sin(2 * math.radians(t)))):
        num = math.fsum(t * fn(a) for t, a in zip(terms, th))
        out[name] = num / e if e != 0 else NAN
    return out


# ------------------------------------------------------------------------------------------
def build_2d_case(rng, uniform_only=False, variants=None, maxpts=3, nbands=3, nfmax=24, nmax=144):
    g = gen_grid(rng, uniform_only=uniform_only, nmax=nmax)
    r = rng.random()
    nf = 1 if r < 0.03 else (2 if r < 0.08 else rng.randint(3, nfmax))
    fk, f = gen_freq(rng, nf)
    layout = rng.choice(["none", "none", "time", "time", "time_lat"])
    npts = 1 if layout == "none" else (rng.randint(1, maxpts) if layout == "time" else rng.choice([2, 4, 6, 8][:max(1, maxpts // 2)]))
    pts = []
    for _ in range(npts):
        dk, E, flags = gen_density(rng, f, g["th"])
        pts.append((dk, E, flags))
    bands = gen_bands(rng, f, nbands)
    case = {"op": "spec2d", "f": hexrow(f), "th": hexrow(g["th"]),
            "E": [[hexrow(r_) for r_ in E] for (_, E, _) in pts], "layout": layout,
            "bands": [[C.fx(b[0]), C.fx(b[1])] for b in bands], "variants": variants or [],
            "extra": rng.random() < 0.5}
    return {"grid": g, "f": f, "fkind": fk, "layout": layout, "pts": pts, "bands": bands, "case": case}


def replay_of(b, pt=None):
    rep = {"op": "FrequencyDirectionSpectrum", "frequency": b["f"], "direction": b["grid"]["th"],
           "grid_kind": b["grid"]["kind"], "layout": b["layout"], "dims": {"none": ["frequency", "direction"],
           "time": ["time", "frequency", "direction"], "time_lat": ["time", "latitude", "frequency", "direction"]}[b["layout"]]}
    if pt is None:
        rep["variance_density(points)"] = [[[None if isnan(v) else v for v in r] for r in E] for (_, E, _) in b["pts"]]
    else:
        rep["point_index"] = pt
        rep["variance_density"] = [[None if isnan(v) else v for v in r] for r in b["pts"][pt][1]]
        rep["number_of_points_in_batch"] = len(b["pts"])
    return rep


# ------------------------------------------------------------------------------------------

def pregen(ctx):
    """regenerate coq/Generated/MathSrc.v from the CURRENT tools/math.py (fail-closed translator); Proofs/MathGen.v
    proves the regenerated wrapped_difference equal to the model's, so a changed formula breaks a proof obligation"""
    import os, sys
    sys.path.insert(0, os.path.join(C.VERIF, "harness"))
    import translate_pointwise as TP
    TP.generate_math(C.REPO, C.COQ)


def run(ctx):
    _run_main(ctx)
    import reuse_common
    reuse_common.reuse_check(ctx, "C02")


def _run_main(ctx):
    rng = ctx.rng
    ncase = ctx.n(60, 1300)
    builds = [build_2d_case(rng, nbands=3, maxpts=6 if ctx.quick() else 8, nfmax=20 if ctx.quick() else 30)
              for _ in range(ncase)]
    cases = [b["case"] for b in builds]
    # auxiliary: wrapped_difference on its own, numba integral
    aux = []
    for _ in range(ctx.n(20, 300)):
        per = rng.choice([360.0, 360.0, 2 * math.pi, 24.0, 1.0])
        disc = rng.choice([None, None, 0.0, per, per / 4])
        ds = [C.dyadic(rng, -3 * per, 3 * per, 16) for _ in range(rng.randint(1, 12))] + [0.0, per / 2, -per / 2, per]
        if rng.random() < 0.3:
            ds.append(NAN)
        aux.append(("wrap", {"op": "wrap", "delta": hexrow(ds), "period": C.fx(per), "discont": None if disc is None else C.fx(disc)},
                    ds, per, disc))
    for _ in range(ctx.n(10, 150)):
        nf, nd = rng.randint(1, 12), rng.randint(2, 48)
        data = [[C.dyadic(rng, 0, 4, 12) for _ in range(nd)] for _ in range(nf)]
        fs = [C.dyadic(rng, 0.005, 0.1, 8) for _ in range(nf)]
        dsx = [C.dyadic(rng, 1.0, 30.0, 8) for _ in range(nd)]
        aux.append(("nisd", {"op": "nisd", "data": [hexrow(r) for r in data], "fstep": hexrow(fs), "dstep": hexrow(dsx)},
                    data, fs, dsx))
    payload = {"cases": cases + [a[1] for a in aux]}
    import time as _t
    t0 = _t.time()
    impl = ctx.impl("C02.py", payload)["results"]
    t1 = _t.time()

    mlines = []
    for b in builds:
        for (_, E, _) in b["pts"]:
            mlines.append(model_line_2d(b["f"], b["grid"]["th"], E, b["bands"]))
    for a in aux:
        if a[0] == "wrap":
            for d in a[2]:
                if not isnan(d):
                    mlines.append("wrap %s %s %s" % (C.fx(d), C.fx(a[3]), C.fx(a[3] / 2 if a[4] is None else a[4])))
        else:
            _, _, data, fs, dsx = a
            mlines.append("nisd %d %d %s %s %s" % (len(fs), len(dsx), " ".join(C.fx(v) for r in data for v in r),
                                                   " ".join(C.fx(v) for v in fs), " ".join(C.fx(v) for v in dsx)))
    mod = ctx.model(mlines)
    ctx.extra["timing_s"] = {"implementation": round(t1 - t0, 1), "model": round(_t.time() - t1, 1)}
    mi = 0
    for ci, b in enumerate(builds):
        res = impl[ci]
        nb = len(b["bands"])
        mpts = []
        for _ in b["pts"]:
            mpts.append(parse_2d(mod[mi], nb))
            mi += 1
        check_2d_case(ctx, b, res, mpts)
    # ---- auxiliary cases
    for k, a in enumerate(aux):
        res = impl[len(builds) + k]
        if a[0] == "wrap":
            _, case, ds, per, disc = a
            rep = {"op": "wrapped_difference", "delta": [None if isnan(v) else v for v in ds], "period": per, "discont": disc}
            ctx.count(["wrap", ds, per, disc])
            ctx.tally("aux:wrapped_difference")
            if err_of(res):
                ctx.oracle_fail("wrapped_difference raised %s" % res, rep)
                for d in ds:
                    if not isnan(d):
                        mi += 1
                continue
            got = unh(res["value"])
            dd = per / 2 if disc is None else disc
            for d, gv in zip(ds, got):
                if isnan(d):
                    if not isnan(gv):
                        ctx.oracle_fail("wrapped_difference(nan) = %r" % gv, rep)
                    continue
                mv = C.unfx(mod[mi][0])
                mi += 1
                if abs(abs(gv - mv) - per) <= 1e-9 * per and min(abs(mv - dd), abs(mv - (dd - per))) <= 1e-9 * per:
                    ctx.tally("skipped:wrapped-difference-exactly-on-the-discontinuity")
                elif not C.close(gv, mv, 1e-12, 1e-12 * per):
                    ctx.disagree("wrapped_difference(%r, period=%r, discont=%r): impl %r model %r" % (d, per, disc, gv, mv),
                                 rep, is_property_failure=True)
                # oracle: congruent to delta modulo the period, inside (discont - period, discont]
                kk = (gv - d) / per
                if abs(kk - round(kk)) > 1e-9 or not (dd - per - 1e-9 * per <= gv <= dd + 1e-9 * per):
                    ctx.oracle_fail("wrapped_difference(%r, period=%r, discont=%r) = %r is not the wrapped value" % (d, per, disc, gv), rep)
        else:
            _, case, data, fs, dsx = a
            rep = {"op": "numba_integrate_spectral_data", "data": data, "frequency_step": fs, "direction_step": dsx}
            ctx.count(["nisd", data[0][:4], fs[:3], dsx[:3]])
            ctx.tally("aux:numba_integrate_spectral_data")
            mv = C.unfx(mod[mi][0])
            mi += 1
            if err_of(res):
                ctx.oracle_fail("numba_integrate_spectral_data raised %s" % res, rep)
                continue
            ref = math.fsum(v * a_ * b_ for r, a_ in zip(data, fs) for v, b_ in zip(r, dsx))
            gv = C.unfx(res["value"])
            if not C.close(gv, mv, 1e-9, 0.0, ref):
                ctx.disagree("numba_integrate_spectral_data impl %r model %r" % (gv, mv), rep, is_property_failure=True)
            if not C.close(gv, ref, 1e-9, 0.0):
                ctx.oracle_fail("numba_integrate_spectral_data %r is not the double sum %r" % (gv, ref), rep)
            gd = unh(res["dir"])
            for i_, r in enumerate(data):
                rr = math.fsum(v * b_ for v, b_ in zip(r, dsx))
                if not C.close(gd[i_], rr, 1e-9, 0.0):
                    ctx.oracle_fail("numba_directionally_integrate_spectral_data row %d: %r vs %r" % (i_, gd[i_], rr), rep)
                    break


def check_2d_case(ctx, b, res, mpts, do_c03=False):
    """Correspondence and C02 oracles of one spec2d case. Returns per-point parsed implementation values
    (list of dicts) or None when the case could not be evaluated."""
    g = b["grid"]
    f, th = b["f"], g["th"]
    nf, nd = len(f), len(th)
    npts = len(b["pts"])
    ctx.tally("grid:" + g["kind"])
    ctx.tally("layout:" + b["layout"])
    ctx.tally("ndir:%s" % ("8-16" if nd <= 16 else "17-48" if nd <= 48 else "49-144"))
    ctx.tally("nfreq:%s" % ("1-2" if nf <= 2 else "3-10" if nf <= 10 else ">10"))
    if err_of(res):
        ctx.oracle_fail("building / evaluating the 2D spectrum raised %s" % res, replay_of(b))
        return None
    for k in ("step", "e", "a1", "b1", "a2", "b2", "dirpf", "sprpf", "isd_dir", "isd_freq", "isd_both", "isd_both_rev", "oned"):
        if err_of(res[k]):
            ctx.oracle_fail("%s raised %s" % (k, res[k]), replay_of(b), key=None)
            return None
    # ---- direction steps (shared by all points)
    st_i = unh(res["step"])
    st_m = mpts[0]["step"]
    st_r = ref_steps(th)
    rep0 = replay_of(b)
    if len(st_i) != nd or any(not C.close(x, y, 0.0, 1e-9) for x, y in zip(st_i, st_m)):
        ctx.disagree("direction_step differs from the wrapped forward difference: impl %r model %r" % (st_i[:4] + st_i[-2:], st_m[:4] + st_m[-2:]),
                     rep0, is_property_failure=True)
    # oracle: every grid generated here covers the circle -> positive steps that sum to 360 and equal the gaps
    if len(st_i) == nd:
        phi = g["phi"]
        gaps = [phi[j + 1] - phi[j] for j in range(nd - 1)] + [phi[0] + 360.0 - phi[-1]]
        if abs(math.fsum(st_i) - 360.0) > 1e-9 * 360:
            ctx.oracle_fail("direction steps sum to %r, not 360 (grid %s)" % (math.fsum(st_i), g["kind"]), rep0)
        elif any(abs(x - y) > 1e-9 * 360 for x, y in zip(st_i, gaps)):
            ctx.oracle_fail("a direction step is not the cyclic gap to the next direction (grid %s)" % g["kind"], rep0)
    out = []
    for p in range(npts):
        dk, E, flags = b["pts"][p]
        m = mpts[p]
        rep = replay_of(b, p)
        ctx.tally("density:" + dk)
        for fl in flags:
            ctx.tally("density-flag:" + fl)
        iv = {k: unh(res[k][p]) for k in ("e", "a1", "b1", "a2", "b2", "dirpf", "sprpf", "isd_dir", "isd_freq")}
        iv["isd_both"] = C.unfx(res["isd_both"][p][0])
        iv["isd_both_rev"] = C.unfx(res["isd_both_rev"][p][0])
        out.append(iv)
        refs = [ref_row(E[i], th, st_r) for i in range(nf)]
        bad = False

        def fail_corr(desc):
            nonlocal bad
            bad = True
            ctx.disagree(desc, rep, is_property_failure=True)
        # ---- e, a1, b1, a2, b2 : model vs impl, and the python reference of the definition as oracle
        for i in range(nf):
            sc = refs[i]["scale"]
            if not C.close(iv["e"][i], m["e"][i], 1e-9, 1e-300, sc):
                fail_corr("e[%d] impl %r model %r" % (i, iv["e"][i], m["e"][i]))
                break
            if not C.close(iv["e"][i], refs[i]["e"], 1e-9, 1e-300, sc):
                ctx.oracle_fail("e(f)[%d] = %r is not sum(E * wrapped step) = %r" % (i, iv["e"][i], refs[i]["e"]), rep)
                bad = True
                break
            if not C.close(iv["isd_dir"][i], refs[i]["e"], 1e-9, 1e-300, sc):
                ctx.oracle_fail("integrate_spectral_data(direction)[%d] = %r is not sum(E * wrapped step) = %r" % (i, iv["isd_dir"][i], refs[i]["e"]), rep)
                bad = True
                break
            e_m = m["e"][i]
            for k in ("a1", "b1", "a2", "b2"):
                x, y = iv[k][i], m[k][i]
                if not same_missing(x, y):
                    fail_corr("%s[%d] impl %r model %r (e=%r)" % (k, i, x, y, e_m))
                    break
                if fin(y):
                    tol = 1e-9 * (sc / abs(e_m)) + 1e-12
                    if abs(x - y) > tol:
                        fail_corr("%s[%d] impl %r model %r" % (k, i, x, y))
                        break
                    if abs(x - refs[i][k]) > tol:
                        ctx.oracle_fail("%s(f)[%d] = %r is not the weighted sum of the definition %r" % (k, i, x, refs[i][k]), rep)
                        bad = True
                        break
            if bad:
                break
            # bounds (all densities generated here are non-negative, all steps positive)
            if fin(iv["a1"][i]):
                a1, b1, a2, b2 = iv["a1"][i], iv["b1"][i], iv["a2"][i], iv["b2"][i]
                eps = 1e-9
                if max(abs(a1), abs(b1), abs(a2), abs(b2)) > 1 + eps or a1 * a1 + b1 * b1 > 1 + eps or a2 * a2 + b2 * b2 > 1 + eps:
                    ctx.oracle_fail("moments outside the unit disc at frequency %d: a1=%r b1=%r a2=%r b2=%r" % (i, a1, b1, a2, b2), rep)
                    bad = True
                    break
            elif iv["e"][i] > 0:
                ctx.oracle_fail("a1 is not finite although e[%d]=%r > 0" % (i, iv["e"][i]), rep)
                bad = True
                break
        # ---- integrate_spectral_data over frequency / both
        if not bad:
            for j in range(nd):
                col = [0.0 if isnan(E[i][j]) else E[i][j] for i in range(nf)]
                scj = sum((f[i + 1] - f[i]) * (abs(col[i]) + abs(col[i + 1])) / 2 for i in range(nf - 1))
                if not C.close(iv["isd_freq"][j], m["isd_freq"][j], 1e-9, 1e-300, scj):
                    fail_corr("integrate_spectral_data(frequency)[%d] impl %r model %r" % (j, iv["isd_freq"][j], m["isd_freq"][j]))
                    break
            sc_tot = sum((f[i + 1] - f[i]) * (refs[i]["scale"] + refs[i + 1]["scale"]) / 2 for i in range(nf - 1))
            for nm in ("isd_both", "isd_both_rev"):
                if not C.close(iv[nm], m["isd_both"], 1e-9, 1e-300, sc_tot):
                    fail_corr("integrate_spectral_data(frequency+direction) impl %r model %r" % (iv[nm], m["isd_both"]))
        # ---- 2D -> 1D
        o = res["oned"]
        if not bad:
            if o["cls"] != "FrequencySpectrum":
                ctx.oracle_fail("as_frequency_spectrum returned %s" % o["cls"], rep)
            for k in ("e", "a1", "b1", "a2", "b2"):
                a = unh(o[k][p])
                if any(not (x == y or (isnan(x) and isnan(y))) for x, y in zip(a, iv[k])) or len(a) != nf:
                    ctx.oracle_fail("as_frequency_spectrum().%s differs from the 2D spectrum's %s" % (k, k), rep)
                    bad = True
                    break
        if p == 0 and not bad:
            need = ["time", "latitude", "longitude", "depth", "frequency"] + (["station_quality"] if b["case"]["extra"] else [])
            for nme in need:
                m1, m2 = o["meta1"].get(nme), o["meta2"].get(nme)
                if m2 is None:
                    continue
                if m1 is None or m1 != m2:
                    rr = dict(rep0)
                    rr["variable"] = nme
                    ctx.oracle_fail("as_frequency_spectrum() lost or changed the non-spectral variable %r" % nme, rr)
                    bad = True
                    break
            if o["depth_prop"] != o["depth_prop2"]:
                ctx.oracle_fail("depth of the 1D spectrum differs from the depth of the 2D spectrum", rep0)
        # ---- bulk parameters: model vs 2D vs 1D, every band
        for bi, (lo, hi, bk) in enumerate(b["bands"]):
            ib2, er2 = bulk_at(res["bulk2d"][bi], p)
            ib1, er1 = bulk_at(o["bulk1d"][bi], p)
            idx, sc, m0ref = band_info(f, m["e"], lo, hi)
            nontriv = nf >= 2 and len(idx) >= 2 and m0ref > 0
            ctx.count([f, th[:6], [v for v in E[0][:8]], E[-1][:8], lo, hi, p], nontriv)
            ctx.tally("band:" + bk)
            if bad:
                continue
            if er2 or er1:
                ctx.oracle_fail("bulk parameter raised: %s" % (er2 or er1), dict(rep, band=[lo, hi]))
                continue
            rb = dict(rep, band=[lo, hi])
            compare_bulk(ctx, "2D spectrum", f, m["e"], m["bulk"][bi], ib2, lo, hi, rb,
                         lambda d, rb=rb: ctx.disagree(d, rb, is_property_failure=True), a1=m["a1"], b1=m["b1"])
            # 2D versus its 1D reduction: same formulas on the same numbers -> equal up to rounding noise
            for k in BULK:
                x, y = ib2[k], ib1[k]
                if isnan(x) and isnan(y):
                    continue
                if k in ("pdir", "mdir"):
                    same = fin(x) and fin(y) and dir_close(x, y, 1e-9)
                elif k in ("pspr", "mspr"):
                    same = spread_close(x, y, 1e-12)[0]
                else:
                    same = C.close(x, y, 1e-12, 0.0)
                if not same:
                    ctx.oracle_fail("%s of the 2D spectrum (%r) differs from %s of as_frequency_spectrum() (%r)" % (k, x, k, y), rb)
                    break
            # total variance: m0 over the whole band = integrate_spectral_data over both dimensions
            if bk == "default" and f[0] >= 0 and not C.close(ib1["m0"], iv["isd_both"], 1e-9, 1e-300, sc):
                ctx.oracle_fail("m0 of the 1D reduction %r differs from the 2D integral %r" % (ib1["m0"], iv["isd_both"]), rb)
        if p == 0 and len(ctx.samples) < 3:
            ctx.sample({"grid": g["kind"], "ndir": nd, "nfreq": nf, "layout": b["layout"], "density": dk,
                        "step[:3]": st_i[:3], "e[:3] impl": iv["e"][:3], "e[:3] model": m["e"][:3],
                        "a1[:3] impl": iv["a1"][:3], "a1[:3] model": m["a1"][:3]})
    return out


# ------------------------------------------------------------------------------------------
# --replay FILE : re-evaluate one recorded input (single point, layout ())
# ------------------------------------------------------------------------------------------
def unwrap_grid(th):
    phi = [th[0]]
    for j in range(1, len(th)):
        phi.append(phi[-1] + ((th[j] - th[j - 1]) % 360.0))
    return phi


def build_from_replay(inp, variants=None):
    f = [float(v) for v in inp["frequency"]]
    th = [float(v) for v in inp["direction"]]
    if "variance_density" in inp:
        pts = [inp["variance_density"]]
    else:
        pts = inp["variance_density(points)"]
    pts = [("replay", [[NAN if v is None else float(v) for v in r] for r in E], []) for E in pts]
    bands = [(0.0, INF, "default")]
    if inp.get("band"):
        lo, hi = inp["band"]
        bands.append((float(lo), float(hi), "replay"))
    n = len(th)
    dl = 360.0 / n
    phi = unwrap_grid(th)
    uniform = all(abs((phi[j + 1] - phi[j]) - dl) < 1e-9 for j in range(n - 1))
    g = {"kind": inp.get("grid_kind", "replay"), "th": th, "n": n, "uniform": uniform, "dl": dl if uniform else None,
         "start": th[0], "phi": phi}
    layout = "none" if len(pts) == 1 else "time"
    case = {"op": "spec2d", "f": hexrow(f), "th": hexrow(th), "E": [[hexrow(r_) for r_ in E] for (_, E, _) in pts],
            "layout": layout, "bands": [[C.fx(b[0]), C.fx(b[1])] for b in bands], "variants": variants or [], "extra": True}
    return {"grid": g, "f": f, "fkind": "replay", "layout": layout, "pts": pts, "bands": bands, "case": case}


def replay(ctx, obj):
    inp = obj.get("input", obj)
    op = inp.get("op")
    if op == "FrequencyDirectionSpectrum":
        b = build_from_replay(inp)
        res = ctx.impl("C02.py", {"cases": [b["case"]]})["results"][0]
        mod = ctx.model([model_line_2d(b["f"], b["grid"]["th"], E, b["bands"]) for (_, E, _) in b["pts"]])
        check_2d_case(ctx, b, res, [parse_2d(t, len(b["bands"])) for t in mod])
    elif op == "wrapped_difference":
        ds = [NAN if v is None else float(v) for v in inp["delta"]]
        per, disc = inp["period"], inp["discont"]
        res = ctx.impl("C02.py", {"cases": [{"op": "wrap", "delta": hexrow(ds), "period": C.fx(per),
                                             "discont": None if disc is None else C.fx(disc)}]})["results"][0]
        dd = per / 2 if disc is None else disc
        got = unh(res["value"]) if not err_of(res) else [NAN] * len(ds)
        for d, gv in zip(ds, got):
            ctx.count(["replay-wrap", d])
            if isnan(d):
                continue
            kk = (gv - d) / per
            if isnan(gv) or abs(kk - round(kk)) > 1e-9 or not (dd - per - 1e-9 * per <= gv <= dd + 1e-9 * per):
                ctx.oracle_fail("wrapped_difference(%r, period=%r, discont=%r) = %r is not the wrapped value" % (d, per, disc, gv), inp)
    elif op == "numba_integrate_spectral_data":
        data, fs, dsx = inp["data"], inp["frequency_step"], inp["direction_step"]
        res = ctx.impl("C02.py", {"cases": [{"op": "nisd", "data": [hexrow(r) for r in data], "fstep": hexrow(fs), "dstep": hexrow(dsx)}]})["results"][0]
        ref = math.fsum(v * a_ * b_ for r, a_ in zip(data, fs) for v, b_ in zip(r, dsx))
        ctx.count(["replay-nisd"])
        if err_of(res) or not C.close(C.unfx(res["value"]), ref, 1e-9, 0.0):
            ctx.oracle_fail("numba_integrate_spectral_data is not the double sum %r: %s" % (ref, res), inp)
    else:
        print("replay: unknown input kind %r" % op)


READY = True
LEVEL_TEXT = ("Theorems (Coq, all grids / sizes): floor-modulo range and periodicity, wrapped difference in [-180,180) and congruent to its "
              "argument; on every grid congruent mod 360 to an increasing grid with cyclic gaps in (0,180) every direction step equals its gap, "
              "is positive, and the steps sum to 360; uniform grids (any start angle, stored mod 360 or not) give 360/N; e, a1, b1, a2, b2 are the "
              "weighted sums of the definition (NaN bins skipped, NaN when e = 0); for non-negative densities and non-negative steps with e > 0 "
              "all four moments have magnitude <= 1 and a1^2+b1^2 <= 1, a2^2+b2^2 <= 1 (weighted Cauchy-Schwarz on the unit circle, by induction "
              "over the bins); 2D->1D keeps m0, every bulk parameter and the metadata (by construction of the shared formulas) and m0 over the "
              "whole band equals the double integral (exchange of the frequency trapezoid and the directional sum); integrate_spectral_data and "
              "the numba double loop equal the class quadrature. The model is tied to the code by running the extracted model and spectrum.py / "
              "operations.py / tools/math.py on the same generated spectra (uniform and non-uniform grids, 8..144 bins, NaN/zero bins, three layouts).")
LEVEL_NOTE = ("to_1d_energy / to_1d_bulk / to_1d_meta hold by construction of the model (both classes share the formulas); their content is "
              "carried by the correspondence (2D object vs as_frequency_spectrum() object vs model, dataset variables compared). Float rounding, "
              "xarray layout handling and numpy.arctan2 are validated by execution only.")
TECHNIQUE = "Coq proof (induction over bins, congruence modulo 360 via Int_part) + extracted-model correspondence + definition oracles on the implementation"
DESIGN_REF = "DESIGN.md section 5 C02"
