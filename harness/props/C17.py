"""C17 time conversions: every representation denotes the same UTC instant; packed integers.

pregen : translate time_from_timeint / date_from_dateint / datetime_from_time_and_date_integers from the
         repo's CURRENT source into coq/Generated/TimeInt.v (fail-closed, see translate_timeint.py)
run    : (1) exhaustive packed integers against the real code (all t in 0..235959; every day 1970..2100 as
             yyyymmdd, every day 2000..2099 as yymmdd, invalid neighbours) -- correspondence with the
             hand-written decoder of the model on EVERY integer, property oracle on every valid one;
         (2) generated instants x offsets x representations through to_datetime_utc / to_datetime64 /
             datetime_to_iso_time_string, compared with the extracted Coq model field by field and with the
             instant the harness encoded (the property's own statement);
         (3) heterogeneous sequences in every container; (4) malformed neighbours (both must reject).
The implementation runs under TZ=VRF+03:30 (UTC-03:30, no tzdata needed).
"""
import os
from datetime import datetime, timedelta, timezone

import common as C
import translate_timeint as TT

US = timedelta(microseconds=1)
EPOCH = datetime(1970, 1, 1)
END_US = (datetime(2101, 1, 1) - EPOCH) // US          # instants 1970-01-01 .. 2100-12-31T23:59:59.999999
UNIT_NS = {"ns": 1, "us": 10 ** 3, "ms": 10 ** 6, "s": 10 ** 9, "m": 60 * 10 ** 9, "h": 3600 * 10 ** 9,
           "D": 86400 * 10 ** 9}

RULE = ("packed integers: every t in 0..235959 and every calendar day 1970-01-01..2100-12-31 (yyyymmdd) / "
        "2000-01-01..2099-12-31 (yymmdd) plus invalid neighbours, each counted once; conversion cases: "
        "(instant, offset, representation, container) drawn from one PRNG, non-trivial = the representation "
        "carries a non-zero offset, a fractional second, a calendar boundary or is a sequence; distinct by "
        "the full input")
ASSUMPTIONS = [
    "datetime64 inputs denote whole seconds: np.datetime64 values with sub-second parts are floored by the code "
    "(np.datetime64(x,'s')); DESIGN section 7 reads the property that way; such inputs are exercised and tallied "
    "as 'dt64-subsecond' and compared with the model's floor",
    "float epoch seconds: the instant is the float's exact value rounded half-even to microseconds (CPython); "
    "the model is exact where the fraction has <= 39 bits (always for t >= 8192 s)",
    "datetime.timestamp() float rounding in to_datetime64 is not modelled (int() of the exact value is)",
    "fromisoformat accepts more spellings than the model's grammar (basic format, week dates, +HHMM); those are "
    "checked against the encoded instant on the implementation only",
]


def pregen(ctx):
    text = TT.translate_repo(C.REPO)
    TT.write_if_changed(os.path.join(C.VERIF, TT.OUT_REL), text)


# ---------------------------------------------------------------------------------------------
# helpers
# ---------------------------------------------------------------------------------------------

def fields_of(us):
    d = EPOCH + timedelta(microseconds=us)
    return [d.year, d.month, d.day, d.hour, d.minute, d.second, d.microsecond]


def instant_of(f):
    return (datetime(*f) - EPOCH) // US


def toks_fields(f):
    return " ".join(str(v) for v in f)


def toks_str(s):
    return "str %d %s" % (len(s), " ".join(str(ord(ch)) for ch in s)) if s else "str 0"


def model_repr(r):
    k = r["k"]
    if k == "none":
        return "none"
    if k == "aware":
        return "aware %s %d" % (toks_fields(r["f"]), r["off"])
    if k == "naive":
        return "naive " + toks_fields(r["f"])
    if k == "str":
        return toks_str(r["s"])
    if k == "int":
        return "int %d" % r["v"]
    if k == "float":
        n, d = float.fromhex(r["hex"]).as_integer_ratio()
        return "float %d %d" % (n, d.bit_length() - 1)
    if k == "dt64":
        return "dt64 %d %d" % (r["count"], UNIT_NS[r["unit"]])
    if k == "seq":
        return "seq %d %s" % (len(r["items"]), " ".join(model_repr(x) for x in r["items"]))
    raise ValueError(k)


def float_modelled(r):
    """the model's fromtimestamp is exact when the float's fraction has at most 39 bits"""
    if r["k"] == "float":
        n, d = float.fromhex(r["hex"]).as_integer_ratio()
        return d.bit_length() - 1 <= 39 and n.bit_length() <= 61
    if r["k"] == "seq":
        return all(float_modelled(x) for x in r["items"])
    return True


class Reader:
    def __init__(self, toks):
        self.t = toks
        self.i = 0

    def next(self):
        v = self.t[self.i]
        self.i += 1
        return v


def parse_res(rd):
    """model reply of `utc` -> None | 'err' | dict(inst, f, off) | list"""
    t = rd.next()
    if t == "none":
        return None
    if t == "err":
        return "err"
    if t == "dt":
        inst = rd.next()
        f = [int(rd.next()) for _ in range(7)]
        o = rd.next()
        off = int(rd.next()) if o == "S" else None
        return {"inst": None if inst == "naive" else int(inst), "f": f, "off": off}
    if t == "seq":
        n = int(rd.next())
        return [parse_res(rd) for _ in range(n)]
    raise C.Infra("model reply not understood: %r" % (rd.t[:12],))


def parse_r64(rd):
    t = rd.next()
    if t == "none":
        return None
    if t == "err":
        return "err"
    if t == "ns":
        return int(rd.next())
    if t == "seq":
        n = int(rd.next())
        return [parse_r64(rd) for _ in range(n)]
    raise C.Infra("model reply not understood: %r" % (rd.t[:12],))


def impl_instant(e):
    """encoded implementation datetime -> (instant_us or None, problem or None)"""
    if not isinstance(e, dict) or "f" not in e:
        return None, "not a datetime: %r" % (e,)
    if e["off"] is None:
        return None, "naive datetime returned"
    if e["off"] != 0:
        return None, "datetime is not in UTC (utcoffset %s us)" % e["off"]
    try:
        return instant_of(e["f"]), None
    except Exception as ex:  # noqa
        return None, "bad fields %r (%s)" % (e["f"], ex)


# ---------------------------------------------------------------------------------------------
# generators
# ---------------------------------------------------------------------------------------------

BOUNDARY_DATES = [(1970, 1, 1), (1970, 1, 2), (1972, 2, 29), (1972, 3, 1), (1999, 12, 31), (2000, 1, 1),
                  (2000, 2, 28), (2000, 2, 29), (2000, 3, 1), (2000, 12, 31), (2001, 1, 1), (2022, 11, 9),
                  (2024, 2, 29), (2024, 12, 31), (2038, 1, 19), (2038, 1, 20), (2099, 12, 31), (2100, 1, 1),
                  (2100, 2, 28), (2100, 3, 1), (2100, 12, 31)]


def gen_instant(rng):
    """(instant_us, tag)"""
    r = rng.random()
    if r < 0.30:
        y, m, d = rng.choice(BOUNDARY_DATES)
        base = instant_of([y, m, d, 0, 0, 0, 0])
        delta = rng.choice([0, 1, 999999, 10 ** 6, 86399 * 10 ** 6, 86400 * 10 ** 6 - 1, 43200 * 10 ** 6,
                            -1, -10 ** 6, 500000, 3600 * 10 ** 6 * rng.randint(0, 23)])
        i = base + delta
        if 0 <= i < END_US:
            return i, "boundary"
    if r < 0.45:
        # month / year ends
        y = rng.randint(1970, 2100)
        m = rng.randint(1, 12)
        nxt = datetime(y + (m == 12), (m % 12) + 1, 1)
        i = (nxt - EPOCH) // US - rng.choice([1, 10 ** 6, 1800 * 10 ** 6, 0, 500000])
        return max(0, min(i, END_US - 1)), "month-end"
    secs = rng.randrange(0, END_US // 10 ** 6)
    r2 = rng.random()
    if r2 < 0.35:
        return secs * 10 ** 6, "whole-second"
    if r2 < 0.55:
        return secs * 10 ** 6 + rng.choice([1, 5, 499999, 500000, 500001, 999999, 100000, 123456, 250000, 15625]), "fraction-special"
    return secs * 10 ** 6 + rng.randrange(1, 10 ** 6), "fraction"


def gen_offset_min(rng):
    r = rng.random()
    if r < 0.15:
        return 0
    if r < 0.45:
        return 60 * rng.randint(-12, 14)
    if r < 0.70:
        return rng.choice([-570, -210, -150, 210, 270, 330, 345, 390, 525, 570, 630, 765, 825, -720, 840])
    return rng.randint(-720, 840)


def fmt_zone(off_s):
    sign = "-" if off_s < 0 else "+"
    a = abs(off_s)
    s = "%s%02d:%02d" % (sign, a // 3600, (a % 3600) // 60)
    if a % 60:
        s += ":%02d" % (a % 60)
    return s


def gen_scalar(rng, ctx=None, kinds=None, whole=False):
    """one scalar representation of a generated instant -> (repr, expect, tags)
    expect = ('inst', E) with E the instant the representation denotes."""
    I, itag = gen_instant(rng)
    if whole:
        I -= I % 10 ** 6
    kind = rng.choice(kinds or ["aware", "aware", "naive", "isoZ", "isoOff", "isoOff", "isoNaive", "int", "float",
                                "dt64", "isoformat"])
    tags = [itag, kind]
    if kind == "aware":
        off = gen_offset_min(rng) * 60
        if rng.random() < 0.05:
            off += rng.choice([-1, 1]) * rng.randint(1, 59)         # LMT style offsets with seconds
        loc = I + off * 10 ** 6
        if loc < 0:
            loc += 86400 * 10 ** 6; I += 86400 * 10 ** 6
        r = {"k": "aware", "f": fields_of(loc), "off": off, "cls": "pd" if rng.random() < 0.08 else "dt",
             "tz": "utc" if off == 0 and rng.random() < 0.5 else "fixed"}
        tags.append("off!=0" if off else "off=0")
        return r, ("inst", I), tags
    if kind == "naive":
        return {"k": "naive", "f": fields_of(I), "cls": "pd" if rng.random() < 0.08 else "dt"}, ("inst", I), tags
    if kind in ("isoZ", "isoOff", "isoNaive", "isoformat"):
        if kind == "isoOff":
            off = gen_offset_min(rng) * 60
            if rng.random() < 0.05:
                off += rng.choice([-1, 1]) * rng.randint(1, 59)
        else:
            off = 0
        loc = I + off * 10 ** 6
        if loc < 0:
            loc += 86400 * 10 ** 6; I += 86400 * 10 ** 6
        f = fields_of(loc)
        us = f[6]
        sep = "T" if rng.random() < 0.85 else " "
        s = "%04d-%02d-%02d%s%02d:%02d:%02d" % (f[0], f[1], f[2], sep, f[3], f[4], f[5])
        if kind == "isoformat":
            # exactly datetime.isoformat(): fraction only when non-zero, +00:00 or naive
            if us:
                s += ".%06d" % us
            if rng.random() < 0.5:
                s += "+00:00"
            tags.append("isoformat")
            return {"k": "str", "s": s, "np": False}, ("inst", I), tags
        fr = rng.random()
        lenient = 0
        if us == 0 and fr < 0.5:
            tags.append("frac:none")
        elif us % 1000 == 0 and fr < 0.3:
            s += (".%03d" % (us // 1000)); tags.append("frac:3")
        elif us % 100000 == 0 and fr < 0.5:
            s += (".%01d" % (us // 100000)); tags.append("frac:1")
        elif fr < 0.12:
            s += (",%06d" % us); tags.append("frac:comma")
        elif fr < 0.22:
            s += (".%06d%s" % (us, rng.choice(["000", "999", "5", "4999999"]))); tags.append("frac:>6"); lenient = 1
        else:
            s += (".%06d" % us); tags.append("frac:6")
        if kind == "isoZ":
            s += "Z"
        elif kind == "isoOff":
            s += fmt_zone(off) if off or rng.random() < 0.7 else "-00:00"
            tags.append("off!=0" if off else "off=0")
        return {"k": "str", "s": s, "np": rng.random() < 0.05}, (("inst", I, lenient) if lenient else ("inst", I)), tags
    if kind == "int":
        I -= I % 10 ** 6
        return {"k": "int", "v": I // 10 ** 6, "np": rng.random() < 0.2}, ("inst", I), tags
    if kind == "float":
        if rng.random() < 0.3:
            I -= I % 15625                       # exactly representable fraction (multiples of 2^-6 s)
            tags.append("float:dyadic")
        x = I / 10 ** 6                          # correctly rounded; |x - I/1e6| < 0.25 us for t < 2^32
        return {"k": "float", "hex": x.hex(), "np": rng.random() < 0.2}, ("inst", I), tags
    if kind == "dt64":
        I -= I % 10 ** 6
        secs = I // 10 ** 6
        unit = rng.choice(["s", "s", "ns", "ns", "us", "ms"])
        cands = [unit]
        if secs % 60 == 0:
            cands.append("m")
        if secs % 3600 == 0:
            cands.append("h")
        if secs % 86400 == 0:
            cands.append("D")
        unit = rng.choice(cands)
        return {"k": "dt64", "count": I * 1000 // UNIT_NS[unit], "unit": unit}, ("inst", I), tags
    raise ValueError(kind)


def gen_seq(rng, depth=0):
    """a heterogeneous / homogeneous sequence -> (repr, expect, tags)"""
    c = rng.choice(["list", "list", "tuple", "ndarray", "ndarray_obj", "dataarray", "dataarray_obj", "series",
                    "series_obj"])
    n = rng.choice([0, 1, 1, 2, 3, 3, 4, 6, 9])
    items, exps = [], []
    tags = ["seq:" + c, "len:%d" % min(n, 4)]
    if c in ("ndarray", "dataarray", "series"):
        kind = rng.choice(["dt64", "float", "int", "str"])
        tags.append("native:" + kind)
        for _ in range(n):
            kk = {"dt64": ["dt64"], "float": ["float"], "int": ["int"],
                  "str": ["isoZ", "isoOff", "isoNaive", "isoformat"]}[kind]
            r, e, _t = gen_scalar(rng, kinds=kk)
            if r["k"] in ("int", "float", "str"):
                r["np"] = True                    # elements of a numpy array are numpy scalars
            if r["k"] == "dt64":
                r["unit_in_array"] = "ns"
            items.append(r); exps.append(e)
        if n == 0:
            kind = "float"
        rr = {"k": "seq", "c": c, "items": items}
        if kind == "int" and n > 0:
            # epoch seconds stored in the narrower integer types (a netCDF time variable is often int32/uint32)
            vs = [x["v"] for x in items]
            fits = [d for d, lo, hi in (("int32", -2 ** 31, 2 ** 31), ("uint32", 0, 2 ** 32), ("int64", -2 ** 63, 2 ** 63))
                    if all(lo <= v < hi for v in vs)]
            rr["idtype"] = rng.choice(fits)
            tags.append("native:" + rr["idtype"])
        return rr, ("seq", exps), tags
    else:
        for _ in range(n):
            q = rng.random()
            if q < 0.08 and c in ("list", "tuple", "ndarray_obj"):
                items.append({"k": "none"}); exps.append(("none",)); tags.append("has-none")
            elif q < 0.14 and depth == 0 and c in ("list", "tuple"):
                r, e, _t = gen_seq(rng, depth + 1)
                items.append(r); exps.append(e); tags.append("nested")
            else:
                # xarray / pandas turn object arrays of datetimes into datetime64 (the whole-second path of
                # the code), so datetimes inside those containers are generated at whole seconds
                r, e, _t = gen_scalar(rng, whole=c in ("dataarray_obj", "series_obj"))
                items.append(r); exps.append(e)
        if n > 0 and rng.random() < 0.08:
            # a local-time record across the night the clocks go back: the same wall-clock time twice, told apart only
            # by `fold` (PEP 495) - two different instants, an hour (Lord Howe: half an hour) apart
            name, f = rng.choice(FOLD_TIMES)
            for fold in rng.choice([(0, 1), (1, 0)]):
                r, e = fold_item(name, f, fold)
                items.append(r); exps.append(e)
            tags.append("dst-fold-pair")
    return {"k": "seq", "c": c, "items": items}, ("seq", exps), tags


FOLD_TIMES = [("America/New_York", (2021, 11, 7, 1, 30, 0, 0)), ("America/New_York", (2022, 11, 6, 1, 15, 0, 0)),
              ("Europe/Berlin", (2021, 10, 31, 2, 30, 0, 0)), ("Australia/Lord_Howe", (2022, 4, 3, 1, 45, 0, 0))]


def fold_item(name, f, fold):
    from zoneinfo import ZoneInfo
    d = datetime(*f, tzinfo=ZoneInfo(name), fold=fold)
    off = int(d.utcoffset().total_seconds())
    loc_us = int((datetime(*f[:6]) - datetime(1970, 1, 1)).total_seconds()) * 10 ** 6 + f[6]
    return ({"k": "aware", "f": list(f), "off": off, "cls": "dt", "tz": "zone", "tzname": name, "fold": fold},
            ("inst", loc_us - off * 10 ** 6))


MALFORMED = [
    "2022-13-01T00:00:00", "2022-00-10T00:00:00", "2022-11-31T00:00:00", "2022-02-29T00:00:00", "2100-02-29T00:00:00Z",
    "2022-11-00T00:00:00", "2022-11-09T24:00:00", "2022-11-09T23:60:00", "2022-11-09T23:59:60", "2022-11-09T10:20:42.",
    "2022-11-09T10:20:42.12a", "2022-11-09T10:20:42+24:00", "2022-11-09T10:20:42+5:30", "2022-11-09T10:20:42 ",
    "2022-11-09T10:20:42+05:30 ", "0000-01-01T00:00:00", "2022-11-09T10:20:42z", "2022-11-09T10:20:42+00:00Z",
    "2022/11/09T10:20:42", "2022-11-09T10-20-42", "", "Z", "2022-11-09T10:20:42.5+05:3", "2022-11-09T1a:20:42",
    "2022-11-09T10:20:42*05:30", "2022-11-09T10:20:4", "20a2-11-09T10:20:42", "2022-11-09T10:20:42+05:30:6",
]
# well-formed spellings inside the model's grammar that sit next to the malformed ones
WELLFORMED = [
    ("2024-02-29T00:00:00", 2024, 2, 29, 0, 0, 0, 0, 0), ("2000-02-29T23:59:59.999999Z", 2000, 2, 29, 23, 59, 59, 999999, 0),
    ("2022-11-09", 2022, 11, 9, 0, 0, 0, 0, 0), ("2022-11-09T10:20:42+23:59", 2022, 11, 9, 10, 20, 42, 0, 86340),
    ("2022-11-09T10:20:42-23:59:59", 2022, 11, 9, 10, 20, 42, 0, -86399), ("2022-11-09T10:20:42+05:99", 2022, 11, 9, 10, 20, 42, 0, 5 * 3600 + 99 * 60),
    ("2022-11-09T10:20:42.1234567890123Z", 2022, 11, 9, 10, 20, 42, 123456, 0), ("1970-01-01T00:00:00Z", 1970, 1, 1, 0, 0, 0, 0, 0),
    ("2100-12-31T23:59:59.999999-12:00", 2100, 12, 31, 23, 59, 59, 999999, -43200), ("1970-01-01T14:00:00+14:00", 1970, 1, 1, 14, 0, 0, 0, 50400),
]
# ISO-8601 / isoformat spellings OUTSIDE the model's grammar: implementation-only oracle (known instant)
def unmodelled_spellings(rng, I, off):
    f = fields_of(I + off * 10 ** 6)
    a = abs(off)
    sg = "-" if off < 0 else "+"
    out = []
    if off % 60 == 0:
        out.append(("basic", "%04d%02d%02dT%02d%02d%02d%s%02d%02d" % (f[0], f[1], f[2], f[3], f[4], f[5], sg, a // 3600, a % 3600 // 60), I - I % 10 ** 6))
        out.append(("zone+HHMM", "%04d-%02d-%02dT%02d:%02d:%02d.%06d%s%02d%02d" % (f[0], f[1], f[2], f[3], f[4], f[5], f[6], sg, a // 3600, a % 3600 // 60), I))
    if off % 3600 == 0:
        out.append(("zone+HH", "%04d-%02d-%02dT%02d:%02d:%02d%s%02d" % (f[0], f[1], f[2], f[3], f[4], f[5], sg, a // 3600), I - I % 10 ** 6))
    if off == 0:
        out.append(("lower-t", "%04d-%02d-%02dt%02d:%02d:%02dZ" % (f[0], f[1], f[2], f[3], f[4], f[5]), I - I % 10 ** 6))
        out.append(("no-seconds", "%04d-%02d-%02dT%02d:%02dZ" % (f[0], f[1], f[2], f[3], f[4]), I - I % (60 * 10 ** 6)))
        out.append(("basicZ", "%04d%02d%02dT%02d%02d%02dZ" % (f[0], f[1], f[2], f[3], f[4], f[5]), I - I % 10 ** 6))
    return out


# ---------------------------------------------------------------------------------------------
# comparison of one conversion case (also used by replay)
# ---------------------------------------------------------------------------------------------

def cmp_utc(ctx, desc_in, imp, mod, exp, path="", modelled=True):
    """recursive: imp = encoded implementation value, mod = parsed model value, exp = expectation.
    Reports through ctx; returns number of problems."""
    bad = 0
    kind = exp[0]
    if kind == "seq":
        if not (isinstance(imp, dict) and "seq" in imp):
            ctx.oracle_fail("to_datetime_utc%s: a sequence input did not give a list (%r)" % (path, imp), desc_in)
            return 1
        if len(imp["seq"]) != len(exp[1]):
            ctx.oracle_fail("to_datetime_utc%s: %d outputs for %d inputs" % (path, len(imp["seq"]), len(exp[1])), desc_in)
            return 1
        if modelled and (not isinstance(mod, list) or len(mod) != len(exp[1])):
            ctx.disagree("model result shape differs at %s" % path, desc_in)
            return 1
        for j, e in enumerate(exp[1]):
            bad += cmp_utc(ctx, desc_in, imp["seq"][j], mod[j] if modelled else None, e, "%s[%d]" % (path, j), modelled)
        return bad
    if kind == "none":
        if imp is not None:
            ctx.oracle_fail("to_datetime_utc%s: None did not map to None (%r)" % (path, imp), desc_in)
            bad += 1
        if modelled and mod is not None:
            ctx.disagree("model: None did not map to None at %s" % path, desc_in)
            bad += 1
        return bad
    E = exp[1]
    tol = exp[2] if len(exp) > 2 else 0          # lenient categories: |got - E| <= tol, model difference tallied
    got, prob = impl_instant(imp)
    if prob:
        ctx.oracle_fail("to_datetime_utc%s: %s; expected the UTC instant %s" % (path, prob, fields_of(E)), desc_in)
        return 1
    if tol:
        if abs(got - E) > tol:
            ctx.oracle_fail("to_datetime_utc%s returned %s, more than %d us away from the instant %s the input denotes"
                            % (path, imp["f"], tol, fields_of(E)), desc_in)
            return 1
        if modelled and isinstance(mod, dict) and mod["inst"] != got:
            ctx.tally("lenient: implementation differs from the model inside the tolerance")
        return 0
    if got != E:
        ctx.oracle_fail("to_datetime_utc%s returned %s (instant %d us) but the input denotes %s (instant %d us): off by %d us"
                        % (path, imp["f"], got, fields_of(E), E, got - E), desc_in)
        bad += 1
    if modelled:
        if not isinstance(mod, dict):
            ctx.disagree("model result at %s is %r, implementation returned %s" % (path, mod, imp["f"]), desc_in)
            return bad + 1
        if mod["inst"] != got or mod["f"] != imp["f"] or mod["off"] != 0:
            ctx.disagree("model %r != implementation %r at %s" % (mod, imp, path), desc_in, is_property_failure=(got != E))
            bad += 1
    return bad


def floor_s(E):
    return (E // 10 ** 6) * 10 ** 6


def flat_expect(exp):
    """to_datetime64 of a sequence works only for flat sequences of instants"""
    if exp[0] == "inst":
        return exp[1]
    if exp[0] == "seq" and all(e[0] == "inst" for e in exp[1]):
        return [e[1] for e in exp[1]]
    return "err"


def run_conversions(ctx, cases, loc):
    """cases: list of dict(op, r, exp, tags[, modelled]) -> runs impl + model and compares"""
    payload = [{"op": c["op"], "r": c["r"]} for c in cases]
    mlines = []
    for c in cases:
        mop = {"utc": "utc", "to64": "to64", "iso": "iso", "iso_rt": "iso", "dt64_rt": "to64"}[c["op"]]
        c["modelled"] = c.get("modelled", True) and float_modelled(c["r"])
        mlines.append("%s %d %s" % (mop, loc, model_repr(c["r"])) if c["modelled"] else "days 0")
    res = ctx.impl("C17.py", {"cases": payload})
    imps = res["results"]
    mods = ctx.model(mlines)
    for c, im, mo in zip(cases, imps, mods):
        check_case(ctx, c, im, mo)
    return res


def check_case(ctx, c, im, mo):
    op, exp = c["op"], c["exp"]
    desc_in = {"op": op, "repr": c["r"], "expected": exp, "TZ": "VRF+03:30", "model_reply": " ".join(mo)[:400],
               "impl_reply": im}
    modelled = c["modelled"]
    for t in c["tags"]:
        ctx.tally(t)
    ctx.tally("op:" + op)
    if not modelled:
        ctx.tally("impl-only(float fraction > 39 bits or unmodelled spelling)")
    nontriv = any(t in ("off!=0", "fraction", "fraction-special", "boundary", "month-end") or t.startswith("seq:") for t in c["tags"])
    ctx.count([op, c["r"]], nontriv)
    err = isinstance(im, dict) and "error" in im
    if exp[0] == "err":
        # malformed input: both sides must reject (the property does not speak about these)
        # The property is silent here, so a difference is recorded in the evidence, never an alarm.
        merr = mo[0] == "err"
        if err != merr:
            ctx.tally("malformed: implementation %s, model %s" % ("raises" if err else "accepts", "rejects" if merr else "accepts"))
            ctx.notes.append("malformed string %r: implementation %s, model %s" % (c["r"].get("s"), "raises" if err else "accepts", "rejects" if merr else "accepts"))
        return
    if err:
        ctx.oracle_fail("%s raised %s: %s" % (op, im["error"], im.get("msg")), desc_in)
        return
    if op == "utc":
        mod = parse_res(Reader(mo)) if modelled else None
        cmp_utc(ctx, desc_in, im["v"], mod, exp, "", modelled)
        return
    if op in ("to64", "dt64_rt"):
        want = flat_expect(exp)
        v = im["v64"] if op == "dt64_rt" else im["v"]
        mod = parse_r64(Reader(mo)) if modelled else None
        if exp[0] == "none":
            if v is not None:
                ctx.oracle_fail("to_datetime64(None) = %r" % (v,), desc_in)
            return
        if want == "err":
            return    # nested / None inside: implementation raises (handled by `err` above) or anything
        if isinstance(want, list):
            got = v.get("arr") if isinstance(v, dict) else None
            wns = [floor_s(E) * 1000 for E in want]
            if got != wns or (want and v.get("dtype") != "datetime64[ns]"):
                ctx.oracle_fail("to_datetime64: got %r (%s), whole seconds of the inputs are %r" % (got, v, wns), desc_in)
            if modelled and mod != wns and mod != "err":
                ctx.disagree("model to_datetime64 %r != expected %r" % (mod, wns), desc_in)
            if modelled and got is not None and mod != got:
                ctx.disagree("model to_datetime64 %r != implementation %r" % (mod, got), desc_in, is_property_failure=(got != wns))
            if op == "dt64_rt":
                back = im["v"]
                if not (isinstance(back, dict) and "seq" in back and len(back["seq"]) == len(want)):
                    ctx.oracle_fail("to_datetime_utc(to_datetime64(seq)) has the wrong shape: %r" % (back,), desc_in)
                else:
                    for j, E in enumerate(want):
                        g, prob = impl_instant(back["seq"][j])
                        if prob or g != floor_s(E):
                            ctx.oracle_fail("datetime64 round trip [%d]: %s, expected %s" % (j, prob or back["seq"][j]["f"], fields_of(floor_s(E))), desc_in)
            return
        wns = floor_s(want) * 1000
        got = v.get("ns") if isinstance(v, dict) else None
        if got != wns or v.get("dtype") != "datetime64[ns]":
            ctx.oracle_fail("to_datetime64 = %r, the whole second of the input is %d ns (%s)" % (v, wns, fields_of(floor_s(want))), desc_in)
        if modelled and mod != got and got is not None:
            ctx.disagree("model to_datetime64 %r != implementation %r" % (mod, got), desc_in, is_property_failure=(got != wns))
        if op == "dt64_rt":
            g, prob = impl_instant(im["v"])
            if prob or g != floor_s(want):
                ctx.oracle_fail("datetime64 round trip: %s, expected %s" % (prob or im["v"]["f"], fields_of(floor_s(want))), desc_in)
        return
    if op in ("iso", "iso_rt"):
        s = im["s"] if op == "iso_rt" else im["v"]
        if exp[0] == "none":
            if s is not None:
                ctx.oracle_fail("datetime_to_iso_time_string(None) = %r" % (s,), desc_in)
            return
        E = exp[1]
        f = fields_of(E)
        want = "%04d-%02d-%02dT%02d:%02d:%02d.%06dZ" % tuple(f)
        if s != want:
            ctx.oracle_fail("datetime_to_iso_time_string = %r, the instant is %r" % (s, want), desc_in)
        if modelled:
            ms = "".join(chr(int(x)) for x in mo[2:]) if mo[0] == "str" else mo[0]
            if ms != s:
                ctx.disagree("model ISO string %r != implementation %r" % (ms, s), desc_in, is_property_failure=(s != want))
        if op == "iso_rt":
            g, prob = impl_instant(im["v"])
            if prob or g != E:
                ctx.oracle_fail("ISO round trip: parse(format(x)) = %s, original instant %s" % (prob or im["v"]["f"], f), desc_in)


# ---------------------------------------------------------------------------------------------
# packed integers: exhaustive
# ---------------------------------------------------------------------------------------------

def valid_time_meaning(t):
    """the time of day the packed integer t denotes (form decided by its magnitude), or None"""
    if t >= 10000:
        h, m, s = t // 10000, (t // 100) % 100, t % 100
    elif t >= 100:
        h, m, s = t // 100, t % 100, 0
    else:
        h, m, s = t, 0, 0
    if h < 24 and m < 60 and s < 60:
        return h, m, s
    return None


def run_packed(ctx):
    # ---- times: every integer 0..235959
    N = 236000
    cases = [{"op": "timeints", "lo": 0, "hi": N}]
    # ---- dates
    dates = []      # (value, expected (y,m,d) or None, tag)
    d = datetime(1970, 1, 1)
    end = datetime(2101, 1, 1)
    while d < end:
        dates.append((d.year * 10000 + d.month * 100 + d.day, (d.year, d.month, d.day), "yyyymmdd"))
        if 2000 <= d.year <= 2099:
            dates.append(((d.year - 2000) * 10000 + d.month * 100 + d.day, (d.year, d.month, d.day), "yymmdd"))
        d += timedelta(days=1)
    import calendar
    for y in range(1970, 2101):
        for m in range(0, 14):
            dim = calendar.monthrange(y, m)[1] if 1 <= m <= 12 else 31
            for day in ([0, dim + 1, 32, 99] if 1 <= m <= 12 else [1, 15]):
                dates.append((y * 10000 + m * 100 + day, None, "invalid-yyyymmdd"))
                if 2000 <= y <= 2099:
                    dates.append(((y - 2000) * 10000 + m * 100 + day, None, "invalid-yymmdd"))
    cases.append({"op": "dateints", "vals": [v for v, _, _ in dates]})
    # ---- date + time
    rng = ctx.rng
    pairs = []
    valid_days = [x for x in dates if x[1] is not None]
    for _ in range(ctx.n(3000, 60000)):
        dv, ymd, tg = rng.choice(valid_days)
        r = rng.random()
        if r < 0.4:
            t = rng.choice([0, 1, 23, 100, 101, 159, 2359, 10000, 10001, 10100, 235959, 235900, 230000, 120000, 1200, 12, 959, 1000, 9999 // 100 * 100 + 59])
        else:
            h, m, s = rng.randint(0, 23), rng.randint(0, 59), rng.randint(0, 59)
            t = rng.choice([h, h * 100 + m, h * 10000 + m * 100 + s])
        pairs.append((dv, t, ymd))
    cases.append({"op": "packed", "pairs": [[a, b] for a, b, _ in pairs], "as64": False})
    cases.append({"op": "packed", "pairs": [[a, b] for a, b, _ in pairs[:len(pairs) // 4]], "as64": True})
    res = ctx.impl("C17.py", {"cases": cases})["results"]
    for r_ in res:
        if isinstance(r_, dict) and "error" in r_:
            ctx.oracle_fail("packed integer runner failed: %r" % (r_,), {"op": "packed"})
            return
    mlines = ["timeint %d" % t for t in range(N)] + ["dateint %d" % v for v, _, _ in dates] + \
             ["packed %d %d" % (a, b) for a, b, _ in pairs]
    mods = ctx.model(mlines)
    # times
    nbad = 0
    for t in range(N):
        im = res[0][t]
        mo = int(mods[t][0]) * 10 ** 6
        mean = valid_time_meaning(t)
        ctx.count("timeint-%d" % t, mean is not None)
        rep = {"op": "time_from_timeint", "t": t, "impl_microseconds": im, "model_microseconds": mo,
               "valid_meaning_hms": mean}
        if mean is not None:
            ctx.tally("timeint-valid:" + ("hhmmss" if t >= 10000 else "hhmm" if t >= 100 else "hh"))
            want = (mean[0] * 3600 + mean[1] * 60 + mean[2]) * 10 ** 6
            if im != want and nbad < 20:
                nbad += 1
                ctx.oracle_fail("time_from_timeint(%d) = %r us, but %d denotes %02d:%02d:%02d = %d us" % (t, im, t, mean[0], mean[1], mean[2], want), rep)
        else:
            ctx.tally("timeint-invalid-fields")
        if im != mo:
            if mean is None:
                # not a valid packed time: the property is silent, recorded only
                ctx.tally("timeint-invalid-fields: implementation differs from the model's decoder")
            elif nbad < 20:
                nbad += 1
                ctx.disagree("time_from_timeint(%d): implementation %r us, model %r us" % (t, im, mo), rep,
                             is_property_failure=False)
    # dates
    k0 = N
    nbad = 0
    for j, (v, ymd, tg) in enumerate(dates):
        im = res[1][j]
        mo = [int(x) for x in mods[k0 + j]]
        ctx.count("dateint-%d" % v, ymd is not None)
        ctx.tally("dateint-" + tg)
        rep = {"op": "date_from_dateint", "t": v, "impl": im, "model_ymd": mo, "denotes": ymd}
        if ymd is not None:
            if isinstance(im, str):
                if nbad < 20:
                    nbad += 1
                    ctx.oracle_fail("date_from_dateint(%d) raised %s; it denotes %04d-%02d-%02d" % ((v, im) + ymd), rep)
                continue
            g, prob = impl_instant(im)
            want = instant_of(list(ymd) + [0, 0, 0, 0])
            if (prob or g != want) and nbad < 20:
                nbad += 1
                ctx.oracle_fail("date_from_dateint(%d) = %s; it denotes %04d-%02d-%02dT00:00:00 UTC" % ((v, prob or im["f"]) + ymd), rep)
            if tuple(mo) != ymd and nbad < 20:
                nbad += 1
                ctx.disagree("model date_from_dateint(%d) = %r, expected %r" % (v, mo, ymd), rep)
            if not prob and im["f"][:3] != mo and nbad < 20:
                nbad += 1
                ctx.disagree("date_from_dateint(%d): implementation %r, model %r" % (v, im["f"][:3], mo), rep)
        else:
            # invalid calendar date: datetime() must raise (model: fields out of range)
            ctx.tally("dateint-invalid: implementation %s" % ("raises" if isinstance(im, str) else "accepts"))
    # date + time
    k1 = k0 + len(dates)
    nbad = 0
    for j, (dv, t, ymd) in enumerate(pairs):
        im = res[2][j]
        mo = mods[k1 + j]
        mean = valid_time_meaning(t)
        ctx.count("packed-%d-%d" % (dv, t), mean is not None)
        ctx.tally("packed-datetime")
        rep = {"op": "datetime_from_time_and_date_integers", "date_int": dv, "time_int": t, "impl": im,
               "model": " ".join(mo), "denotes": [ymd, mean]}
        if isinstance(im, str):
            if mean is not None and nbad < 20:
                nbad += 1
                ctx.oracle_fail("datetime_from_time_and_date_integers(%d, %d) raised %s" % (dv, t, im), rep)
            continue
        g, prob = impl_instant(im)
        if mean is not None:
            want = instant_of(list(ymd) + list(mean) + [0])
            if (prob or g != want) and nbad < 20:
                nbad += 1
                ctx.oracle_fail("datetime_from_time_and_date_integers(%d, %d) = %s; expected %s UTC" % (dv, t, prob or im["f"], fields_of(want)), rep)
        mg = int(mo[1]) if mo[0] == "S" else None
        if not prob and mg != g and mean is not None and nbad < 20:
            nbad += 1
            ctx.disagree("datetime_from_time_and_date_integers(%d, %d): implementation instant %r, model %r" % (dv, t, g, mg), rep)
        if j < len(res[3]):
            v64 = res[3][j]
            ok = isinstance(v64, dict) and v64.get("dtype") == "datetime64[ns]" and not prob and v64.get("ns") == g * 1000
            if not ok and mean is not None and nbad < 20:
                nbad += 1
                ctx.oracle_fail("datetime_from_time_and_date_integers(%d, %d, as_datetime64=True) = %r; expected %d ns" % (dv, t, v64, (g or 0) * 1000), rep)
    ctx.sample({"packed": {"time_from_timeint(201813) us": res[0][201813], "model s": mods[201813][0],
                           "date_from_dateint(%d)" % dates[0][0]: res[1][0]}})


# ---------------------------------------------------------------------------------------------
# run
# ---------------------------------------------------------------------------------------------

def fmt_crosscheck(ctx):
    """the formatter of the model used in the string theorems equals Python's own isoformat()/strftime"""
    rng = ctx.rng
    lines, wants = [], []
    for _ in range(ctx.n(300, 5000)):
        I, _t = gen_instant(rng)
        off = gen_offset_min(rng) * 60
        loc = I + off * 10 ** 6
        if loc < 0:
            loc += 86400 * 10 ** 6
        f = fields_of(loc)
        zone = rng.choice(["zn", "zz", "zo"])
        frac = f[6] != 0
        d = datetime(*f)
        if zone == "zn":
            want = d.isoformat(); z = "zn"
        elif zone == "zz":
            want = d.isoformat() + "Z"; z = "zz"
        else:
            want = d.replace(tzinfo=timezone(timedelta(seconds=off))).isoformat()
            z = "zo %s %d %d" % ("T" if off < 0 else "F", abs(off) // 3600, abs(off) % 3600 // 60)
        lines.append("fmt 84 %s %s %s" % ("T" if frac else "F", toks_fields(f), z))
        wants.append(want)
    for ln, want, mo in zip(lines, wants, ctx.model(lines)):
        got = "".join(chr(int(x)) for x in mo[2:])
        ctx.count(["fmt", ln], True)
        ctx.tally("fmt-crosscheck")
        if got != want:
            ctx.disagree("model fmt_iso_gen %r != Python isoformat %r" % (got, want), {"op": "fmt", "line": ln})


def run(ctx):
    rng = ctx.rng
    loc = -12600          # TZ=VRF+03:30 is UTC-03:30
    run_packed(ctx)
    cases = []
    nsc = ctx.n(8000, 200000)
    for i in range(nsc):
        r, e, tags = gen_scalar(rng)
        q = rng.random()
        op = "utc" if q < 0.55 else ("dt64_rt" if q < 0.70 else ("iso_rt" if q < 0.9 else ("to64" if q < 0.95 else "iso")))
        cases.append({"op": op, "r": r, "exp": e, "tags": tags})
    for i in range(ctx.n(2000, 40000)):
        r, e, tags = gen_seq(rng)
        q = rng.random()
        op = "utc" if q < 0.7 else "dt64_rt"
        if op == "dt64_rt" and flat_expect(e) == "err":
            op = "utc"
        cases.append({"op": op, "r": r, "exp": e, "tags": tags})
    # None
    for op in ("utc", "to64", "iso"):
        cases.append({"op": op, "r": {"k": "none"}, "exp": ("none",), "tags": ["none"]})
    # malformed / well-formed neighbours
    for s in MALFORMED:
        cases.append({"op": "utc", "r": {"k": "str", "s": s, "np": False}, "exp": ("err",), "tags": ["malformed"]})
    for w in WELLFORMED:
        E = instant_of(list(w[1:8])) - w[8] * 10 ** 6
        cases.append({"op": "utc", "r": {"k": "str", "s": w[0], "np": False}, "exp": ("inst", E), "tags": ["wellformed-neighbour", "boundary"]})
    # datetime64 with sub-second parts: floored by the code (see ASSUMPTIONS); model comparison only
    for i in range(ctx.n(60, 1500)):
        I, _t = gen_instant(rng)
        unit = rng.choice(["ns", "us", "ms"])
        cnt = I * 1000 // UNIT_NS[unit]
        if unit == "ns":
            cnt += rng.randint(0, 999)
        cases.append({"op": "utc", "r": {"k": "dt64", "count": cnt, "unit": unit}, "exp": ("inst", floor_s(I), 999999),
                      "tags": ["dt64-subsecond(floored by the code, DESIGN 7)"]})
    # spellings outside the model's grammar: implementation-only
    for i in range(ctx.n(80, 2000)):
        I, _t = gen_instant(rng)
        off = gen_offset_min(rng) * 60
        if I + off * 10 ** 6 < 0:
            I += 86400 * 10 ** 6
        for tag, s, E in unmodelled_spellings(rng, I, off):
            cases.append({"op": "utc", "r": {"k": "str", "s": s, "np": False}, "exp": ("inst", E),
                          "tags": ["spelling:" + tag], "modelled": False})
    res = run_conversions(ctx, cases, loc)
    if res.get("tz", [None, None])[1] != 12600:
        raise C.Infra("the implementation did not run under TZ=VRF+03:30: %r" % (res.get("tz"),))
    ctx.sample({"conversion": {"repr": cases[0]["r"], "expected_instant_us": cases[0]["exp"]}})
    fmt_crosscheck(ctx)
    ctx.extra["tz_of_implementation_process"] = res.get("tz")


def replay(ctx, obj):
    inp = obj.get("input", {})
    if "repr" in inp:
        exp = inp["expected"]
        c = {"op": inp["op"], "r": inp["repr"], "exp": exp, "tags": ["replay"]}
        run_conversions(ctx, [c], -12600)
    else:
        run_packed(ctx)
    for v in ctx.violations:
        print("REPLAY:", v["desc"][:300])
    if not ctx.violations:
        print("REPLAY: no violation on this input")


READY = True
LEVEL_TEXT = ("Theorems (Coq, over Z and lists, no axioms): days_from_civil / civil_from_days are mutually inverse on ALL day numbers "
              "and ALL valid proleptic-Gregorian dates (two 400-year era tables decided by vm_compute, lifted to every era by "
              "arithmetic; 1970-01-01..2100-12-31 are day numbers 0..47846); calendar fields <-> microsecond instant round trip; "
              "to_datetime_utc returns a valid, aware, UTC datetime denoting the same instant for every scalar representation "
              "(aware datetime with ANY offset, naive datetime read as UTC with its fields kept, ISO-8601 strings parsed character "
              "by character with separator T/space, with/without fraction, zone none/Z/+-HH:MM, int and float epoch seconds "
              "(nearest microsecond), datetime64 to whole seconds), for sequences of any nesting/mixture by induction, None -> None, "
              "independently of the process time zone; to_datetime64 then back gives the instant floored to the second; "
              "datetime_to_iso_time_string then parsing gives back the instant to the microsecond; the packed-integer decoders "
              "time_from_timeint / date_from_dateint / datetime_from_time_and_date_integers -- TRANSLATED FROM THE CURRENT PYTHON "
              "SOURCE ON EVERY RUN by a fail-closed translator -- decode every valid hh / hhmm / hhmmss time and yyyymmdd "
              "(years 100..9999) / yymmdd (2000+yy) date to its calendar fields, and the combined call gives that UTC datetime. "
              "The hand model is tied to tools/time.py by running both on generated instants x offsets x representations x "
              "containers under TZ=VRF+03:30 and, for the packed integers, on every integer 0..235959 and every day 1970..2100.")
LEVEL_NOTE = ("Valid packed times are hh in 0..23 and hhmm / hhmmss with a NON-ZERO hour: theorem packed_time_forms_overlap proves "
              "that no decoder of the bare integer can serve all three packings (1 is 01:00:00 as hh and 00:00:01 as hhmmss), so "
              "00:mm[:ss] written as hhmm/hhmmss is necessarily read as a shorter form (e.g. 30 -> 30 h); recorded as a limitation "
              "of the representation, not as a defect. datetime64 inputs are floored to whole seconds by the code "
              "(np.datetime64(x,'s')) although its comment promises fractional seconds; DESIGN section 7 reads the property as "
              "whole-second datetime64, so sub-second datetime64 inputs (also pandas Series / DataArrays of datetimes with "
              "microseconds, which numpy turns into datetime64) are compared with the model's floor and only required to stay "
              "within one second. Modelled but validated only by execution: CPython datetime arithmetic, fromisoformat, strftime, "
              "fromtimestamp rounding (half-even on the float), numpy datetime64 casts, the float rounding inside "
              "datetime.timestamp(), container unwrapping (.values). Not modelled: the strptime fallback (unreachable for ISO "
              "strings on Python >= 3.11), ISO spellings outside the model's grammar (basic format, +HHMM, +HH, lower-case t, "
              "no seconds) -- those are checked against the encoded instant on the implementation only. If the translator meets "
              "a construct outside its grammar the run reports the proof as broken (fail-closed) even when the new code is "
              "equivalent; the exhaustive packed-integer search still runs and names a failing input when there is one. "
              "datetime_to_iso_time_string accepts scalars only (a list has no strftime): outside the property's clause.")
TRUSTED = ["harness/translate_timeint.py (Python ast -> Gallina over Z, ~200 lines): // and % by a positive literal are Z.div / Z.modulo; "
           "an `if` duplicates the rest of the block into both branches; re-assignment is a shadowing let"]
TECHNIQUE = "Coq proof over Z (lia + vm_compute era tables) about a hand model and a source-translated model + exhaustive / generated correspondence under a non-UTC TZ"
DESIGN_REF = "DESIGN.md section 5 C17, section 2.5"
