import os
import common as C
import translate_timeint as TT

def pregen(ctx):
    text = TT.translate_repo(C.REPO)
    TT.write_if_changed(os.path.join(C.VERIF, TT.OUT_REL), text)

def run(ctx):
    pass
