"""C05 directional estimators: valid distributions, energy round trip, batch independence, metadata.

Also holds the generators shared with C06 (moments of von-Mises mixtures, noisy / unrealisable
quadruples, grids, batch layouts)."""
import math

import common as C

try:                                    # the harness runs under /venv python (scipy present)
    from scipy.special import ive as _ive
except Exception:                       # pragma: no cover
    _ive = None

RULE = ("one evaluation = one (estimator variant, direction grid, moment quadruple) entry or one function-level "
        "call (MEM closed form, MEM2 distribution, direction increments) or one spectrum object round trip; "
        "non-trivial = finite moments that are not all zero with a1^2+b1^2 < 1; distinct by (variant, N, moments) hash")
ASSUMPTIONS = [
    "floating point rounding is not modelled: MEM is compared at 1e-8 relative to the peak (1e-5 when the model's "
    "conditioning estimate exceeds 1e9), MEM2-approximate and the MEM2 distribution at 1e-9..1e-10, Newton at 1e-7 when every "
    "branch of the modelled iteration has a relative margin > 1e-6 (otherwise a branch is decided within rounding and only "
    "the validity oracles apply; such entries are counted in evidence)",
    "scipy.optimize.root(method='lm') and np.linalg.lstsq (SVD) are not modelled; on their outputs only the "
    "consequence of theorem mem2_dist_valid (non-negative, unit integral) is checked by execution",
    "'returned without raising' is a statement about numba's runtime; it is decided by execution only",
]

HARD = [[0.557185, -0.795699, -0.305963, -0.884653],
        [-0.564027, -0.505376, -0.231672, 0.471163],
        [-0.533724, 0.751711, -0.27957, -0.808407],
        [0.458456, -0.848485, -0.515151, -0.753666],
        [0.458456 + 0.06, -0.848485, -0.515151, -0.753666]]

NS_ALL = [8, 9, 10, 12, 15, 16, 18, 20, 24, 30, 32, 36, 40, 45, 48, 60, 64, 72, 90, 100, 120, 128, 144, 150, 180]


# ---------------------------------------------------------------------------------------
# generators
# ---------------------------------------------------------------------------------------
def bessel_ratios(kappa):
    """I1/I0 and I2/I0 of the von Mises distribution"""
    if _ive is not None:
        i0 = _ive(0, kappa)
        return float(_ive(1, kappa) / i0), float(_ive(2, kappa) / i0)
    # fallback: direct quadrature
    n = 20000
    s0 = s1 = s2 = 0.0
    for i in range(n):
        t = 2 * math.pi * i / n
        w = math.exp(kappa * (math.cos(t) - 1))
        s0 += w; s1 += w * math.cos(t); s2 += w * math.cos(2 * t)
    return s1 / s0, s2 / s0


def vm_moments(mu, sigma_deg):
    kappa = 1.0 / math.radians(sigma_deg) ** 2
    r1, r2 = bessel_ratios(kappa)
    return [r1 * math.cos(mu), r1 * math.sin(mu), r2 * math.cos(2 * mu), r2 * math.sin(2 * mu)]


def mix(ws, ms):
    return [sum(w * m[i] for w, m in zip(ws, ms)) for i in range(4)]


def circ_spread_deg(m):
    """circular spread sqrt(2(1-r1)) in degrees"""
    r = math.hypot(m[0], m[1])
    return math.degrees(math.sqrt(max(0.0, 2 * (1 - r))))


def gen_moments(rng, kind=None, min_sigma=2.0):
    """-> (kind, [a1,b1,a2,b2]); always finite with a1^2+b1^2 < 1"""
    kind = kind or rng.choice(["iso", "uni", "uni", "bi", "bi", "narrow", "noisy", "noisy", "random", "edge_r"])
    lobe_sigma = lambda: 10 ** rng.uniform(math.log10(min_sigma), math.log10(80))
    w0 = rng.choice([0.0, 0.0, rng.uniform(0, 0.5)])
    if kind == "iso":
        m = [rng.choice([0.0, rng.uniform(-1e-3, 1e-3)]) for _ in range(4)]
    elif kind == "uni":
        m = mix([1 - w0], [vm_moments(rng.uniform(0, 2 * math.pi), lobe_sigma())])
    elif kind == "bi":
        w = rng.uniform(0.2, 0.8)
        m = mix([(1 - w0) * w, (1 - w0) * (1 - w)],
                [vm_moments(rng.uniform(0, 2 * math.pi), lobe_sigma()) for _ in range(2)])
    elif kind == "narrow":
        m = vm_moments(rng.uniform(0, 2 * math.pi), rng.uniform(min_sigma, 5))
    elif kind == "noisy":
        m = mix([1 - w0], [vm_moments(rng.uniform(0, 2 * math.pi), lobe_sigma())])
        s = rng.choice([0.01, 0.05, 0.1])
        m = [v + rng.gauss(0, s) for v in m]
    elif kind == "random":
        r = math.sqrt(rng.random()) * 0.98
        a = rng.uniform(0, 2 * math.pi)
        m = [r * math.cos(a), r * math.sin(a), rng.uniform(-1, 1), rng.uniform(-1, 1)]
    elif kind == "edge_r":
        r = 1 - 10 ** rng.uniform(-6, -2)
        a = rng.uniform(0, 2 * math.pi)
        r2 = rng.uniform(0, 1)
        b = 2 * a + rng.gauss(0, 0.05)
        m = [r * math.cos(a), r * math.sin(a), r2 * math.cos(b), r2 * math.sin(b)]
    else:
        raise ValueError(kind)
    while m[0] ** 2 + m[1] ** 2 >= 0.999999:
        m = [v * 0.95 for v in m]
    m = [max(-1.5, min(1.5, v)) for v in m]
    return kind, [float(v) for v in m]


def grid_deg(n, offset=0.0):
    """np.linspace(0, 360, n, endpoint=False) (+ offset) exactly as numpy computes it"""
    step = 360.0 / n
    return [i * step + offset for i in range(n)]


def to_rad(dirs):
    j = math.pi / 180
    return [d * j for d in dirs]


def rot_moments(m, alpha):
    c, s, c2, s2 = math.cos(alpha), math.sin(alpha), math.cos(2 * alpha), math.sin(2 * alpha)
    return [m[0] * c - m[1] * s, m[0] * s + m[1] * c, m[2] * c2 - m[3] * s2, m[2] * s2 + m[3] * c2]


def mirror_moments(m):
    return [m[0], -m[1], m[2], -m[3]]


def moments_of(D, dirs_deg, step):
    th = to_rad(dirs_deg)
    return [sum(math.cos(t) * v for t, v in zip(th, D)) * step, sum(math.sin(t) * v for t, v in zip(th, D)) * step,
            sum(math.cos(2 * t) * v for t, v in zip(th, D)) * step,
            sum(math.sin(2 * t) * v for t, v in zip(th, D)) * step]


def norm(v):
    return math.sqrt(sum(x * x for x in v))


def fl(xs):
    return [C.fx(v) for v in xs]


def unfl(xs):
    return [C.unfx(v) for v in xs]


VARIANTS = [("mem", None, "mem"), ("mem2", "newton", "newton"), ("mem2", "scipy", None), ("mem2", "approximate", "approx")]


def validity(D, n, tol=1e-9):
    """the property's statement for one returned row (units 1/degree): finite, >= 0, integral 1"""
    if any(math.isnan(v) or math.isinf(v) for v in D):
        return "non-finite value in the distribution"
    mn = min(D)
    if mn < 0:
        return "negative value %r" % mn
    integ = sum(D) * 360.0 / n
    if abs(integ - 1) > tol:
        return "integral over the circle is %r" % integ
    return None


# ---------------------------------------------------------------------------------------
ctx_case_layout = {}


def run(ctx):
    rng = ctx.rng
    cases = []      # implementation cases
    mlines = []     # model request lines
    post = []       # (kind, data...) closures evaluated after both runs

    def add(case, lines):
        i = len(cases); cases.append(case)
        j = len(mlines); mlines.extend(lines)
        if case.get("op") == "est":
            ctx_case_layout[i] = case.get("layout")
        return i, j

    ctx_case_layout.clear()
    # ---------------- 1. direction increments -------------------------------------------
    for q in range(ctx.n(40, 1000)):
        n = rng.choice(NS_ALL + [rng.randint(8, 180)])
        kindg = rng.choice(["linspace", "linspace", "offset", "nonuniform"])
        if kindg == "linspace":
            dirs = grid_deg(n)
        elif kindg == "offset":
            dirs = grid_deg(n, C.dyadic(rng, -180, 180, 10))
        else:
            cuts = sorted(rng.uniform(0, 360) for _ in range(n))
            dirs = cuts
            gaps = [(b - a) for a, b in zip(cuts, cuts[1:] + [cuts[0] + 360])]
            # the midpoint rule with wrapped differences needs every cyclic gap < 180 degrees (DESIGN section 7)
            if min(gaps) < 1e-3 or max(gaps) > 170:
                dirs = grid_deg(n)
                kindg = "linspace"
        th = to_rad(dirs)
        i, j = add({"op": "incru", "th": fl(th)}, ["incru " + C.flist(th), "incrn " + C.flist(th)])
        post.append(("incr", i, j, kindg, n, th))

    # ---------------- 2. MEM closed form -------------------------------------------------
    for q in range(ctx.n(400, 10000)):
        n = rng.choice(NS_ALL + [rng.randint(8, 180)])
        off = rng.choice([0.0, 0.0, C.dyadic(rng, -180, 180, 10)])
        th = to_rad(grid_deg(n, off))
        if q < 5:
            kind, m = "hard", HARD[q]
        else:
            kind, m = gen_moments(rng)
        i, j = add({"op": "mem", "th": fl(th), "m": fl(m)}, ["mem %s %s" % (C.flist(th), " ".join(fl(m)))])
        post.append(("mem", i, j, kind, n, th, m))

    # ---------------- 3. MEM2 distribution for arbitrary multipliers ---------------------
    for q in range(ctx.n(400, 10000)):
        n = rng.choice(NS_ALL + [rng.randint(8, 180)])
        th = to_rad(grid_deg(n, rng.choice([0.0, C.dyadic(rng, -180, 180, 10)])))
        mag = 10 ** rng.uniform(-3, rng.choice([1, 2, 3, 4]))
        lam = [C.dyadic(rng, -mag, mag, 20) for _ in range(4)]
        if rng.random() < 0.1:
            lam[rng.randrange(4)] = 0.0
        if rng.random() < 0.7:
            d = [2 * math.pi / n] * n
            dk = "uniform"
        else:
            d = [C.dyadic(rng, 0.01, 0.2, 12) for _ in range(n)]
            dk = "random-positive"
        i, j = add({"op": "dist", "l": fl(lam), "d": fl(d), "th": fl(th)},
                   ["dist %s %s %s" % (" ".join(fl(lam)), C.flist(d), C.flist(th))])
        post.append(("dist", i, j, dk, n, th, lam, d))

    # ---------------- 4. estimate_directional_distribution on batches --------------------
    nb = ctx.n(60, 2500)
    for q in range(nb):
        n = rng.choice(NS_ALL + [rng.randint(8, 180)])
        dirs = grid_deg(n)
        shape = rng.choice([(rng.randint(1, 6),), (rng.randint(1, 4), rng.randint(1, 5)),
                            (rng.randint(1, 3), rng.randint(1, 3), rng.randint(1, 4)), (1,), (1, 1), (2, 1, 1)])
        npt = 1
        for s in shape:
            npt *= s
        if npt > 24:
            shape = (shape[-1],); npt = shape[0]
        entries = []
        for e in range(npt):
            if q == 0 and e < 5:
                entries.append(("hard", HARD[e]))
            elif rng.random() < 0.04:
                m = gen_moments(rng)[1]
                m[rng.randrange(4)] = float("nan")
                entries.append(("nan", m))
            elif e > 0 and entries[-1][0] not in ("hard", "nan") and rng.random() < 0.15 \
                    and math.hypot(entries[-1][1][0], entries[-1][1][1]) < 0.9 and math.hypot(entries[-1][1][2], entries[-1][1][3]) < 0.9:
                # (only well inside the unit disc: a shift of 0.004 must not push a moment pair out of it)
                # a near twin of the previous member of the batch (a slowly turning swell: the same moments to two
                # decimals, different in the third): each member still gets its own distribution
                cell = [round(v, 2) for v in entries[-1][1]]
                sg = [rng.choice([-1.0, 1.0]) for _ in range(4)]
                entries[-1] = (entries[-1][0], [c_ + 0.004 * s_ for c_, s_ in zip(cell, sg)])
                entries.append(("near-twin", [c_ - 0.004 * s_ for c_, s_ in zip(cell, sg)]))
            else:
                entries.append(gen_moments(rng))
        cols = [[m[k] for _, m in entries] for k in range(4)]
        for method, sm, mv in VARIANTS:
            case = {"op": "est", "method": method, "sm": sm, "dirs": fl(dirs), "shape": list(shape),
                    "a1": fl(cols[0]), "b1": fl(cols[1]), "a2": fl(cols[2]), "b2": fl(cols[3]), "single": True,
                    "layout": gen_layout(rng, npt), "f32": q % 3 == 0}
            lines = []
            if mv is not None:
                for _, m in entries:
                    lines.append("entry %s %s %s" % (mv, C.flist(dirs), " ".join(fl(m))))
                    if mv == "newton":
                        lines.append("entryn %s %s" % (C.flist(dirs), " ".join(fl(m))))
            i, j = add(case, lines)
            post.append(("est", i, j, method, sm, mv, n, dirs, shape, entries))

    # ---------------- 5. spectrum objects: 1D -> 2D -> 1D -------------------------------
    for q in range(ctx.n(24, 500)):
        n = rng.choice([8, 12, 24, 36, 36, 72, rng.randint(8, 120)])
        lead = rng.choice([(), (rng.randint(1, 3),), (rng.randint(1, 2), rng.randint(1, 3))])
        nf = rng.randint(2, 6)
        shape = tuple(lead) + (nf,)
        npt = 1
        for s in lead:
            npt *= s
        f = [0.05 + 0.03 * k + (0.01 if (k % 2 and q % 2) else 0.0) for k in range(nf)]
        e = [C.dyadic(rng, 0.0, 5.0, 12) for _ in range(npt * nf)]
        if rng.random() < 0.3:
            e[rng.randrange(len(e))] = 0.0
        ent = [gen_moments(rng, rng.choice(["uni", "bi", "noisy", "iso", "narrow"]))[1] for _ in range(npt * nf)]
        cols = [[m[k] for m in ent] for k in range(4)]
        meta = {"time": ["2021-03-%02dT%02d:00:00" % (1 + rng.randrange(28), rng.randrange(24)) for _ in range(max(1, lead[0] if lead else 1))],
                "latitude": fl([C.dyadic(rng, -80, 80, 12) for _ in range(npt)]),
                "longitude": fl([C.dyadic(rng, -180, 180, 12) for _ in range(npt)]),
                "depth": fl([rng.choice([float("inf"), C.dyadic(rng, 5, 4000, 10)]) for _ in range(npt)])}
        meta["time"] = sorted(set(meta["time"]))
        while len(meta["time"]) < (lead[0] if lead else 1):
            meta["time"].append("2021-04-%02dT00:00:00" % (len(meta["time"]) + 1))
        method, sm, mv = rng.choice(VARIANTS)
        case = {"op": "spec", "method": method, "sm": sm, "n": n, "ntype": rng.choice(["int", "int", "int64", "int32"]),
                "shape": list(shape), "f": fl(f), "e": fl(e),
                "a1": fl(cols[0]), "b1": fl(cols[1]), "a2": fl(cols[2]), "b2": fl(cols[3]), "meta": meta}
        meta["number_of_directions_type"] = case["ntype"]
        i, j = add(case, [])
        post.append(("spec", i, j, method, sm, n, shape, f, e, ent, meta))

    impl = ctx.impl("C05.py", {"cases": cases})["results"]
    mod = ctx.model(mlines)
    evaluate(ctx, post, impl, mod)
    grid_sweep(ctx)


def grid_sweep(ctx):
    """every number of directions 8..180 (the property's whole range): the 2D spectrum has exactly N
    directions k*360/N and integrates back to e(f) - exhaustive, because the grid construction can go
    wrong for isolated N only"""
    for method, sm in (("mem", None), ("mem2", "approximate")):
        case = {"op": "gridsweep", "nmin": 8, "nmax": 180, "method": method}
        if sm:
            case["sm"] = sm
        res = ctx.impl("C05.py", {"cases": [case]})["results"][0]
        if err_of(res):
            ctx.oracle_fail("as_frequency_direction_spectrum sweep raised: %s" % res, {"case": case})
            continue
        for r in res:
            n = r.get("n") if isinstance(r, dict) else None
            ctx.count("gridsweep-%s-%s" % (method, n))
            ctx.tally("grid sweep N=8..180")
            rep = {"op": "as_frequency_direction_spectrum", "number_of_directions": n, "method": method,
                   "solution_method": sm, "result": r}
            if err_of(r):
                ctx.oracle_fail("as_frequency_direction_spectrum(%s) raised: %s" % (n, r), rep)
                continue
            d = [C.unfx(v) for v in r["direction"]]
            if len(d) != n or r["shape2d"][-1] != n:
                ctx.oracle_fail("as_frequency_direction_spectrum(%d, %s) returned %d directions" % (n, method, len(d)), rep)
                continue
            if any(abs(d[k] - k * 360.0 / n) > 1e-9 for k in range(n)):
                ctx.oracle_fail("as_frequency_direction_spectrum(%d): directions are not k*360/N" % n, rep)
                continue
            eb = [C.unfx(v) for v in r["e_back"]]
            if not (C.close(eb[0], 2.0, 1e-9) and C.close(eb[1], 3.0, 1e-9)):
                ctx.oracle_fail("as_frequency_direction_spectrum(%d, %s): integrating back gives e(f) = %s, not [2, 3]"
                                % (n, method, eb), rep)


def err_of(r):
    return isinstance(r, dict) and "error" in r


def evaluate(ctx, post, impl, mod):
    for item in post:
        kind = item[0]
        if kind == "incr":
            _, i, j, kindg, n, th = item
            ctx.count(["incr", kindg, n, th[:3]])
            ctx.tally("increments:" + kindg)
            rep = {"op": "get_direction_increment", "directions_radians": th}
            im = impl[i]
            if err_of(im):
                ctx.oracle_fail("get_direction_increment raised %s" % im, rep)
                continue
            got = unfl(im)
            mu = unfl(mod[j][1:]); mn = unfl(mod[j + 1][1:])
            for a, b, c in zip(got, mu, mn):
                if not C.close(a, b, 1e-9, 1e-12, 1.0):
                    ctx.disagree("direction increment %r differs from the midpoint rule %r" % (a, b), rep,
                                 is_property_failure=True)
                    break
                if not C.close(b, c, 1e-9, 1e-12, 1.0):
                    ctx.disagree("model: newton and utils increments differ (%r, %r)" % (b, c), rep)
                    break
            if abs(sum(got) - 2 * math.pi) > 1e-9:
                ctx.oracle_fail("direction increments do not sum to 2 pi: %r" % sum(got), rep)
            if kindg != "nonuniform" and any(abs(v - 2 * math.pi / n) > 1e-9 for v in got):
                ctx.oracle_fail("uniform grid: increment differs from 2 pi / N", rep)
        elif kind == "mem":
            _, i, j, mk, n, th, m = item
            ctx.count(["mem", n, m], any(m))
            ctx.tally("mem-fn:" + mk)
            rep = {"op": "mem._mem / mem.numba_mem", "directions_radians": th, "moments": m, "kind": mk}
            im = impl[i]
            if err_of(im):
                ctx.oracle_fail("_mem raised %s" % im, rep)
                continue
            mo = mod[j]
            for which in ("numpy", "numba"):
                r = im[which]
                if err_of(r):
                    ctx.oracle_fail("mem (%s) raised %s" % (which, r), rep)
                    continue
                D = unfl(r)
                bad = validity([v * math.pi / 180 for v in D], n)
                if bad:
                    ctx.oracle_fail("mem (%s): %s" % (which, bad), rep)
                if mo[0] == "N":
                    ctx.tally("mem-fn:model-guard")
                    continue
                k = int(mo[1])
                want = unfl(mo[2:2 + k])
                cond = C.unfx(mo[2 + k]) + C.unfx(mo[3 + k])
                # measured: |impl - model| / max(model) <= 8e-12 for cond up to 1e13 (the estimate is pessimistic)
                if math.isnan(cond) or cond > 1e13:
                    ctx.tally("mem-fn:ill-conditioned-skipped")
                    continue
                tol = 1e-8 if cond < 1e9 else 1e-5
                sc = max(abs(v) for v in want)
                badj = [q for q in range(n) if not C.close(D[q], want[q], tol, 1e-300, sc)]
                if badj:
                    q = badj[0]
                    rep2 = dict(rep, index=q, impl=D[q], model=want[q], cond=cond, which=which)
                    ctx.disagree("MEM (%s) differs from the closed form at direction %d: %r vs %r" % (which, q, D[q], want[q]),
                                 rep2, is_property_failure=True)
        elif kind == "dist":
            _, i, j, dk, n, th, lam, d = item
            ctx.count(["dist", n, lam, d[:2]])
            ctx.tally("mem2-dist:" + dk)
            rep = {"op": "mem2_directional_distribution", "lambda": lam, "direction_increment": d, "directions_radians": th}
            im = impl[i]
            if err_of(im):
                ctx.oracle_fail("mem2_directional_distribution raised %s" % im, rep)
                continue
            D = unfl(im)
            want = unfl(mod[j][1:])
            if any(math.isnan(v) or math.isinf(v) for v in D) or min(D) < 0:
                ctx.oracle_fail("mem2 distribution is not a non-negative finite array", rep)
            integ = sum(a * b for a, b in zip(D, d))
            if abs(integ - 1) > 1e-9:
                ctx.oracle_fail("mem2 distribution integrates to %r" % integ, rep)
            sc = max(want)
            lm = sum(abs(v) for v in lam)
            badj = [q for q in range(n) if not C.close(D[q], want[q], 1e-10 * (1 + lm), 1e-300, sc)]
            if badj:
                q = badj[0]
                ctx.disagree("mem2 distribution differs from exp(-lambda.T)/normalisation at %d: %r vs %r" % (q, D[q], want[q]),
                             dict(rep, index=q), is_property_failure=True)
        elif kind == "est":
            eval_est(ctx, item, impl, mod)
        elif kind == "spec":
            eval_spec(ctx, item, impl)


def gen_layout(rng, npt):
    """how the moment arrays of a batch of npt points are handed to the library: None = C-ordered array of
    the case's own shape; otherwise the same values with the leading dimensions split in three and/or in
    Fortran order (a transposed view of data stored frequency-first) or as a strided slice of a larger array"""
    q = rng.random()
    if q < 0.45:
        return None
    divs = [d for d in range(1, npt + 1) if npt % d == 0]
    big = [d for d in divs if 1 < d < npt] or divs
    a = rng.choice(big)
    rest = npt // a
    bd = [d for d in range(1, rest + 1) if rest % d == 0]
    b = rng.choice([d for d in bd if d > 1] or bd)
    shape3 = [a, b, rest // b]
    rng.shuffle(shape3)
    lay = {"shape": shape3, "order": "F" if q < 0.8 else ("strided" if q < 0.9 else "C")}
    if rng.random() < 0.35:
        lay["nan_slab"] = True       # the batch is part of a larger one whose other members have NaN moments
    return lay


def eval_est(ctx, item, impl, mod):
    _, i, j, method, sm, mv, n, dirs, shape, entries = item
    vname = method if sm is None else "%s/%s" % (method, sm)
    im = impl[i]
    rep0 = {"op": "estimate_directional_distribution", "method": method, "solution_method": sm,
            "direction": dirs, "shape": list(shape),
            "a1": [m[0] for _, m in entries], "b1": [m[1] for _, m in entries],
            "a2": [m[2] for _, m in entries], "b2": [m[3] for _, m in entries]}
    ctx.tally("shape-rank-%d" % len(shape))
    lay = ctx_case_layout.get(i)
    ctx.tally("moment-array-layout:%s" % ("C" if not lay else "%s-rank-%d%s" % (lay["order"], len(lay["shape"]), "+nan-slab" if lay.get("nan_slab") else "")))
    rep0["memory_layout_of_moment_arrays"] = lay or "C order, shape as given"
    if err_of(im):
        for _ in entries:
            ctx.count([vname, n, _[1]])
        ctx.oracle_fail("%s raised %s: %s" % (vname, im["error"], im["msg"]), rep0, key=None)
        return
    if im["shape"] != list(shape) + [n]:
        ctx.oracle_fail("%s: output shape %s, expected %s" % (vname, im["shape"], list(shape) + [n]), rep0)
        return
    out = unfl(im["out"])
    line = j
    # ---- single-precision moment arrays (a spectrum loaded from a float32 file): same answer as the same
    # values in double precision, up to single-precision rounding (measured <= 4e-7 of the peak)
    f32 = im.get("f32")
    if f32 is not None:
        ctx.tally("float32-moment-arrays:%s" % vname)
        if err_of(f32):
            ctx.oracle_fail("%s raised %s for float32 moment arrays: %s" % (vname, f32["error"], f32["msg"]),
                            dict(rep0, dtype="float32"), key=None)
        else:
            for e, (dv, (mk, m)) in enumerate(zip(unfl(f32), entries)):
                # the deviation is judged only where single-precision rounding of the inputs cannot matter much:
                # closed-form estimators (MEM, MEM2 first guess) on moments well inside the unit disc.  Iterative
                # solvers on nearly unrealisable moments amplify a rounding of the first guess (measured 8 %).
                inside = (not any(math.isnan(v) for v in m)) and m[0] ** 2 + m[1] ** 2 < 0.6 and m[2] ** 2 + m[3] ** 2 < 0.6
                lim = 1e-3 if (inside and mk not in ("hard", "nan") and sm in (None, "approximate")) else float("inf")
                if dv > lim:
                    ctx.oracle_fail("%s: float32 moment arrays give a different distribution than the same values "
                                    "as float64 (entry %d, relative deviation %r)" % (vname, e, dv),
                                    dict(rep0, entry=e, moments=m, dtype="float32"))
    for e, (mk, m) in enumerate(entries):
        D = out[e * n:(e + 1) * n]
        isnan = any(math.isnan(v) for v in m)
        ctx.count([vname, n, m], (not isnan) and any(m))
        ctx.tally("%s:%s" % (vname, mk))
        rep = dict(rep0, entry=e, moments=m, kind=mk)
        # ---- the model's answer for this entry
        mo = extra = None
        robust = True
        if mv is not None:
            mo = mod[line]; line += 1
            if mv == "newton":
                extra = mod[line]; line += 1
                robust = (not isnan) and extra[0] not in ("lstsq", "zerodiv") and C.unfx(extra[6]) > 1e-6
        # ---- validity (the statement of the property on the implementation alone)
        if isnan:
            if method == "mem":
                if not all(math.isnan(v) for v in D):
                    ctx.tally("mem:nan-moment-not-all-nan")
            elif any(v != 0 for v in D):
                ctx.oracle_fail("%s: NaN moments must give the all-zero row" % vname, rep)
        else:
            bad = validity(D, n)
            if bad:
                ctx.oracle_fail("%s: %s" % (vname, bad), rep)
        # ---- batch == single.  MEM: bit exact.  The jitted fastmath kernels of MEM2 round differently
        # depending on the memory alignment of the slice they get (measured <= 2e-15); iterative solvers amplify
        # that: Newton on a robust path <= 3e-11, scipy <= 3e-5 in the four-moment norm (unrealisable inputs);
        # on a fragile Newton path / least squares fallback a rounding flips a branch, so nothing is compared.
        s = im["singles"][e]
        if err_of(s):
            ctx.oracle_fail("%s raised on a single entry: %s" % (vname, s), rep)
        elif not isnan:
            S = unfl(s)
            pk = max(abs(v) for v in S) or 1.0
            dm = max(abs(a - b) for a, b in zip(D, S))
            if any(math.isnan(v) for v in S) or any(math.isnan(v) for v in D):
                dm = 0.0 if all((math.isnan(a) and math.isnan(b)) or a == b for a, b in zip(D, S)) else float("inf")
            if dm != 0:
                ctx.tally("batch-vs-single:%s:not-bit-identical" % vname)
            msg = "%s: entry %d of the batch differs from the same entry estimated alone (max diff %r, peak %r)" % (vname, e, dm, pk)
            if method == "mem":
                if dm != 0:
                    ctx.oracle_fail(msg, rep)
            elif sm == "approximate":
                if dm > 1e-12 * pk:
                    ctx.oracle_fail(msg, rep)
            elif sm == "newton":
                if mv is not None and robust:
                    if dm > 1e-7 * pk:
                        ctx.oracle_fail(msg, rep)
                else:
                    ctx.tally("batch-vs-single:newton-fragile-or-lstsq(not compared)")
            else:
                mi = moments_of(D, dirs, 360.0 / n); ms = moments_of(S, dirs, 360.0 / n)
                dd = norm([a - b for a, b in zip(mi, ms)])
                if dd > 2e-3:
                    ctx.oracle_fail(msg + " four-moment difference %r" % dd, rep)
        else:
            S = unfl(s)
            if not all((math.isnan(a) and math.isnan(b)) or a == b for a, b in zip(D, S)):
                ctx.oracle_fail("%s: NaN entry %d differs between batch and single" % (vname, e), rep)
        # ---- model
        if mv is None:
            continue
        if mo[0] == "U":
            ctx.tally("%s:model-needs-lstsq" % vname)
            continue
        if mo[0] == "R":
            ctx.tally("%s:model-raises" % vname)
            continue
        want = unfl(mo[2:])
        if isnan or any(math.isnan(v) for v in want):
            same = all((math.isnan(a) and math.isnan(b)) or a == b for a, b in zip(D, want))
            if not same and not (method == "mem" and isnan):
                ctx.disagree("%s: NaN handling differs from the model" % vname, rep)
            continue
        if any(math.isnan(v) or math.isinf(v) for v in D):
            continue                       # already reported by the validity oracle
        sc = max(abs(v) for v in want)
        if mv == "mem":
            tol = 1e-5                     # conditioning is judged by the function-level stream; loose here
        elif mv == "approx":
            tol = 1e-9
        else:
            st = extra[0]; iters = int(extra[1])
            ctx.tally("newton-status:" + st)
            ctx.tally("newton-iterations:%s" % ("0" if iters == 0 else "1-5" if iters <= 5 else "6-20" if iters <= 20 else ">20"))
            if robust:
                # measured over 3000 entries: max |impl - model| / peak = 3e-11 whenever margin > 1e-8
                tol = 1e-7
                ctx.tally("newton:robust-path(tight compare)")
            else:
                # a branch of the iteration is decided within rounding: the float path of the model need not be
                # the float path of the implementation; only the validity oracle applies
                ctx.tally("newton:fragile-path(validity only)")
                continue
        badj = [q for q in range(n) if not C.close(D[q], want[q], tol, 1e-300, sc)]
        if badj:
            q = badj[0]
            ctx.disagree("%s differs from the model at direction %d: %r vs %r" % (vname, q, D[q], want[q]),
                         dict(rep, index=q), is_property_failure=(mv != "newton"))


def eval_spec(ctx, item, impl):
    _, i, j, method, sm, n, shape, f, e, ent, meta = item
    vname = method if sm is None else "%s/%s" % (method, sm)
    rep = {"op": "FrequencySpectrum.as_frequency_direction_spectrum", "number_of_directions": n, "method": method,
           "solution_method": sm, "shape": list(shape), "frequency": f, "variance_density": e,
           "a1": [m[0] for m in ent], "b1": [m[1] for m in ent], "a2": [m[2] for m in ent], "b2": [m[3] for m in ent],
           "meta": meta}
    ctx.count(["spec", vname, n, shape, e[:3]])
    ctx.tally("spectrum-object:%s:lead-rank-%d" % (vname, len(shape) - 1))
    im = impl[i]
    if err_of(im):
        ctx.oracle_fail("as_frequency_direction_spectrum raised %s: %s" % (im["error"], im["msg"]), rep)
        return
    if im["cls"] != "FrequencyDirectionSpectrum" or im["shape2d"] != list(shape) + [n]:
        ctx.oracle_fail("2D spectrum has class %s shape %s" % (im["cls"], im["shape2d"]), rep)
        return
    dirs = unfl(im["direction"])
    if any(abs(a - b) > 1e-9 for a, b in zip(dirs, grid_deg(n))) or len(dirs) != n:
        ctx.oracle_fail("direction coordinate is not linspace(0,360,N)", rep)
    if unfl(im["frequency"]) != f:
        ctx.oracle_fail("frequency coordinate changed", rep)
    e2 = unfl(im["e2d"])
    back = unfl(im["e_back"])
    for q, ev in enumerate(e):
        row = e2[q * n:(q + 1) * n]
        if any(math.isnan(v) or v < 0 for v in row):
            ctx.oracle_fail("2D spectrum has a negative or NaN density", dict(rep, entry=q))
            break
        if not C.close(sum(row) * 360.0 / n, ev, 1e-9, 1e-12, ev):
            ctx.oracle_fail("sum over direction of the 2D spectrum %r != e(f) %r" % (sum(row) * 360.0 / n, ev), dict(rep, entry=q))
            break
        if not C.close(back[q], ev, 1e-9, 1e-12, ev):
            ctx.oracle_fail("integrating the 2D spectrum over direction gives %r, e(f) = %r" % (back[q], ev), dict(rep, entry=q))
            break
    m0i = unfl(im["m0_in"]); m0o = unfl(im["m0_out"]); m0b = unfl(im["m0_back"])
    for a, b, c in zip(m0i, m0o, m0b):
        if not (C.close(a, b, 1e-9, 1e-12, a) and C.close(a, c, 1e-9, 1e-12, a)):
            ctx.oracle_fail("total variance not preserved: m0 in %r, 2D %r, back %r" % (a, b, c), rep)
            break
    # metadata
    lead = list(shape[:-1])
    for k in ("latitude", "longitude", "depth"):
        got = im["meta"][k]
        if unfl(got["val"]) != unfl(meta[k]):
            ctx.oracle_fail("%s not carried over" % k, rep)
        if len(got["dims"]) != len(lead):
            ctx.oracle_fail("%s changed dimensions: %s" % (k, got["dims"]), rep)
    nt = lead[0] if lead else 1
    if im["meta"]["time"]["val"] != meta["time"][:nt]:
        ctx.oracle_fail("time not carried over: %s vs %s" % (im["meta"]["time"]["val"], meta["time"][:nt]), rep)


def replay(ctx, obj):
    """re-run the recorded call on the implementation under test and re-evaluate the property's statement"""
    inp = obj.get("input", obj)
    op = inp.get("op", "")
    if op.startswith("estimate_directional_distribution"):
        dirs = inp["direction"]; n = len(dirs)
        if "a1" in inp:
            cols = [inp["a1"], inp["b1"], inp["a2"], inp["b2"]]
            shape = inp.get("shape", [len(cols[0])])
        else:
            m = inp["moments"]; cols = [[m[0]], [m[1]], [m[2]], [m[3]]]; shape = [1]
        variants = [(inp["method"], inp.get("solution_method"))] if "method" in inp else [(a, b) for a, b, _ in VARIANTS]
        for method, sm in variants:
            case = {"op": "est", "method": method, "sm": sm, "dirs": fl(dirs), "shape": list(shape),
                    "a1": fl(cols[0]), "b1": fl(cols[1]), "a2": fl(cols[2]), "b2": fl(cols[3]), "single": True}
            lay = inp.get("memory_layout_of_moment_arrays")
            if isinstance(lay, dict):
                case["layout"] = lay
            if inp.get("dtype") == "float32":
                case["f32"] = True
            r = ctx.impl("C05.py", {"cases": [case]})["results"][0]
            if not err_of(r) and err_of(r.get("f32")):
                print("REPLAY %s/%s float32 moment arrays: raised %s" % (method, sm, r["f32"]["error"]))
                ctx.oracle_fail("raised %s for float32 moment arrays" % r["f32"]["error"], inp)
                continue
            if err_of(r):
                print("REPLAY %s/%s: raised %s: %s" % (method, sm, r["error"], r["msg"]))
                ctx.oracle_fail("raised %s" % r["error"], inp)
                continue
            out = unfl(r["out"])
            for e in range(len(cols[0])):
                D = out[e * n:(e + 1) * n]
                m = [c[e] for c in cols]
                bad = None if any(math.isnan(v) for v in m) else validity(D, n)
                print("REPLAY %s/%s entry %d moments %s: %s" % (method, sm, e, m, bad or "valid distribution (min %g, integral %.12g)" % (min(D), sum(D) * 360.0 / n)))
                if bad:
                    ctx.oracle_fail(bad, inp)
    elif op.startswith("mem2_directional_distribution"):
        case = {"op": "dist", "l": fl(inp["lambda"]), "d": fl(inp["direction_increment"]), "th": fl(inp["directions_radians"])}
        r = ctx.impl("C05.py", {"cases": [case]})["results"][0]
        m = ctx.model(["dist %s %s %s" % (" ".join(case["l"]), C.flist(inp["direction_increment"]), C.flist(inp["directions_radians"]))])[0]
        print("REPLAY impl:", r if err_of(r) else unfl(r)[:8], "...")
        print("REPLAY model:", unfl(m[1:])[:8], "...")
    elif op.startswith("FrequencySpectrum"):
        print("REPLAY: spectrum-object case; input =", json_short(inp))
    else:
        print("replay: the file is self-describing; 'input' holds the arguments of the call named in 'op':", op)


def json_short(o):
    import json
    t = json.dumps(o, default=str)
    return t if len(t) < 2000 else t[:2000] + "..."


READY = True
LEVEL_TEXT = ("Theorems (Coq, all grid sizes N, all multipliers lambda, all finite moments that pass the stated guards): the MEM closed form "
              "(Lygre-Krogstad, modelled on (re,im) pairs and proved equal to the complex-number formula) returns, whenever 1-|c1|^2, the "
              "denominators and the discrete integral are non-zero, values >= 0 with sum_j D_j 2pi/N = 1 -- also for unrealisable moments; "
              "the MEM2 distribution exp(-(lambda.T - min))/normalisation is strictly positive with unit integral for EVERY lambda and every "
              "grid with positive increments, so every status of the modelled Newton iteration (converged, max_iter, failed line search), "
              "the approximate variant and -- as a consequence checked by execution -- scipy's and the least-squares results are valid "
              "distributions; NaN guess gives the all-zero row; on np.linspace(0,360,N), N>=3, the midpoint increments are 2pi/N and the "
              "returned rows sum to one with 360/N; e_i*D_ij integrated over direction returns e_i (and the total variance); a batch is the "
              "map of the per-entry function; non-spectral variables are carried over. The model is tied to /repo by running the extracted "
              "model and the implementation on the same generated inputs (MEM, MEM2 kernels, all four variants x batch shapes, spectrum "
              "objects), and the property's own statement (non-negative, unit integral, no exception, batch = single, energy round trip, "
              "metadata) is evaluated on the implementation for every generated case.")
LEVEL_NOTE = ("Decided by execution only: 'returns without raising' (numba runtime), validity of the scipy root(lm) and np.linalg.lstsq "
              "branches (not modelled; only the consequence of mem2_dist_valid is checked on their outputs), xarray/numpy layout handling "
              "(reshape, broadcasting, Dataset construction), binary64 rounding. Batch = single is bit-exact only for MEM; the fastmath "
              "kernels of MEM2 round differently depending on slice alignment (<= 2e-15) and the iterative solvers amplify that, so the "
              "comparison uses 1e-12 (approximate), 1e-7 on robust Newton paths, 2e-3 in the four-moment norm for scipy and is skipped on "
              "Newton paths decided within rounding / least-squares fallback (counted in evidence). The MEM fallback of "
              "use_mem_when_failing_to_converge is dead code in /repo (overwritten by the next assignment); the model follows the code.")
TRUSTED = ["extracted model (R as binary64, libm of OCaml vs numpy/numba)", "harness tolerances documented in ASSUMPTIONS",
           "scipy.special.ive for generating von-Mises moments (inputs only)"]
TECHNIQUE = "Coq proof (algebra over lists, all N and all lambda) + extracted-model correspondence + property oracles on the implementation"
DESIGN_REF = "DESIGN.md section 5 C05"
