"""C05 placeholder (being built)"""
RULE = ""
ASSUMPTIONS = []
def run(ctx):
    pass
READY = False
LEVEL_TEXT = ""
LEVEL_NOTE = ""
TECHNIQUE = ""
