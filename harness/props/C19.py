"""C19 file cache: failed or interrupted downloads never poison the cache."""
import common as C
import fc_common as F

RULE = ("histories as for C18 plus, per requested URI, a fault outcome of the resource (not found, exception before writing, "
        "exception after half the bytes, process death after half the bytes), of the post-processing function (raises) and of the "
        "validation function (reject, IOError); strict and missing-file tolerant mode; every crash is followed by reopening the "
        "cache on the same directory: exhaustive over a 28-letter alphabet to length 2 (quick) / 3 (thorough) + random histories; "
        "non-trivial = at least one get and >= 2 ops; distinct by full history")
ASSUMPTIONS = ["a process death is simulated by os._exit inside the download function of a forked child (sequential mode only)",
               "in parallel mode only non-raising faults are injected (which downloads complete before a raise is decided by thread timing)",
               "time stamps are made logical by the harness; md5 naming is treated as injective"]
TRUSTED = ["model of the OS directory: a file is name -> (bytes, time); rename (os.replace) is atomic"]


def run(ctx):
    ctx.driver_pid = "C18"
    hs = []
    depth = ctx.n(2, 3)
    for h in F.exhaustive_histories(depth, faults=True):
        hs.append(h)
    for _ in range(ctx.n(300, 4000)):
        hs.append(F.random_history(ctx.rng, True, ctx.n(12, 50)))
    okc = F.run_histories(ctx, hs, "C19")
    ctx.sample({"history": hs[len(hs) // 2]})
    ctx.sample({"history": hs[-1]})
    ctx.extra["traces_validated_against_impl"] = okc


READY = False
LEVEL_TEXT = ""
LEVEL_NOTE = ""
