"""C19 file cache: failed or interrupted downloads never poison the cache."""
import common as C
import fc_common as F

RULE = ("histories as for C18 plus, per requested URI, a fault outcome of the resource (not found, exception before writing, "
        "exception after half the bytes, process death after half the bytes), of the post-processing function (raises) and of the "
        "validation function (reject, IOError); strict and missing-file tolerant mode; every crash is followed by reopening the "
        "cache on the same directory: exhaustive over a 28-letter alphabet to length 2 (quick) / 3 (thorough) + random histories; "
        "non-trivial = at least one get and >= 2 ops; distinct by full history")
ASSUMPTIONS = ["a process death is simulated by os._exit inside the download function of a forked child (sequential mode only)",
               "in parallel mode only non-raising faults are injected (which downloads complete before a raise is decided by thread timing)",
               "time stamps are made logical by the harness; md5 naming is treated as injective"]
TRUSTED = ["model of the OS directory: a file is name -> (bytes, time); rename (os.replace) is atomic"]


def run(ctx):
    ctx.driver_pid = "C18"
    hs = []
    depth = 2 if ctx.quick() else 3      # (28-letter alphabet: length 3 is for the thorough tier)
    for h in F.exhaustive_histories(depth, faults=True):
        hs.append(h)
    for _ in range(ctx.n(300, 4000)):
        hs.append(F.random_history(ctx.rng, True, ctx.n(12, 50)))
    for _ in range(ctx.n(80, 1500)):
        hs.append(F.duplicate_history(ctx.rng))      # the same URI named more than once in one request
    okc = F.run_histories(ctx, hs, "C19")
    ctx.sample({"history": hs[len(hs) // 2]})
    ctx.sample({"history": hs[-1]})
    ctx.extra["traces_validated_against_impl"] = okc


DRIVER_PID = "C18"
ANCHORS = ["src/ocean_science_utilities/filecache/cache_object.py", "src/ocean_science_utilities/filecache/filecache.py", "src/ocean_science_utilities/filecache/remote_resources.py"]
READY = True
LEVEL_TEXT = 'Theorems (Coq, same state machine with fault outcomes as inputs, arbitrary histories): no cache-named file on disk is ever partial - also after the process dies in the middle of a download (partial bytes exist only under the temporary, non-cache name) - so reopening serves only complete files of the right resource; a failed fetch of an uncached URI leaves neither entry nor file and the next request contacts the resource again; a validation-rejected entry is removed (file and entry) and re-fetched; tolerant mode omits / strict mode raises; files not named by a request are unchanged or evicted and the invariant holds after every outcome (returned, raised, crashed). Correspondence: every fault kind (not found, error before write, error after half the bytes, process death after half the bytes via os._exit in a forked child, post-processing error, validation reject / IOError) at every position in exhaustive histories to length 2/3 over a 28-letter alphabet plus random long histories, each followed by retries and reopens, against the real FileCache.'
LEVEL_NOTE = 'Closed under the global context (no axioms). Trusted as for C18. A process death is simulated by os._exit inside the download function (sequential mode); in parallel mode only non-raising faults are injected because which downloads complete before a raise is decided by thread timing, which the sequential model does not describe.'
TECHNIQUE = "Coq proof by induction over operation histories (state-machine invariants, frame lemmas) + extracted-model correspondence on exhaustive and random histories + invariant oracles on the real directory"
DESIGN_REF = "DESIGN.md section 5 C19"
