"""Shared generator / comparator / oracles for the file-cache properties C18 and C19."""
import itertools
import json
import os

import common as C

FOREIGN_N = 6


# ------------------------------------------------------------------ history -> model request line
def name_tok(c):
    a = c.split(".")
    return " ".join(a)


def req_tok(q):
    out = q["out"]
    o = out[0] if out[0] in ("N", "B") else "%s %d" % (out[0], out[1])
    return "%d %d %s %s %s" % (q["r"], q["k"], q["val"], q["post"], o)


def op_tok(op):
    k = op["op"]
    if k == "G":
        return "G %d %s" % (len(op["reqs"]), " ".join(req_tok(q) for q in op["reqs"]))
    if k == "R":
        return "R %d %d" % (op["r"], op["k"])
    if k == "P":
        return "P"
    if k == "O":
        return "O %s" % ("T" if op["evict"] else "F")
    if k in ("T", "A"):
        return "%s %s" % (k, name_tok(op["name"]))
    if k == "F":
        return "F %d %d" % (op["j"], op["c"])
    if k == "M":
        return "M %s %s" % ("T" if op["p"] else "F", "T" if op["a"] else "F")
    raise ValueError(k)


def hist_line(h):
    return "hist %d %s %s %d %s" % (h["maxb"], "T" if h["par"] else "F", "T" if h["allow"] else "F",
                                    len(h["ops"]), " ".join(op_tok(o) for o in h["ops"]))


def parse_model(tokens):
    """reply of the driver -> list of observations"""
    line = " ".join(tokens)
    out = []
    prev_f = 0
    for part in line.split(" | "):
        d = {}
        for kv in part.split():
            k, _, v = kv.partition("=")
            d[k] = v
        res = d["res"]
        if res.startswith("P:"):
            r = ["P", [x for x in res[2:].split(",") if x]]
        else:
            r = [res]
        files = {}
        times = []
        for f in [x for x in d["files"].split(",") if x]:
            n, _, ct = f.partition("=")
            c, _, t = ct.partition("@")
            files[n] = c
            if n.startswith("C."):
                times.append((int(t), n))
        fetched_all = [int(x) for x in d["fetched"].split(",") if x]
        new = fetched_all[:len(fetched_all) - prev_f]
        prev_f = len(fetched_all)
        out.append({"res": r, "files": files, "order": [n for t, n in sorted(times)],
                    "entries": sorted(x for x in d["entries"].split(",") if x),
                    "fetched": list(reversed(new)), "maxb": int(d["maxb"]), "size": int(d["size"])})
    return out


# ------------------------------------------------------------------ generators
def exact_size(n):
    return int((n / 1e9) * 1e9) == n


def G(*rks, **kw):
    reqs = []
    for rk in rks:
        r, k = rk if isinstance(rk, tuple) else (rk, 0)
        reqs.append({"r": r, "k": k, "val": "N", "post": "N", "out": ["K", kw.get("v", 0)]})
    return {"op": "G", "reqs": reqs}


def small_alphabet(faults):
    ops = [G(0), G(1), G(2), G(0, 1), G(2, 0), G(0, 1, 2), G((0, 1)), G((0, 1), 0, v=1),
           {"op": "R", "r": 0, "k": 0}, {"op": "P"}, {"op": "O", "evict": False}, {"op": "O", "evict": True},
           {"op": "T", "name": "C.0.0"}, {"op": "A", "name": "C.1.0"}, {"op": "F", "j": 1, "c": 3}]
    if faults:
        def Gf(reqs):
            return {"op": "G", "reqs": reqs}
        mk = lambda r, out, val="N", post="N", k=0: {"r": r, "k": k, "val": val, "post": post, "out": out}
        ops += [Gf([mk(0, ["N"])]), Gf([mk(1, ["K", 1]), mk(0, ["N"])]), Gf([mk(0, ["B"])]),
                Gf([mk(1, ["K", 2]), mk(0, ["H", 1]), mk(2, ["K", 0])]), Gf([mk(0, ["H", 2])]),
                Gf([mk(0, ["K", 3], post="F")]), Gf([mk(0, ["K", 3], post="T")]),
                Gf([mk(0, ["K", 4], val="R")]), Gf([mk(0, ["N"], val="R")]), Gf([mk(0, ["K", 4], val="I"), mk(1, ["K", 0])]),
                Gf([mk(1, ["K", 5]), mk(0, ["C", 1])]), Gf([mk(0, ["C", 2])]),
                {"op": "M", "p": False, "a": False}]
    return ops


def sanitize(ops, par, allow, dups=False):
    """keep histories inside the modelled envelope:
       * a crash (process death) only in sequential mode, and it is followed by a reopen;
       * in parallel mode (chunks of five misses, all awaited) raising faults are allowed, a process death is not;
       * within one request a resource has one outcome and a (resource, comment) appears once."""
    out = []
    for op in ops:
        op = json.loads(json.dumps(op))
        if op["op"] == "M":
            par, allow = op["p"], op["a"]
        if op["op"] == "G":
            seen = {}
            reqs = []
            outcome = {}
            for q in op["reqs"]:
                if (q["r"], q["k"]) in seen:
                    # the same URI twice in one request: an exact repetition (same directives), and in sequential
                    # mode only (parallel workers would race on one temporary file)
                    if dups and not par:
                        reqs.append(json.loads(json.dumps(seen[(q["r"], q["k"])])))
                    continue
                seen[(q["r"], q["k"])] = q
                q["out"] = outcome.setdefault(q["r"], q["out"])
                if par and q["out"][0] == "C":
                    q["out"] = ["H", q["out"][1]]      # a process death is explored in sequential mode only
                reqs.append(q)
            op["reqs"] = reqs
            out.append(op)
            if any(q["out"][0] == "C" for q in reqs):
                out.append({"op": "O", "evict": True})
            continue
        out.append(op)
    # at most one crash per history (the runner forks once)
    ncrash = 0
    res = []
    for op in out:
        if op["op"] == "G" and any(q["out"][0] == "C" for q in op["reqs"]):
            ncrash += 1
            if ncrash > 1:
                for q in op["reqs"]:
                    if q["out"][0] == "C":
                        q["out"] = ["H", q["out"][1]]
        res.append(op)
    return res


def random_history(rng, faults, maxlen, nres=4, ncom=3):
    n = rng.randint(1, maxlen)
    par = rng.random() < 0.35
    allow = rng.random() < 0.7
    sizes = [s for s in (2600, 3100, 3600, 4700, 6000, 9000, 50000) if exact_size(s)]
    maxb = rng.choice(sizes)
    ops = []
    ver = 0
    for _ in range(n):
        x = rng.random()
        if x < 0.55:
            m = rng.choice([1, 1, 2, 2, 3])
            big = rng.random() < 0.12
            if big:
                m = rng.randint(6, 12)          # more than one chunk of five in parallel mode
            reqs = []
            for _ in range(m):
                r = rng.randrange(6 if big else nres)
                k = rng.choice([0, 0, 0, 1, 2][:2 + ncom]) if not big else rng.randrange(3)
                ver += 1
                out = ["K", ver % 7]
                val, post = "N", "N"
                if rng.random() < 0.15:
                    post = "T"
                if faults:
                    y = rng.random()
                    if y < 0.12:
                        out = ["N"]
                    elif y < 0.18:
                        out = ["B"]
                    elif y < 0.26:
                        out = ["H", ver % 7]
                    elif y < 0.29:
                        out = ["C", ver % 7]
                    if rng.random() < 0.15:
                        val = rng.choice(["O", "R", "R", "I"])
                    if post == "T" and rng.random() < 0.3:
                        post = "F"
                else:
                    if rng.random() < 0.05:
                        val = "O"
                    if big and rng.random() < 0.15:
                        out = ["N"]        # a missing object inside a large (multi-chunk) request: parallel must equal sequential
                reqs.append({"r": r, "k": k, "val": val, "post": post, "out": out})
            op = {"op": "G", "reqs": reqs}
            if m == 1 and rng.random() < 0.3:
                op["single"] = True
            ops.append(op)
        elif x < 0.63:
            ops.append({"op": "R", "r": rng.randrange(nres), "k": rng.choice([0, 0, 1])})
        elif x < 0.66:
            ops.append({"op": "P"})
        elif x < 0.76:
            ops.append({"op": "O", "evict": rng.random() < 0.5})
        elif x < 0.84:
            ops.append({"op": "T", "name": "C.%d.%d" % (rng.randrange(nres), rng.choice([0, 0, 1]))})
        elif x < 0.90:
            ops.append({"op": "A", "name": "C.%d.%d" % (rng.randrange(nres), rng.choice([0, 0, 1]))})
        elif x < 0.96:
            ops.append({"op": "F", "j": rng.randrange(FOREIGN_N), "c": rng.randrange(5)})
        else:
            ops.append({"op": "M", "p": rng.random() < 0.4, "a": rng.random() < 0.7})
    h = {"maxb": maxb, "par": par, "allow": allow, "ops": sanitize(ops, par, allow)}
    if rng.random() < 0.25:
        # drive the cache through the module-level API (create_cache / filepaths / delete_files);
        # create_cache has no allow_for_missing_files argument: the default (tolerant) applies
        h["via_module"] = True
        h["allow"] = True
        h["ops"] = sanitize(ops, par, True)
    return environment(h)


VSTYLES = ["bool", "numpy", "int"]


def environment(h):
    """features of the environment that the model does not (and need not) see: the type of the truth value a
    validation function returns, whether the user keeps sub directories inside the cache directory, and whether
    the cache directory is given as an absolute path or relative to the working directory"""
    k = h["maxb"] // 100 + len(h["ops"]) + sum(len(str(o)) for o in h["ops"])
    h["validator_returns"] = VSTYLES[k % 3]
    h["foreign_subdirectories"] = (k // 3) % 2 == 0
    h["relative_cache_path"] = (k // 6) % 3 == 0
    return h


def exhaustive_histories(depth, faults):
    al = small_alphabet(faults)
    sizes = [s for s in (2600, 3600, 10000) if exact_size(s)]
    for mb in sizes:
        for L in range(1, depth + 1):
            for combo in itertools.product(range(len(al)), repeat=L):
                ops = [al[i] for i in combo]
                for par in ((False, True) if not faults else (False,)):
                    yield environment({"maxb": mb, "par": par, "allow": True, "ops": sanitize(ops, par, True)})


# ------------------------------------------------------------------ comparison + oracles
def canonical_ok(tok, name):
    """a cache file C.r.k must hold complete bytes of resource r"""
    a = name.split(".")
    t = tok.split(".")
    return t[0] in ("F", "P") and len(t) == 3 and t[1] == a[1]


def check_history(ctx, h, mobs, iobs, pid, strict_order=True):
    """compare the model trace with the implementation trace, then evaluate the properties'
    own statements on the implementation trace alone"""
    rep = {"history": h, "how_to_read": "ops: G=get R=remove P=purge O=reopen T=touch A=age F=foreign M=set mode; "
           "req out: K v=ok version v, N=not found, B=fail before write, H=fail after half, C=process dies"}
    if "error" in iobs:
        ctx.oracle_fail("driving the real FileCache raised %s: %s" % (iobs["error"], iobs.get("msg")),
                        dict(rep, traceback=iobs.get("tb")), key=None)
        return False
    io = iobs["obs"]
    ok = True
    n = min(len(io), len(mobs))
    foreign = {}
    prev_entries = []
    prev_order = []
    for i in range(n):
        m, o = mobs[i], io[i]
        op = h["ops"][i] if i < len(h["ops"]) else None
        where = "op %d (%s)" % (i, json.dumps(op)[:120])
        if o["res"][0] == "?":
            ctx.notes.append("runner limitation: %s" % o["res"][1])
            return ok
        # ---------------- model vs implementation
        diffs = []
        if o["res"][0] != m["res"][0]:
            diffs.append("result %s vs model %s" % (o["res"][:2], m["res"]))
        elif o["res"][0] == "P" and o["res"][1] != m["res"][1]:
            diffs.append("returned %s vs model %s" % (o["res"][1], m["res"][1]))
        if o["files"] != m["files"]:
            diffs.append("directory %s vs model %s" % (sorted(o["files"].items()), sorted(m["files"].items())))
        elif strict_order and o["order"] != m["order"]:
            diffs.append("recency order %s vs model %s" % (o["order"], m["order"]))
        if o.get("entries") is not None:
            if o["entries"] != m["entries"]:
                diffs.append("entries %s vs model %s" % (o["entries"], m["entries"]))
            if abs(o["maxb"] - m["maxb"]) > 1:
                diffs.append("max size %s vs model %s" % (o["maxb"], m["maxb"]))
        fi, fm = o["fetched"], m["fetched"]
        if (sorted(fi) != sorted(fm)) if h["par"] or any(x["op"] == "M" for x in h["ops"]) else (fi != fm):
            diffs.append("resources contacted %s vs model %s" % (fi, fm))
        # ---------------- the property itself, on the implementation alone
        viol = []
        if o["res"][0] == "P":
            names, exist = o["res"][1], o["res"][2]
            for nm, ex in zip(names, exist):
                if not ex or nm not in o["files"]:
                    viol.append("returned path %s does not exist" % nm)
                elif not canonical_ok(o["files"][nm], nm):
                    viol.append("returned path %s holds %s (not the complete bytes of its resource)" % (nm, o["files"][nm]))
            if op and op["op"] == "G":
                for q in op["reqs"]:
                    nm = "C.%d.%d" % (q["r"], q["k"])
                    was_miss = nm not in prev_entries or q["val"] in ("R", "I")
                    if was_miss and nm in names and q["out"][0] == "K" and nm in o["files"] and q["r"] in o["fetched"]:
                        want = ("P" if q["post"] == "T" else "F") + ".%d.%d" % (q["r"], q["out"][1])
                        if o["files"][nm] != want:
                            viol.append("%s was fetched in this request but holds %s, resource delivered %s" % (nm, o["files"][nm], want))
                # a cached URI (no validation directive) is served without contacting the resource
                fetched_ok = set()
                for q in op["reqs"]:
                    nm = "C.%d.%d" % (q["r"], q["k"])
                    if not (nm in prev_entries and q["val"] in ("N", "O")):
                        fetched_ok.add(q["r"])
                for r in o["fetched"]:
                    if r not in fetched_ok:
                        viol.append("resource %d contacted although every URI of it in the request was cached" % r)
        for nm, tok in o["files"].items():
            if nm.startswith("C.") and not canonical_ok(tok, nm):
                viol.append("cache file %s holds %s: partial / foreign bytes under a cache name" % (nm, tok))
        if o.get("entries") is not None:
            disk_c = sorted(x for x in o["files"] if x.startswith("C."))
            if o["entries"] != disk_c:
                viol.append("entries %s != cache files on disk %s" % (o["entries"], disk_c))
            small = [x for x in o["entries"] if int(x.split(".")[1]) < 4 and int(x.split(".")[2]) < 3]
            if "in_cache" in o and o["in_cache"] != small:
                viol.append("in_cache() says %s but the entries are %s" % (o["in_cache"], small))
            for mf in o.get("module_facts", []):
                viol.append("module-level API: " + mf)
            for ef in o.get("environment_facts", []):
                viol.append(ef)
            if o["len"] != len(disk_c):
                viol.append("len(cache)=%d but %d cache files on disk" % (o["len"], len(disk_c)))
            if op and op["op"] in ("G", "O") and o["res"][0] in ("P", "D"):
                tot = sum(size_of(o["files"][x]) for x in disk_c)
                if tot > o["maxb"]:
                    viol.append("cache files total %d bytes > configured %d" % (tot, o["maxb"]))
        # foreign files never modified
        if op and op["op"] == "F":
            foreign["F.%d" % op["j"]] = "B.%d" % op["c"]
        for nm, tok in foreign.items():
            if o["files"].get(nm) != tok:
                viol.append("foreign file %s changed: %s (was %s)" % (nm, o["files"].get(nm), tok))
        # eviction: least recently used first, never a returned file
        if op and op["op"] == "G" and o["res"][0] == "P" and o.get("entries") is not None:
            gone = [x for x in prev_entries if x not in o["entries"]]
            rejected = ["C.%d.%d" % (q["r"], q["k"]) for q in op["reqs"] if q["val"] in ("R", "I")]
            gone = [x for x in gone if x not in rejected]
            for x in gone:
                if x in o["res"][1]:
                    viol.append("evicted %s although it is returned by this request" % x)
            survivors = [x for x in prev_order if x in o["entries"] and x not in o["res"][1]]
            for x in gone:
                for y in survivors:
                    if x in prev_order and prev_order.index(x) > prev_order.index(y):
                        viol.append("evicted %s although %s was used less recently" % (x, y))
        rep_i = dict(rep, failing_op_index=i, implementation_observation=o, model_observation=m)
        for v in viol[:3]:
            ctx.oracle_fail("%s: %s" % (where, v), rep_i)
            ok = False
        if diffs:
            ctx.disagree("%s: %s" % (where, "; ".join(diffs)[:600]), rep_i)
            ok = False
        if not ok:
            return False
        if o.get("entries") is not None:
            prev_entries = o["entries"]
        else:
            prev_entries = sorted(x for x in o["files"] if x.startswith("C."))
        prev_order = o["order"]
    if len(io) != len(mobs):
        ctx.disagree("history ended after %d observations, model has %d" % (len(io), len(mobs)),
                     dict(rep, implementation_tail=io[-1:] if io else None))
        return False
    return ok


def size_of(tok):
    t = tok.split(".")
    if t[0] == "B":
        return 10 + int(t[1])
    if t[0] not in ("F", "P", "H"):
        return 0
    base = 1000 + 500 * int(t[1]) + 7 * int(t[2])
    return base if t[0] == "F" else (base + 12 if t[0] == "P" else base // 2)


def nontrivial(h):
    gets = [o for o in h["ops"] if o["op"] == "G"]
    return len(gets) >= 1 and len(h["ops"]) >= 2


def duplicate_history(rng, nres=4):
    """requests that name the same URI more than once (exact repetitions), sequential mode, outcomes
    delivered / not found only, no directives, a cache large enough never to evict: the stream where the
    order of time stamps - which a repeated download makes ambiguous - does not matter and is not compared"""
    ops = []
    for _ in range(rng.randint(2, 6)):
        x = rng.random()
        if x < 0.7:
            base = []
            gone = rng.sample(range(nres), rng.choice([0, 1, 1, 2]))
            for _ in range(rng.randint(1, 4)):
                r = rng.randrange(nres)
                out = ["N"] if r in gone else ["K", rng.randint(0, 6)]
                base.append({"r": r, "k": rng.choice([0, 0, 1]), "val": "N", "post": "N", "out": out})
            reqs = list(base)
            for _ in range(rng.randint(1, 3)):
                reqs.insert(rng.randint(0, len(reqs)), dict(rng.choice(base)))
            ops.append({"op": "G", "reqs": reqs})
        elif x < 0.85:
            ops.append({"op": "O", "evict": rng.random() < 0.5})
        else:
            ops.append({"op": "R", "r": rng.randrange(nres), "k": rng.choice([0, 0, 1])})
    allow = rng.random() < 0.8
    h = {"maxb": 50000, "par": False, "allow": allow, "ops": sanitize(ops, False, allow, dups=True),
         "duplicate_uris": True}
    if rng.random() < 0.3:
        h["via_module"] = True
        h["allow"] = True
    return environment(h)


def run_histories(ctx, hs, pid, chunk=400):
    total_ok = 0
    for a in range(0, len(hs), chunk):
        part = hs[a:a + chunk]
        impl = ctx.impl("C18.py", {"histories": part}, timeout=3000)["results"]
        mod = ctx.model([hist_line(h) for h in part])
        for h, mo, io in zip(part, mod, impl):
            if mo and mo[0] == "ERR":
                raise C.Infra("model driver error: %s" % " ".join(mo))
            ctx.count(h, nontrivial(h))
            ctx.tally("history length %d" % min(len(h["ops"]), 20) if len(h["ops"]) < 20 else "history length >=20")
            for o in h["ops"]:
                ctx.tally("op " + o["op"])
                if o["op"] == "G":
                    for q in o["reqs"]:
                        ctx.tally("outcome " + q["out"][0])
                        if q["val"] != "N":
                            ctx.tally("validate " + q["val"])
            ctx.tally("parallel" if h["par"] else "sequential")
            if h.get("duplicate_uris"):
                ctx.tally("requests naming a URI twice")
            if check_history(ctx, h, parse_model(mo), io, pid, strict_order=not h.get("duplicate_uris")):
                total_ok += 1
    return total_ok
