"""Fail-closed translator: Python AST of the rational array kernels of tools/time_integration.py
-> terms of the embedded language of coq/Model/PyKernel.v (coq/Generated/StencilProg.v).

Only a small grammar is accepted (see `Refuse` sites); anything else raises Refuse and the check
reports the proof obligation as broken.  The translation is purely syntactic: no evaluation, no
simplification, no knowledge of what the functions are supposed to compute.
"""
import ast
import os

FUNCS = ["lagrange_base_polynomial_coef", "integrated_lagrange_base_polynomial_coef",
         "evaluate_polynomial", "integration_stencil"]


class Refuse(Exception):
    pass


BINOPS = {ast.Add: "BAdd", ast.Sub: "BSub", ast.Mult: "BMul", ast.Div: "BDiv", ast.Pow: "BPow"}
CMPS = {ast.Eq: "CEq", ast.NotEq: "CNe", ast.Lt: "CLt", ast.LtE: "CLe", ast.Gt: "CGt", ast.GtE: "CGe"}


def q(s):
    return '"%s"' % s


def zlit(n):
    return "(EInt (%d))" % n if n >= 0 else "(EInt (%d)%%Z)" % n


class T:
    def __init__(self, known_funcs):
        self.known = known_funcs

    def expr(self, e):
        if isinstance(e, ast.Constant):
            if isinstance(e.value, bool) or not isinstance(e.value, int):
                if isinstance(e.value, float) and float(e.value).is_integer():
                    return "(EInt (%d)%%Z)" % int(e.value)
                raise Refuse("constant %r" % (e.value,))
            return "(EInt (%d)%%Z)" % e.value
        if isinstance(e, ast.Name):
            return "(EVar %s)" % q(e.id)
        if isinstance(e, ast.BinOp):
            if type(e.op) not in BINOPS:
                raise Refuse("operator %s" % type(e.op).__name__)
            return "(EBin %s %s %s)" % (BINOPS[type(e.op)], self.expr(e.left), self.expr(e.right))
        if isinstance(e, ast.UnaryOp):
            if isinstance(e.op, ast.USub):
                return "(ENeg %s)" % self.expr(e.operand)
            if isinstance(e.op, ast.UAdd):
                return self.expr(e.operand)
            raise Refuse("unary %s" % type(e.op).__name__)
        if isinstance(e, ast.Subscript):
            base = self.expr(e.value)
            sl = e.slice
            if isinstance(sl, ast.Slice):
                if sl.step is not None:
                    raise Refuse("slice step")
                lo = self.expr(sl.lower) if sl.lower is not None else "(EInt 0%Z)"
                if sl.upper is None:
                    hi = "(ELen %s)" % base
                else:
                    hi = self.expr(sl.upper)
                return "(ESlice %s %s %s)" % (base, lo, hi)
            return "(EIdx %s %s)" % (base, self.expr(sl))
        if isinstance(e, ast.Call):
            if e.keywords:
                raise Refuse("keyword arguments in a call")
            f = e.func
            if isinstance(f, ast.Name) and f.id == "len" and len(e.args) == 1:
                return "(ELen %s)" % self.expr(e.args[0])
            if isinstance(f, ast.Attribute) and isinstance(f.value, ast.Name) and f.value.id == "np" \
                    and f.attr == "zeros" and len(e.args) == 1:
                return "(EZeros %s)" % self.expr(e.args[0])
            if isinstance(f, ast.Name) and f.id in self.known:
                return "(ECall %s [%s])" % (q(f.id), "; ".join(self.expr(a) for a in e.args))
            raise Refuse("call of %s" % ast.dump(f)[:80])
        raise Refuse("expression %s" % type(e).__name__)

    def cond(self, c):
        if isinstance(c, ast.Compare) and len(c.ops) == 1 and type(c.ops[0]) in CMPS:
            return "(%s %s %s)" % (CMPS[type(c.ops[0])], self.expr(c.left), self.expr(c.comparators[0]))
        raise Refuse("condition %s" % ast.dump(c)[:80])

    def target(self, t):
        """-> ('name', x) | ('idx', x, i) | ('slice', x, lo, hi)"""
        if isinstance(t, ast.Name):
            return ("name", t.id)
        if isinstance(t, ast.Subscript) and isinstance(t.value, ast.Name):
            x = t.value.id
            sl = t.slice
            if isinstance(sl, ast.Slice):
                if sl.step is not None:
                    raise Refuse("slice step")
                lo = self.expr(sl.lower) if sl.lower is not None else "(EInt 0%Z)"
                hi = self.expr(sl.upper) if sl.upper is not None else "(ELen (EVar %s))" % q(x)
                return ("slice", x, lo, hi)
            return ("idx", x, self.expr(sl))
        raise Refuse("assignment target %s" % ast.dump(t)[:80])

    def block(self, body):
        return "[%s]" % ";\n      ".join(self.stmt(s) for s in body if not self.is_doc(s))

    @staticmethod
    def is_doc(s):
        return isinstance(s, ast.Expr) and isinstance(s.value, ast.Constant) and isinstance(s.value.value, str)

    def stmt(self, s):
        if isinstance(s, ast.Assign):
            if len(s.targets) != 1:
                raise Refuse("multiple assignment")
            t = self.target(s.targets[0])
            v = self.expr(s.value)
            if t[0] == "name":
                return "SAssign %s %s" % (q(t[1]), v)
            if t[0] == "idx":
                return "SIdxAssign %s %s %s" % (q(t[1]), t[2], v)
            return "SSliceAssign %s %s %s %s" % (q(t[1]), t[2], t[3], v)
        if isinstance(s, ast.AugAssign):
            if type(s.op) not in BINOPS:
                raise Refuse("augmented operator")
            t = self.target(s.target)
            v = self.expr(s.value)
            o = BINOPS[type(s.op)]
            if t[0] == "name":
                return "SAug %s %s %s" % (q(t[1]), o, v)
            if t[0] == "idx":
                return "SIdxAug %s %s %s %s" % (q(t[1]), t[2], o, v)
            return "SSliceAug %s %s %s %s %s" % (q(t[1]), t[2], t[3], o, v)
        if isinstance(s, ast.For):
            if s.orelse or not isinstance(s.target, ast.Name):
                raise Refuse("for-else / tuple target")
            it = s.iter
            if not (isinstance(it, ast.Call) and isinstance(it.func, ast.Name) and it.func.id == "range"
                    and not it.keywords and len(it.args) in (1, 2)):
                raise Refuse("loop over something other than range(a[, b])")
            lo = "(EInt 0%Z)" if len(it.args) == 1 else self.expr(it.args[0])
            hi = self.expr(it.args[-1])
            return "SFor %s %s %s\n      %s" % (q(s.target.id), lo, hi, self.block(s.body))
        if isinstance(s, ast.If):
            return "SIf %s %s %s" % (self.cond(s.test), self.block(s.body), self.block(s.orelse))
        if isinstance(s, ast.Continue):
            return "SContinue"
        if isinstance(s, ast.Return):
            if s.value is None:
                raise Refuse("bare return")
            return "SReturn %s" % self.expr(s.value)
        raise Refuse("statement %s" % type(s).__name__)


def translate(path):
    src = open(path).read()
    tree = ast.parse(src)
    found = {}
    for node in tree.body:
        if isinstance(node, ast.FunctionDef):
            if node.name in found:
                raise Refuse("function %s defined twice" % node.name)
            found[node.name] = node
    out = []
    tr = T(set(FUNCS))
    for name in FUNCS:
        if name not in found:
            raise Refuse("function %s not found" % name)
        fn = found[name]
        a = fn.args
        if a.vararg or a.kwarg or a.kwonlyargs or a.posonlyargs:
            raise Refuse("%s: unsupported parameter kinds" % name)
        # decorators: only @njit(...) / @njit
        for d in fn.decorator_list:
            dn = d.func if isinstance(d, ast.Call) else d
            if not (isinstance(dn, ast.Name) and dn.id == "njit"):
                raise Refuse("%s: decorator %s" % (name, ast.dump(d)[:60]))
        params = [x.arg for x in a.args]
        # defaults are only used by outside callers; inside the module every call is positional and complete
        body = tr.block(fn.body)
        out.append("  mkfun %s [%s]\n     %s" % (q(name), "; ".join(q(p) for p in params), body))
    text = ("(* GENERATED by harness/translate_kernel.py from tools/time_integration.py - do not edit *)\n"
            "From Coq Require Import QArith ZArith List String.\n"
            "From OSU.Model Require Import PyKernel.\n"
            "Import ListNotations.\nOpen Scope string_scope.\n\n"
            "Definition stencil_prog : program :=\n[\n" + ";\n".join(out) + "\n].\n")
    return text


def generate(repo, coqdir):
    text = translate(os.path.join(repo, "src", "ocean_science_utilities", "tools", "time_integration.py"))
    dst = os.path.join(coqdir, "Generated", "StencilProg.v")
    os.makedirs(os.path.dirname(dst), exist_ok=True)
    old = open(dst).read() if os.path.exists(dst) else None
    if old != text:
        with open(dst, "w") as f:
            f.write(text)
    return dst


if __name__ == "__main__":
    import sys
    print(translate(sys.argv[1]))
