"""Regenerate /verif/MANIFEST.json from the property modules (run after adding a property)."""
import importlib
import json
import os
import sys
sys.path.insert(0, os.path.dirname(os.path.abspath(__file__)))
import common as C

ALL = ["C%02d" % i for i in range(1, 21)]
have = sorted(f[:-3] for f in os.listdir(os.path.join(C.VERIF, "harness", "props")) if f.startswith("C") and f.endswith(".py"))
repo_commits = []
kf = os.path.join(C.VERIF, "known_findings.txt")
checks = []
ready = []
for pid in have:
    mod = importlib.import_module("props.%s" % pid)
    if not getattr(mod, "READY", False):
        continue
    ready.append(pid)
    checks.append({
        "property_id": pid,
        "quick_cmd": "./check %s --tier quick" % pid,
        "thorough_cmd": "./check %s --tier thorough" % pid,
        "evidence_file": "/verif/evidence/%s.json" % pid,
        "replay_cmd_template": "./check %s --replay {path}" % pid,
        "engine": "coq-proof+correspondence",
        "level_claimed": {
            "category": "proof",
            "text": getattr(mod, "LEVEL_TEXT", ""),
            "design_ref": getattr(mod, "DESIGN_REF", "DESIGN.md section 5 (%s)" % pid),
        },
        "level_note": getattr(mod, "LEVEL_NOTE", ""),
        "technique": getattr(mod, "TECHNIQUE", "machine-checked proof in Coq 8.16 about a Gallina model + correspondence check of the extracted model against the implementation"),
    })
na = [{"property_id": p, "reason": "no check registered yet for this property in this revision (see DESIGN.md section 10, status)"} for p in ALL if p not in ready]
m = {
    "version": 1,
    "setup_cmd": "./setup.sh",
    "hooks": {
        "guard": C.GUARD,
        "enable": "checks run the implementation with %s=1 in the environment; no hook code exists in /repo (the guard is unused)" % C.GUARD,
        "baseline_off_cmd": "cd /repo && /venv/bin/python -m pytest -ra -q -p no:cacheprovider --timeout=900 --continue-on-collection-errors",
        "source_commits": [],
        "add_only": True,
    },
    "engines": [{
        "name": "coq-proof+correspondence",
        "path": "/verif/check",
        "serves_properties": ready,
        "kind_free_text": "Coq 8.16.1 theorems over hand-written Gallina models (coq/), the same definitions extracted to OCaml and run against /repo's implementation on generated inputs (harness/), property oracles as failing-input search",
    }],
    "checks": checks,
    "notes": "Each check rebuilds the proof cone of coq/Properties/<id>.v (make, full .vo), asks the kernel for the assumptions of every theorem, runs the extracted model and the implementation of /repo's working tree on the same generated inputs, and evaluates the property's oracles on the implementation. known_findings.txt lists repaired defects (fix: commits in /repo) and open findings.",
}
if na:
    m["not_applicable"] = na
json.dump(m, open(os.path.join(C.VERIF, "MANIFEST.json"), "w"), indent=1)
print("claimed:", ready)
