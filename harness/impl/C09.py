"""Implementation-side runner for C09 (joint rotation): the batch cases of impl/C08.py (same payload)
plus, on request, the wind inversion (estimated U10 and direction from the source-term balance)."""
import os
import sys

sys.path.insert(0, os.path.dirname(os.path.abspath(__file__)))

import numpy as np  # noqa: E402

from implcommon import read_payload, emit, hx, guarded  # noqa: E402
from C08 import run_case, spectrum_of, da, merged, fl  # noqa: E402


def inversion(c):
    from ocean_science_utilities.wavephysics.balance.st4_wind_input import ST4WindInput
    from ocean_science_utilities.wavephysics.balance.st4_wave_breaking import ST4WaveBreaking
    from ocean_science_utilities.wavephysics.balance.st6_wave_breaking import ST6WaveBreaking
    from ocean_science_utilities.wavephysics.balance.balance import SourceTermBalance
    from ocean_science_utilities.wavephysics.balance.wind_inversion import windspeed_and_direction_from_spectra

    spec = spectrum_of(c)
    gen = merged(ST4WindInput, c.get("gen_par"))
    dis = merged(ST4WaveBreaking, c.get("st4_par")) if c.get("inv_diss", "st4") == "st4" else merged(ST6WaveBreaking, c.get("st6_par"))
    bal = SourceTermBalance(gen, dis)
    guess = da(spec, fl(c["inv_guess"]))
    r = windspeed_and_direction_from_spectra(bal, guess, spec)
    return {"u10": [hx(v) for v in np.asarray(r["u10"].values).reshape(-1)],
            "direction": [hx(v) for v in np.asarray(r["direction"].values).reshape(-1)]}


if __name__ == "__main__":
    P = read_payload()
    res = []
    for c in P["cases"]:
        out = guarded(lambda: run_case(c))
        if "inversion" in c.get("want", []) and isinstance(out, dict) and "error" not in out:
            out["inversion"] = guarded(lambda: inversion(c))
        res.append(out)
    emit({"results": res})
