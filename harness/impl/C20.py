import numpy as np
from implcommon import read_payload, emit, hx, unhx, guarded
from ocean_science_utilities.tools import time_integration as ti

P = read_payload()
out = []
for c in P["cases"]:
    if c["op"] == "stencil":
        out.append(guarded(lambda: [hx(v) for v in ti.integration_stencil(c["order"], c["n"])]))
    elif c["op"] == "integrate":
        t = np.array([unhx(v) for v in c["t"]], dtype=float).astype(c.get("tdtype", "float"))
        x = np.array([unhx(v) for v in c["x"]], dtype=float)
        out.append(guarded(lambda: [hx(v) for v in ti.integrate(t, x, c["order"], c["n"], unhx(c["start"]))]))
emit({"results": out})
