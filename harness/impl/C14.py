"""Implementation-side runner for C14: same operations as C13 (the interpolation code is shared)."""
import os
import sys

sys.path.insert(0, os.path.dirname(os.path.abspath(__file__)))
from C13 import main  # noqa: E402

if __name__ == "__main__":
    main()
