"""Implementation-side runner for C03: same operations as C02 (spec2d / spec1d)."""
import C02

if __name__ == "__main__":
    C02.main()
