"""helpers for the implementation-side runners (run inside /venv python with PYTHONPATH=/repo/src)"""
import json
import math
import sys


def read_payload():
    return json.loads(sys.stdin.read())


LABEL_PROBLEMS = []


def emit(obj):
    if LABEL_PROBLEMS and isinstance(obj, dict):
        obj["label_problems"] = LABEL_PROBLEMS[:40]
    sys.stdout.write("\n@@JSON " + json.dumps(obj) + "\n")
    sys.stdout.flush()


def audit(what, result, owner, dims=None, call=None):
    """A result is only right if every number is attached to the right point: the labelled arrays the library
    returns must carry the dimensions of the object they were computed from, in its order, with its coordinate
    VALUES (not positions, not sorted or rounded copies).  `owner` is the xarray object / Dataset that defines
    the labels; `dims` the expected dimension names (default: the result's dims must be a sub-sequence of the
    owner's dims, in the same order).  Problems are collected and reported by the harness as property failures."""
    import numpy as np
    try:
        rd = [str(d) for d in result.dims]
    except AttributeError:
        return
    ods = owner.dataset if hasattr(owner, "dataset") else owner
    def note(msg):
        if len(LABEL_PROBLEMS) < 40:
            LABEL_PROBLEMS.append({"what": what, "problem": msg, "call": call})
    if dims is not None:
        if rd != [str(d) for d in dims]:
            note("dimensions %r, expected %r" % (rd, [str(d) for d in dims]))
            return
    else:
        od = [str(d) for d in ods.dims] if not hasattr(ods, "data_vars") else None
    for d in rd:
        if d in ods.coords and d in getattr(ods, "dims", {}):
            want = np.asarray(ods.coords[d].values)
            if d not in result.coords:
                if result.sizes[d] == want.shape[0]:
                    note("dimension %r carries no coordinate: values can only be read by position" % d)
                continue
            got = np.asarray(result.coords[d].values)
            if got.shape != want.shape:
                note("coordinate %r has %d labels, the input has %d" % (d, got.shape[0], want.shape[0]))
            else:
                try:
                    same = bool(np.all((got == want) | ((got != got) & (want != want))))
                except Exception:  # noqa
                    same = bool(np.array_equal(got, want))
                if not same:
                    note("coordinate %r is %s..., the input's is %s..." % (d, str(got[:4]), str(want[:4])))


def hx(x):
    x = float(x)
    if math.isnan(x):
        return "nan"
    if math.isinf(x):
        return "inf" if x > 0 else "-inf"
    return x.hex()


def unhx(t):
    if isinstance(t, (int, float)):
        return float(t)
    if t in ("nan", "-nan"):
        return float("nan")
    if t in ("inf", "infinity"):
        return float("inf")
    if t in ("-inf", "-infinity"):
        return float("-inf")
    return float.fromhex(t)


def guarded(f):
    """run f(); exceptions become {'error': type, 'msg': ...}"""
    try:
        return f()
    except Exception as e:  # noqa
        return {"error": type(e).__name__, "msg": str(e)[:300]}
