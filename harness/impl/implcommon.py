"""helpers for the implementation-side runners (run inside /venv python with PYTHONPATH=/repo/src)"""
import json
import math
import sys


def read_payload():
    return json.loads(sys.stdin.read())


def emit(obj):
    sys.stdout.write("\n@@JSON " + json.dumps(obj) + "\n")
    sys.stdout.flush()


def hx(x):
    x = float(x)
    if math.isnan(x):
        return "nan"
    if math.isinf(x):
        return "inf" if x > 0 else "-inf"
    return x.hex()


def unhx(t):
    if isinstance(t, (int, float)):
        return float(t)
    if t in ("nan", "-nan"):
        return float("nan")
    if t in ("inf", "infinity"):
        return float("inf")
    if t in ("-inf", "-infinity"):
        return float("-inf")
    return float.fromhex(t)


def guarded(f):
    """run f(); exceptions become {'error': type, 'msg': ...}"""
    try:
        return f()
    except Exception as e:  # noqa
        return {"error": type(e).__name__, "msg": str(e)[:300]}
