"""C11 implementation runner: wind inversion (wavephysics/balance/wind_inversion.py), the hybrid
Newton solver (balance/solvers.py) and the dissipation direction (balance/dissipation.py).
One process for all cases (numba compilation is paid once).  JSON in, JSON out."""
import math
import numpy as np
import numba
from datetime import datetime, timezone, timedelta

from implcommon import read_payload, emit, hx, unhx, guarded

from ocean_science_utilities.wavephysics.balance.solvers import numba_newton_raphson as NR

P = read_payload()


def hxl(a):
    return [hx(v) for v in np.asarray(a, dtype=float).ravel()]


# ---------------------------------------------------------------------------------------------
# (a) the solver on analytic functions.  The function is handed over exactly as the library does:
# a jitted first-class function plus a tuple of trailing arguments.
# ---------------------------------------------------------------------------------------------
@numba.njit
def fam(x, kind, a, b, c):
    if kind == 0:
        return a * x + b
    elif kind == 1:
        return a * x * x * x + b * x + c
    elif kind == 2:
        return min(max(a * (x - b), -c), c)
    elif kind == 3:
        return np.sin(a * x) + b
    elif kind == 4:
        return a * x * x + b
    elif kind == 5:
        if x > a:
            raise ValueError("boom")
        return x - b
    elif kind == 6:
        return np.exp(a * x) - b
    elif kind == 7:
        if x < a:
            return -b
        return c
    elif kind == 8:
        return abs(x - a) - b
    elif kind == 9:
        return a * x * x - b * x + c
    elif kind == 100:
        return np.nan
    return 0.0


def run_newton(c):
    args = (int(c["kind"]), unhx(c["a"]), unhx(c["b"]), unhx(c["c"]))
    try:
        x = NR(fam, unhx(c["guess"]), args, (unhx(c["lo"]), unhx(c["hi"])), int(c["maxit"]), bool(c["aitken"]),
               unhx(c["atol"]), unhx(c["rtol"]), unhx(c["step"]), False, bool(c["eom"]), bool(c["relstep"]), "",
               unhx(c["relax"]))
        return {"x": hx(x)}
    except Exception as e:  # noqa
        return {"exc": type(e).__name__, "msg": str(e)[:80]}


# ---------------------------------------------------------------------------------------------
# toy source terms: analytic generation / dissipation / tail stress so that the REAL driver
# (_u10_from_bulk_rate_point, _u10_from_spectra_point, _u10_from_spectra) runs on a balance the Coq model
# can evaluate itself.   G = E * amp * h(u) * (1 + q cos(dir - d0))
# ---------------------------------------------------------------------------------------------
@numba.njit
def toy_wind(variance_density, wind, depth, roughness_length, spectral_grid, parameters, wind_source=None):
    u = wind[0]
    kind = parameters["toy_kind"]
    a = parameters["toy_a"]
    b = parameters["toy_b"]
    if kind == 0.0:
        hh = u * u * a
    elif kind == 1.0:
        hh = u * u * (a + b * np.sin(u))
    elif kind == 2.0:
        hh = min(max(u * u * a, b), 16 * b)
    elif kind == 3.0:
        hh = u * u * a / (1 + b * u)
    else:
        hh = u * u * a
    h = parameters["toy_amp"] * hh * (1 + parameters["toy_q"] * np.cos((wind[1] - parameters["toy_d0"]) * np.pi / 180))
    return variance_density * h


@numba.njit
def toy_tail(variance_density, wind, depth, roughness_length, spectral_grid, parameters):
    return 0.0, 0.0


@numba.njit
def toy_diss(variance_density, depth, spectral_grid, parameters):
    return -parameters["toy_dc"] * variance_density


def nb_params(d):
    out = numba.typed.Dict.empty(key_type=numba.types.unicode_type, value_type=numba.types.float64)
    for k, v in d.items():
        out[k] = float(v)
    return out


def toy_common(c):
    from ocean_science_utilities.wavephysics.balance.source_term import _spectral_grid
    from ocean_science_utilities.wavephysics.fluidproperties import AIR, WATER, GRAVITATIONAL_ACCELERATION
    th = np.array([unhx(v) for v in c["theta"]])
    df = np.array([unhx(v) for v in c["df"]])
    dth = np.array([unhx(v) for v in c["dth"]])
    w = np.array([unhx(v) for v in c["omega"]])
    grid = _spectral_grid(w, th, df, dth)
    par = dict(gravitational_acceleration=GRAVITATIONAL_ACCELERATION, air_density=AIR.density,
               water_density=WATER.density, vonkarman_constant=AIR.vonkarman_constant, elevation=10.0,
               air_viscosity=AIR.kinematic_viscosity, viscous_stress_parameter=0.0,
               toy_kind=float(c["kind"]), toy_a=unhx(c["a"]), toy_b=unhx(c["b"]), toy_q=unhx(c["q"]),
               toy_d0=unhx(c["d0"]), toy_amp=unhx(c["amp"]), toy_dc=unhx(c.get("dc", 0.0)))
    return th, df, dth, w, grid, par


def toy_constants(c):
    """amp such that the wave-supported stress of the toy field is rho_a (kappa u)^2 s(u): the
    implementation's roughness solve (which the toy field ignores) then has a root in its (-20,0) window;
    also the stress direction (the direction iteration's fixed point)."""
    from ocean_science_utilities.wavephysics.fluidproperties import AIR, WATER, GRAVITATIONAL_ACCELERATION
    th = np.array([unhx(v) for v in c["theta"]])
    df = np.array([unhx(v) for v in c["df"]])
    dth = np.array([unhx(v) for v in c["dth"]])
    w = np.array([unhx(v) for v in c["omega"]])
    E = np.array([unhx(v) for v in c["E"]]).reshape(len(df), len(dth))
    k = w ** 2 / GRAVITATIONAL_ACCELERATION
    inv_c = (k / w) * df
    se = float(np.sum(E * inv_c[:, None] * (np.cos(th) * dth)[None, :]))
    sn = float(np.sum(E * inv_c[:, None] * (np.sin(th) * dth)[None, :]))
    cvd = GRAVITATIONAL_ACCELERATION * WATER.density * math.hypot(se, sn)
    amp = AIR.density * AIR.vonkarman_constant ** 2 / cvd
    return {"amp": hx(amp), "sdir": hx((math.atan2(sn, se) * 180 / math.pi) % 360)}


def run_toybulk(c):
    from ocean_science_utilities.wavephysics.balance import wind_inversion as wi
    from ocean_science_utilities.wavephysics.balance.stress import _total_stress_point, _roughness_estimate_point
    th, df, dth, w, grid, par = toy_common(c)
    E = np.array([unhx(v) for v in c["E"]]).reshape(len(df), len(dth))
    T = np.array([unhx(v) for v in c["T"]]).reshape(len(df), len(dth))
    p = nb_params(par)
    u, d = wi._u10_from_bulk_rate_point(unhx(c["target"]), E, unhx(c["guess"]), unhx(c["gdir"]), np.inf, grid, p,
                                        toy_wind, toy_tail, T, bool(c["diriter"]))
    out = {"u10": hx(u), "dir": hx(d)}
    # the stress direction the implementation itself computes for this field (input of the model)
    try:
        uu = 10.0
        z0 = _roughness_estimate_point(-1.0, E, (uu, unhx(c["gdir"]), "u10"), np.inf, toy_wind, toy_tail, grid, p)
        _, nd = _total_stress_point(z0, E, (uu, unhx(c["gdir"]), "u10"), np.inf, toy_wind, toy_tail, grid, p)
        out["newdir"] = hx(nd)
    except Exception as e:  # noqa
        out["newdir_exc"] = type(e).__name__
    return out


def run_toypoints(c):
    from ocean_science_utilities.wavephysics.balance import wind_inversion as wi
    th, df, dth, w, grid, par = toy_common(c)
    nf, nd = len(df), len(dth)
    Es = np.array([[unhx(v) for v in e] for e in c["Es"]]).reshape(len(c["Es"]), nf, nd)
    T = np.array([unhx(v) for v in c["T"]]).reshape(nf, nd)
    Ts = np.repeat(T[None, :, :], len(Es), axis=0)
    guess = np.array([unhx(v) for v in c["guess"]])
    depth = np.full(len(Es), np.inf)
    p = nb_params(par)
    u, d = wi._u10_from_spectra(Es, guess, depth, toy_wind, toy_tail, toy_diss, p, p, grid, None, Ts, bool(c["diriter"]))
    return {"u10": hxl(u), "dir": hxl(d)}


# ---------------------------------------------------------------------------------------------
# (b) the real source terms
# ---------------------------------------------------------------------------------------------
_BAL = {}


def balance_of(pair):
    from ocean_science_utilities.wavephysics.balance.factory import create_balance
    key = tuple(pair)
    if key not in _BAL:
        _BAL[key] = create_balance(pair[0], pair[1])
    return _BAL[key]


def make_batch(c):
    from ocean_science_utilities.wavespectra.parametric import create_frequency_shape, create_directional_shape
    from ocean_science_utilities.wavespectra.spectrum import create_2d_spectrum
    f = np.linspace(unhx(c["fmin"]), unhx(c["fmax"]), int(c["nf"]))
    if c.get("fgrid") == "log":
        # the logarithmic frequency grid of spectral wave models: bin widths grow with frequency
        f = unhx(c["fmin"]) * (unhx(c["fmax"]) / unhx(c["fmin"])) ** (np.arange(int(c["nf"])) / (int(c["nf"]) - 1.0))
    d = np.linspace(0, 360, int(c["nd"]), endpoint=False)
    vds = []
    for s in c["specs"]:
        m0 = (unhx(s["hs"]) / 4) ** 2
        Ef = create_frequency_shape("jonswap", unhx(s["fp"]), m0, gamma=unhx(s["gamma"])).values(f)
        D = create_directional_shape("raised_cosine", unhx(s["dir"]), unhx(s["width"])).values(d)
        vd = Ef[:, None] * D[None, :]
        if s.get("swell"):
            sw = s["swell"]
            m0s = (unhx(sw["hs"]) / 4) ** 2
            Es = create_frequency_shape("jonswap", unhx(sw["fp"]), m0s, gamma=3.3).values(f)
            Ds = create_directional_shape("raised_cosine", unhx(sw["dir"]), 15.0).values(d)
            vd = vd + Es[:, None] * Ds[None, :]
        vds.append(vd)
    vd = np.array(vds)
    n = len(vds)
    t0 = datetime(2022, 1, 1, tzinfo=timezone.utc)
    times = [t0 + timedelta(hours=i) for i in range(n)]
    depth = np.array([unhx(s["depth"]) for s in c["specs"]])

    ded = None

    def mk(arr, idx):
        if arr is ded and ded is not None:
            # the rate-of-change spectrum comes from another processing chain: the same grid, but its frequency labels
            # were computed as f0 + i*df (a rounding apart from linspace) and it is stamped at mid-interval.  It is
            # used bin by bin; labels that are not bit-identical must not make its values disappear.
            f2 = f.copy()
            f2[1::2] = np.nextafter(f2[1::2], np.inf)
            return create_2d_spectrum(f2, d, arr[idx], [times[i] + timedelta(minutes=30) for i in idx],
                                      np.zeros(len(idx)), np.zeros(len(idx)), depth=depth[idx])
        return create_2d_spectrum(f, d, arr[idx], [times[i] for i in idx], np.zeros(len(idx)), np.zeros(len(idx)),
                                  depth=depth[idx])
    if c.get("dedt"):
        q = c["dedt"]
        c1, c2, c3 = unhx(q["c1"]), unhx(q["c2"]), unhx(q["c3"])
        sh = int(c["nd"]) // 2
        ded = c1 * vd + c2 * np.roll(vd, sh, axis=2) + c3 * vd.max(axis=(1, 2))[:, None, None]
    return f, d, vd, depth, ded, mk


def twin_run(wi, args, guess):
    """run the repo's own solver source as plain Python on the jitted balance function with the same arguments as the
    inversion; returns (x or None, the roughness memory list as the solver left it, evaluation points)"""
    pts = []

    def F(u, *a):
        pts.append(float(u))
        return wi._u10_iteration_function(u, *a)
    try:
        x = NR.py_func(F, guess, args, (0, np.inf), 100, True, 1.0e-2, 1.0, 1e-3)
        return float(x), args[0], pts
    except Exception:  # noqa
        return None, args[0], pts


def classify_nan(wi, args, guess):
    """why did the inversion give NaN?  Re-run the repo's own solver source as plain Python (py_func) on the
    jitted balance function and report whether the balance function itself raised at a visited iterate."""
    state = {"raised_at": None}

    def F(u, *a):
        try:
            return wi._u10_iteration_function(u, *a)
        except Exception:  # noqa
            state["raised_at"] = float(u)
            raise
    try:
        x = NR.py_func(F, guess, args, (0, np.inf), 100, True, 1.0e-2, 1.0, 1e-3)
        return {"twin": "converged", "x": hx(x)}
    except Exception as e:  # noqa
        if state["raised_at"] is not None:
            return {"twin": "balance-raised", "at": hx(state["raised_at"])}
        return {"twin": "solver-raised", "msg": (type(e).__name__ + ":" + str(e))[:60]}


def run_real(c):
    from ocean_science_utilities.wavephysics.windestimate import estimate_u10_from_source_terms, estimate_u10_from_spectrum
    from ocean_science_utilities.wavephysics.balance import wind_inversion as wi
    from ocean_science_utilities.wavephysics.balance.stress import _roughness_estimate_point
    from ocean_science_utilities.wavespectra.operations import numba_integrate_spectral_data
    from ocean_science_utilities.wavetheory.lineardispersion import inverse_intrinsic_dispersion_relation
    import xarray
    bal = balance_of(c["pair"])
    f, d, vd, depth, ded, mk = make_batch(c)
    n = vd.shape[0]
    allidx = list(range(n))
    spec = mk(vd, allidx)
    dspec = mk(ded, allidx) if ded is not None else None
    diriter = bool(c.get("diriter", False))
    res = estimate_u10_from_source_terms(spec, bal, time_derivative_spectrum=dspec, direction_iteration=diriter)
    u10 = np.asarray(res["u10"].values, dtype=float)
    dr = np.asarray(res["direction"].values, dtype=float)
    out = {"u10": hxl(u10), "dir": hxl(dr), "dims": list(res["u10"].dims)}
    guess = estimate_u10_from_spectrum(spec, "peak", direction_convention="going_to_counter_clockwise_east")["u10"].values
    out["guess"] = hxl(guess)
    # batch == single
    su, sd = [], []
    for i in (allidx if c.get("singles", True) else []):
        r1 = estimate_u10_from_source_terms(mk(vd, [i]), bal,
                                            time_derivative_spectrum=(mk(ded, [i]) if ded is not None else None),
                                            direction_iteration=diriter)
        su.append(float(r1["u10"].values[0]))
        sd.append(float(r1["direction"].values[0]))
    out["single_u10"] = hxl(su)
    out["single_dir"] = hxl(sd)
    # the implementation's own dissipation (public API) and grid
    gen, dis = bal.generation, bal.dissipation
    bd = np.asarray(dis.bulk_rate(spec).values, dtype=float)
    Dfield = np.asarray(dis.rate(spec).values, dtype=float)
    mdir = np.asarray(dis.mean_direction_degrees(spec).values, dtype=float)
    grid = gen.spectral_grid(spec)
    pg = gen.parameters
    out["bulk_diss"] = hxl(bd)
    out["mean_dir"] = hxl(mdir)
    out["theta"] = hxl(grid["radian_direction"])
    out["df"] = hxl(grid["frequency_step"])
    out["dth"] = hxl(grid["direction_step"])
    scan = [unhx(v) for v in c["scan"]]
    nfield = int(c.get("nfield", n))
    pts = []
    zeros = np.zeros(vd[0].shape)
    for i in range(n):
        pt = {}
        T = ded[i] if ded is not None else zeros
        wsf, tsf = gen._wind_source_term_function, gen._tail_stress_parametrization_function

        def args_for(direction, mem):
            return (mem, vd[i], (10.0, direction, "u10"), depth[i], wsf, tsf, grid, pg, -bd[i], T)

        def Fval(u, direction, mem):
            try:
                return float(wi._u10_iteration_function(u, *args_for(direction, mem)))
            except Exception:  # noqa
                return float("nan")
        k = inverse_intrinsic_dispersion_relation(grid["radian_frequency"], depth[i])
        if i < nfield:
            pt["k"] = hxl(k)
            pt["D"] = hxl(Dfield[i])
            pt["T"] = hxl(T)
        # scan of the balance along the dissipation direction (memory carried like the solver does)
        mem = [-1.0]
        pt["scan"] = hxl([Fval(u, float(mdir[i]), mem) for u in scan])
        ui, di = float(u10[i]), float(dr[i])
        if math.isfinite(ui) and ui > 0 and math.isfinite(di):
            Ft = [Fval(ui - 0.01, di, [-1.0]), Fval(ui, di, [-1.0]), Fval(ui + 0.01, di, [-1.0])]
            pt["F_wide"] = hxl([Fval(ui - 0.02, di, [-1.0]), Fval(ui + 0.02, di, [-1.0])])
            if any(v != v for v in Ft):
                # the roughness solver does not start from its default guess here: warm its memory like the
                # inversion does (walk down from higher winds)
                mem = [-1.0]
                for uu in (12.0, 9.0, 7.0, 5.0, 4.0, 3.0, 2.5, 2.0, 1.7, 1.4, 1.2, 1.0):
                    if uu > ui + 0.2:
                        Fval(uu, di, mem)
                Ft = [Fval(ui + 0.01, di, mem), Fval(ui, di, mem), Fval(ui - 0.01, di, mem)][::-1]
                pt["F_warm"] = True
            pt["F"] = hxl(Ft)
            # the balance as the inversion itself saw it: the roughness solver is started from the roughness remembered
            # along the solver's path (the stress balance can have several roots; a fresh start may find another one)
            xt, memw, evs = twin_run(wi, args_for(float(mdir[i]), [-1.0]), float(guess[i]))
            pt["twin_passes"] = len(evs)
            # the run ended with a step of exactly zero: the returned value is an iterate that had been evaluated before
            pt["zero_step"] = bool(xt is not None and any(e == xt for e in evs[-2:]))
            if xt is not None and abs(xt - ui) <= 1e-9 * max(1.0, abs(ui)):
                order = (0.0, -0.01, 0.01, -0.02, 0.02, -0.05, 0.05)
                vals = {dd: Fval(ui + dd, di, memw) for dd in order}
                pt["Fw"] = hxl([vals[-0.05], vals[-0.02], vals[-0.01], vals[0.0], vals[0.01], vals[0.02], vals[0.05]])
            else:
                pt["twin_x"] = hx(xt) if xt is not None else "none"
            # the same balance from the public API
            one = mk(vd, [i])
            dims = res["u10"].dims
            ua = xarray.DataArray(data=np.array([ui]), dims=dims)
            da = xarray.DataArray(data=np.array([di]), dims=dims)
            try:
                pt["pub_in"] = hx(float(gen.bulk_rate(one, ua, da).values[0]))
            except Exception as e:  # noqa
                pt["pub_in"] = "nan"
            # generation field at the returned wind, for the model's balance function
            try:
                z0 = _roughness_estimate_point(-1.0, vd[i], (ui, di, "u10"), depth[i], wsf, tsf, grid, pg)
                G = wsf(vd[i], (ui, di, "u10"), depth[i], z0, grid, pg)
                pt["bulk_in"] = hx(float(numba_integrate_spectral_data(G, grid)))
                pt["act"] = hx(float(wi.spectral_time_derivative_in_active_region(T, G, grid)))
                wgt = np.asarray(grid["frequency_step"])[:, None] * np.asarray(grid["direction_step"])[None, :]
                pt["act_indep"] = hx(float(np.sum(np.where(G > 0.0, T, 0.0) * wgt)))
                pt["in_indep"] = hx(float(np.sum(G * wgt)))
                pt["in_abs"] = hx(float(np.sum(np.abs(G) * wgt)))
                pt["act_abs"] = hx(float(np.sum(np.abs(T) * wgt)))
                if i < nfield:
                    pt["G"] = hxl(G)
            except Exception as e:  # noqa
                pt["G_exc"] = type(e).__name__
        elif math.isnan(ui) and bd[i] != 0.0 and not diriter:
            pt["why"] = classify_nan(wi, args_for(float(mdir[i]), [-1.0]), float(guess[i]))
        pts.append(pt)
    out["points"] = pts
    return out


OPS = {"newton": run_newton, "toyconst": toy_constants, "toybulk": run_toybulk, "toypoints": run_toypoints,
       "real": run_real}
results = []
for case in P["cases"]:
    results.append(guarded(lambda: OPS[case["op"]](case)))
emit({"results": results})
