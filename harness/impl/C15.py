"""C15 implementation runner: a monitor around wavespectra.spectrum / operations of the repo under test.

payload {"programs": [program, ...], "tmpdir": path}
program = {"init": {"cls": 1|2, "layout": "time"|"single"|"grid", "nt", "nlat", "nf", "nd", "seed", "nan": 0..2,
                    "depth": "inf"|"mixed"|"finite", "allnan": bool},
           "ops": [{"op": name, "a": int, "b": int, "p": int, "q": int, "x": float}, ...]}
Operand selectors and parameters are raw non-negative integers; they are reduced modulo what is applicable
on the live objects, and the resolved operation is reported back.  After EVERY call (also a raising one)
all live objects are snapshotted (variable set, dims, dtype, shape, bytes, coords, attrs) and compared with
their snapshot before the call.

result per program: {"init": info, "steps": [step, ...]},
step = {"op", "a", "b", "params", "status": "ok"|"error", "error", "returned": "new"|"self"|"none"|"other",
        "new_id", "changed": [ids], "changed_detail", "same_dataset_as": [ids], "checks": [failed check texts],
        "share": [[var, srcid, srcvar, writeable]], "writethrough": [..], "digest": {...}}
"""
import copy
import hashlib
import os
import warnings
from datetime import datetime, timedelta, timezone

import numpy as np
import xarray

from implcommon import read_payload, emit, guarded

warnings.filterwarnings("ignore")

from ocean_science_utilities.wavespectra import spectrum as S            # noqa: E402
from ocean_science_utilities.wavespectra.operations import concatenate_spectra   # noqa: E402

SPECTRAL = ("variance_density", "a1", "b1", "a2", "b2")


# ---------------------------------------------------------------------------------------------
# construction
# ---------------------------------------------------------------------------------------------

def make(init):
    rng = np.random.default_rng(init["seed"])
    nf, nd, nt, nlat = init["nf"], init["nd"], init["nt"], init["nlat"]
    f = 0.04 + 0.03 * np.arange(nf) + 0.001 * rng.integers(0, 5)
    d = np.linspace(0, 360, nd, endpoint=False)
    t0 = datetime(2000 + init["seed"] % 60, 1 + init["seed"] % 12, 1 + init["seed"] % 28, tzinfo=timezone.utc)
    layout = init["layout"]
    if layout == "single":
        lead = ()
    elif layout == "time":
        lead = (nt,)
    else:
        lead = (nt, nlat)
    spec_shape = lead + ((nf,) if init["cls"] == 1 else (nf, nd))

    def arr(shape, lo=0.0, hi=1.0):
        return lo + (hi - lo) * rng.random(shape)
    e = arr(spec_shape, 0.0, 2.0)
    moments = [arr(spec_shape, -0.7, 0.7) for _ in range(4)]
    if init["seed"] % 3 == 0:
        # measured moments are noisy: a few lie (slightly) outside [-1, 1]; they are data like any other and an
        # operation may not "repair" them inside its operand
        for m_, val in ((moments[0], 1.02), (moments[3], -1.01), (moments[1], 1.5)):
            flat_ = m_.reshape(-1)
            flat_[init["seed"] % flat_.size] = val
    # NaN values: scattered entries; optionally one whole spectrum (an "invalid" one)
    if init["nan"] >= 1:
        flat = e.reshape(-1)
        for _ in range(1 + init["nan"]):
            flat[rng.integers(0, flat.size)] = np.nan
        m = moments[rng.integers(0, 4)].reshape(-1)
        m[rng.integers(0, m.size)] = np.nan
    if init.get("allnan") and lead:
        idx = tuple(int(rng.integers(0, n)) for n in lead)
        e[idx] = np.nan
    times = [t0 + timedelta(hours=3 * i) for i in range(max(nt, 1))]
    if init["seed"] % 4 == 1:
        # time stamps as a logger writes them: irregular microseconds (the constructors keep whole seconds)
        times = [t + timedelta(microseconds=(init["seed"] * 7919 * (i + 1)) % 999983) for i, t in enumerate(times)]
    if layout == "single":
        time, lat, lon = times[0], float(arr((), -60, 60)), float(arr((), -180, 180))
        dshape = ()
    elif layout == "time":
        time, lat, lon = times[:nt], arr((nt,), -60, 60), arr((nt,), -180, 180)
        dshape = (nt,)
    else:
        time, lat, lon = times[:nt], np.sort(arr((nlat,), -60, 60)), arr((nt, nlat), -180, 180)
        dshape = (nt, nlat)
    if init["depth"] == "inf":
        depth = np.full(dshape, np.inf) if dshape else np.inf
    elif init["depth"] == "finite":
        depth = arr(dshape, 5, 4000) if dshape else float(arr((), 5, 4000))
    else:
        depth = arr(dshape, 5, 4000) if dshape else np.inf
        if dshape:
            dd = depth.reshape(-1)
            dd[rng.integers(0, dd.size)] = np.inf
    dims1 = {"single": ("frequency",), "time": ("time", "frequency"), "grid": ("time", "latitude", "frequency")}[layout]
    if init["cls"] == 1:
        return S.create_1d_spectrum(f, e, time, lat, lon, moments[0], moments[1], moments[2], moments[3],
                                    depth=depth, dims=dims1)
    return S.create_2d_spectrum(f, d, e, time, lat, lon, dims=dims1 + ("direction",), depth=depth)


# ---------------------------------------------------------------------------------------------
# snapshots
# ---------------------------------------------------------------------------------------------

def snap(obj):
    ds = obj.dataset
    out = {}
    for k in list(ds.variables):
        v = ds[k]
        a = np.asarray(v.values)
        out[str(k)] = (a.dtype.str, tuple(a.shape), tuple(str(x) for x in v.dims),
                       hashlib.sha1(np.ascontiguousarray(a).tobytes()).hexdigest())
    out["@coords"] = tuple(sorted(str(c) for c in ds.coords))
    out["@attrs"] = repr(sorted((str(k), repr(v)) for k, v in ds.attrs.items()))
    out["@class"] = type(obj).__name__
    return out


def snap_diff(a, b):
    keys = sorted(set(a) | set(b))
    return [k for k in keys if a.get(k) != b.get(k)]


def raw(obj, name):
    return np.asarray(obj.dataset[name].values)


def eq_arrays(a, b):
    a = np.asarray(a); b = np.asarray(b)
    return a.dtype == b.dtype and a.shape == b.shape and a.tobytes() == b.tobytes()


def point_digest(vals):
    h = hashlib.sha1()
    for v in vals:
        a = np.ascontiguousarray(np.asarray(v))
        h.update(a.dtype.str.encode()); h.update(repr(a.shape).encode()); h.update(a.tobytes())
    return h.hexdigest()[:16]


def lead_dims(obj):
    return list(obj.dims_space_time)


def nspec(obj):
    return len(obj.dims_spectral)


# ---------------------------------------------------------------------------------------------
# one operation
# ---------------------------------------------------------------------------------------------

DEEPCOPY_WAYS = ["copy()", "copy(deep=True)", "copy.deepcopy", "__deepcopy__({})"]


def sharing(res, live, only=None):
    out = []
    for rv in res.dataset.variables:
        ra = res.dataset[rv].values
        for k, ob in enumerate(live):
            if only is not None and k != only:
                continue
            for sv in ob.dataset.variables:
                try:
                    if np.shares_memory(ra, ob.dataset[sv].values):
                        out.append([str(rv), k, str(sv), bool(np.asarray(ra).flags.writeable)])
                except Exception:  # noqa
                    pass
    return out


def writethrough(src_obj, make_copy):
    """write into every writeable buffer of a fresh deep copy; the source must not notice"""
    before = snap(src_obj)
    c = make_copy()
    touched = []
    for v in c.dataset.variables:
        a = c.dataset[v].values
        if isinstance(a, np.ndarray) and a.flags.writeable and a.size:
            try:
                if a.dtype.kind == "f":
                    a[...] = -12345.0
                elif a.dtype.kind == "M":
                    a[...] = np.datetime64(0, "ns")
                else:
                    a[...] = 0
                touched.append(str(v))
            except Exception:  # noqa
                pass
    after = snap(src_obj)
    return snap_diff(before, after), touched


def do_op(o, live, tmpdir, counter):
    """returns (resolved description dict, callable result or exception holder)"""
    name = o["op"]
    n = len(live)
    ai = o["a"] % n
    a = live[ai]
    info = {"op": name, "a": ai, "b": None, "params": {}}
    checks = []
    extra = {}
    lead = lead_dims(a)

    def same_sig(x, y):
        return type(x) is type(y) and x.dims == y.dims and x.shape() == y.shape()

    if name in ("add", "sub"):
        cands = [k for k in range(n) if same_sig(live[k], a)]
        bi = cands[o["b"] % len(cands)]
        b = live[bi]
        info["b"] = bi
        r = (a + b) if name == "add" else (a - b)
        aligned = all(eq_arrays(raw(a, dm), raw(b, dm)) for dm in a.dims)
        if aligned:
            want = raw(a, "variance_density") + raw(b, "variance_density") if name == "add" else raw(a, "variance_density") - raw(b, "variance_density")
            if not eq_arrays(raw(r, "variance_density"), want):
                checks.append("%s: variance density is not a %s b element by element" % (name, "+" if name == "add" else "-"))
            for v in a.dataset.variables:
                if v != "variance_density" and not eq_arrays(raw(r, v), raw(a, v)):
                    checks.append("%s: variable %s of the result differs from the left operand" % (name, v))
        return info, r, checks, extra
    if name == "neg":
        r = -a
        if not eq_arrays(raw(r, "variance_density"), -raw(a, "variance_density")):
            checks.append("neg: variance density is not negated element by element")
        return info, r, checks, extra
    if name == "copy":
        way = DEEPCOPY_WAYS[o["p"] % 4]
        info["params"]["how"] = way
        mk = {"copy()": lambda: a.copy(), "copy(deep=True)": lambda: a.copy(deep=True),
              "copy.deepcopy": lambda: copy.deepcopy(a), "__deepcopy__({})": lambda: a.__deepcopy__({})}[way]
        r = mk()
        d = snap_diff(snap(a), snap(r))
        if d:
            checks.append("deep copy differs from its source in %s" % d)
        extra["share"] = [s for s in sharing(r, live, only=ai) if s[3]]      # writeable shared buffers
        wt, touched = writethrough(a, mk)
        extra["writethrough"] = wt
        extra["touched"] = touched
        return info, r, checks, extra
    if name == "mul":
        inplace = bool(o["p"] % 2)
        mode = ["full", "frequency", "lead"][o["q"] % 3]
        info["params"].update({"inplace": inplace, "mode": mode})
        if mode == "frequency" or (mode == "lead" and not lead):
            arr = 0.5 + 0.25 * np.arange(len(a.frequency))
            r = a.multiply(arr, ["frequency"], inplace=inplace)
        elif mode == "lead":
            arr = 1.0 + np.arange(a.dataset[lead[0]].shape[0]) * 0.5
            r = a.multiply(arr, [lead[0]], inplace=inplace)
        else:
            r = a.multiply(np.full(a.shape(), float(o["x"])), inplace=inplace)
        return info, r, checks, extra
    if name == "fillna":
        info["params"]["value"] = float(o["x"])
        had_nan = any(bool(np.isnan(raw(a, v)).any()) for v in SPECTRAL if v in a.dataset)
        extra["had_nan"] = had_nan
        r = a.fillna(float(o["x"]))
        if any(bool(np.isnan(raw(a, v)).any()) for v in SPECTRAL if v in a.dataset) and not np.isnan(float(o["x"])):
            checks.append("fillna left NaN values in the spectral variables")
        return info, r, checks, extra
    if name == "getitem":
        if lead:
            i = o["p"] % a.dataset[lead[0]].shape[0]
            use_slice = (o["q"] % 4 == 0)
            first = slice(i, i + 1) if use_slice else i
            item = (first,) + (slice(None),) * (len(a.dims) - 1)
            info["params"]["item"] = repr(item)
            r = a[item]
            for v in a.dataset.data_vars:
                src = raw(a, v)
                want = src[first] if src.ndim >= 1 and a.dataset[v].dims[:1] == (lead[0],) else src
                if not eq_arrays(raw(r, v), want):
                    checks.append("__getitem__[%r]: variable %s is not element %r of the source" % (first, v, first))
        else:
            item = (slice(None),) * len(a.dims)
            info["params"]["item"] = repr(item)
            r = a[item] if len(a.dims) > 1 else a[slice(None)]
            for v in a.dataset.data_vars:
                if not eq_arrays(raw(r, v), raw(a, v)):
                    checks.append("__getitem__[:]: variable %s differs from the source" % v)
        return info, r, checks, extra
    if name in ("isel", "sel"):
        if not lead:
            dim, i = "frequency", o["p"] % len(a.frequency)
        else:
            dim = lead[o["q"] % len(lead)]
            i = o["p"] % a.dataset[dim].shape[0]
        info["params"].update({"dim": dim, "i": i})
        if name == "isel":
            aslist = (o["b"] % 3 == 0)
            info["params"]["list"] = aslist
            r = a.isel({dim: [i] if aslist else i})
            sel = [i] if aslist else i
        else:
            r = a.sel({dim: a.dataset[dim].values[i]})
            sel = i
        for v in a.dataset.data_vars:
            dv = a.dataset[v]
            if dim in dv.dims:
                ax = dv.dims.index(dim)
                want = np.take(raw(a, v), sel, axis=ax)
            else:
                want = raw(a, v)
            if not eq_arrays(raw(r, v), want):
                checks.append("%s(%s=%r): variable %s is not the selected part of the source" % (name, dim, i, v))
        return info, r, checks, extra
    if name in ("mean", "sum", "std"):
        if not lead:
            raise ValueError("no space-time dimension to reduce")
        dim = lead[o["q"] % len(lead)]
        skipna = bool(o["p"] % 2)
        info["params"].update({"dim": dim, "skipna": skipna})
        r = getattr(a, name)(dim, skipna=skipna)
        return info, r, checks, extra
    if name == "where":
        if not lead:
            raise ValueError("no space-time dimension to filter")
        dim = lead[0]
        nn = a.dataset[dim].shape[0]
        bits = [bool((o["p"] >> j) & 1) for j in range(nn)]
        if not any(bits):
            bits[o["q"] % nn] = True
        info["params"].update({"dim": dim, "mask": bits})
        cond = xarray.DataArray(np.array(bits), dims=[dim], coords={dim: a.dataset[dim].values})
        r = a.where(cond)
        keep = [j for j, bb in enumerate(bits) if bb]
        for v in a.dataset.data_vars:
            dv = a.dataset[v]
            if dim in dv.dims:
                want = np.take(raw(a, v), keep, axis=dv.dims.index(dim))
                got = raw(r, v)
                if not (got.shape == want.shape and np.array_equal(got, want, equal_nan=True)):
                    checks.append("where: variable %s is not the source restricted to the mask" % v)
        return info, r, checks, extra
    if name == "drop_invalid":
        r = a.drop_invalid()
        return info, r, checks, extra
    if name == "bandpass":
        fr = raw(a, "frequency")
        lo = fr[o["p"] % len(fr)]
        hi = fr[o["q"] % len(fr)]
        if hi <= lo:
            lo, hi = 0.0, float("inf") if o["b"] % 2 else float(fr[-1])
        info["params"].update({"fmin": float(lo), "fmax": float(hi)})
        r = a.bandpass(float(lo), float(hi))
        msk = (fr >= lo) & (fr < hi)
        want = np.compress(msk, raw(a, "variance_density"), axis=a.dims.index("frequency"))
        got = raw(r, "variance_density")
        if not (got.shape == want.shape and np.array_equal(got, want, equal_nan=True)):
            checks.append("bandpass: variance density is not the source restricted to [fmin, fmax)")
        return info, r, checks, extra
    if name == "flatten":
        r = a.flatten()
        shape = tuple(a.space_time_shape())
        info["params"]["shape"] = list(shape)
        # digests: per multi-index of the source and per linear index of the result
        names = [v for v in a.dataset.data_vars]
        src = {}
        for idx in np.ndindex(*shape) if shape else [()]:
            vals = []
            for v in names:
                dv = a.dataset[v]
                sel = tuple(idx[lead.index(dm)] if dm in lead else slice(None) for dm in dv.dims)
                vals.append(raw(a, v)[sel])
            for j, dm in enumerate(lead):
                vals.append(raw(a, dm)[idx[j]])
            src[",".join(str(x) for x in idx)] = point_digest(vals)
        flat = []
        nflat = int(np.prod(shape)) if shape else 1
        for k in range(nflat):
            vals = [raw(r, v)[k] for v in names]
            for dm in lead:
                vals.append(raw(r, dm)[k])
            flat.append(point_digest(vals))
        extra["digest"] = {"shape": list(shape), "src": src, "flat": flat, "len": int(len(r)),
                           "count_src": int(a.number_of_spectra), "count_flat": int(r.number_of_spectra),
                           "dims": list(r.dims)}
        return info, r, checks, extra
    if name == "as1d":
        if nspec(a) != 2:
            raise ValueError("not a 2D spectrum")
        r = a.as_frequency_spectrum()
        return info, r, checks, extra
    if name == "as2d":
        if nspec(a) != 1:
            raise ValueError("not a 1D spectrum")
        ndir = 4 + 4 * (o["p"] % 3)
        info["params"]["ndir"] = ndir
        r = a.as_frequency_direction_spectrum(ndir, method="mem")
        return info, r, checks, extra
    if name == "interp":
        if "time" not in lead or a.dataset["time"].shape[0] < 2:
            raise ValueError("no time axis to interpolate along")
        t = raw(a, "time")
        tt = t[:-1] + (t[1:] - t[:-1]) // (2 + o["p"] % 3)
        info["params"]["n"] = int(len(tt))
        r = a.interpolate({"time": tt})
        return info, r, checks, extra
    if name == "interp_f":
        fr = raw(a, "frequency")
        nf = 3 + o["p"] % 5
        newf = np.linspace(fr[0] - 0.01 * (o["q"] % 2), fr[-1] + 0.01 * (o["b"] % 2), nf)
        if nspec(a) == 1:
            method = ["linear", "nearest", "spline"][o["q"] % 3]
            info["params"].update({"method": method, "n": nf})
            if method == "spline":
                r = a.interpolate_frequency(newf, method="spline", monotone_interpolation=bool(o["b"] % 4 == 3))
            else:
                r = a.interpolate_frequency(newf, method=method)
        else:
            info["params"].update({"method": "linear", "n": nf})
            r = a.interpolate_frequency(newf)
        return info, r, checks, extra
    if name == "save_load":
        counter[0] += 1
        path = os.path.join(tmpdir, "s%d.nc" % counter[0])
        try:
            a.save_as_netcdf(path)
            r = S.load_spectrum_from_netcdf(path)
            r.dataset.load()
            r.dataset.close()
        finally:
            try:
                os.remove(path)
            except OSError:
                pass
        if type(r) is not type(a):
            checks.append("netCDF round trip: loaded a %s from a saved %s" % (type(r).__name__, type(a).__name__))
        d = [k for k in snap_diff(snap(a), snap(r)) if k != "@attrs"]
        # integer variables may come back in another width (netCDF3 has no int64): same kind + same values
        d = [k for k in d if not (k in a.dataset.variables and k in r.dataset.variables
                                  and raw(a, k).dtype.kind in "iu" and raw(r, k).dtype.kind in "iu"
                                  and raw(a, k).shape == raw(r, k).shape
                                  and a.dataset[k].dims == r.dataset[k].dims
                                  and np.array_equal(raw(a, k).astype("int64"), raw(r, k).astype("int64")))]
        if d:
            checks.append("netCDF round trip differs from the saved spectrum in %s" % d)
        return info, r, checks, extra
    if name == "concat":
        # N single spectra cut out of `a` (or `a` itself N times), concatenated along a new time dimension
        N = 1 + o["p"] % 6
        if lead:
            parts = []
            n0 = a.dataset[lead[0]].shape[0]
            order = [(o["q"] + 5 * j) % n0 for j in range(N)]
            how = ["getitem", "isel", "sel"][(o["p"] // 6) % 3]
            for i in order:
                item = (i,) + (slice(None),) * (len(a.dims) - 1)
                if how == "getitem":
                    parts.append(a[item])
                elif how == "isel":
                    parts.append(a.isel(**{lead[0]: i}))
                else:
                    parts.append(a.sel(**{lead[0]: a.dataset[lead[0]].values[i]}))
            info["params"]["parts_by"] = how
        else:
            order = [0] * N
            parts = [a.copy() for _ in range(N)]
            for j, pt in enumerate(parts):
                pt.dataset["time"] = pt.dataset["time"] + np.timedelta64(j, "h")
        info["params"].update({"N": N, "order": order})
        single = all(not lead_dims(pt) for pt in parts)
        cdim = "time"
        if single and lead:
            # single spectra may be stacked along any of the point dimensions; what identifies each input
            # (its time, position, depth) must come back with element j whatever the stacking dimension
            cdim = ["time", "latitude", "longitude", "depth"][(o["q"] // 7) % 4]
        info["params"]["dim"] = cdim
        if single:
            r = concatenate_spectra(parts, dim=cdim)
        else:
            r = concatenate_spectra(parts)
        info["params"]["mode"] = "time" if single else "flatten"
        if single:
            if type(r) is not type(a):
                checks.append("concatenate_spectra returned a %s for inputs of class %s" % (type(r).__name__, type(a).__name__))
            if len(r) != N:
                checks.append("concatenate_spectra of %d spectra has length %d" % (N, len(r)))
            for j, pt in enumerate(parts):
                if j >= len(r):
                    break                      # already reported above (fewer elements than inputs)
                item = (j,) + (slice(None),) * (len(r.dims) - 1)
                g = r[item]
                for v in pt.dataset.variables:
                    if v not in g.dataset.variables or not eq_arrays(raw(g, v), raw(pt, v)):
                        checks.append("element %d of the concatenation differs from input %d in %s" % (j, j, v))
                        break
            extra["concat"] = {"m": int(raw(parts[0], "variance_density").size),
                               "inputs": [[float(x) for x in raw(pt, "variance_density").ravel()] for pt in parts],
                               "output": [float(x) for x in raw(r, "variance_density").ravel()]}
        return info, r, checks, extra
    raise ValueError("unknown op " + name)


def run_program(prog, tmpdir, counter):
    live = [make(prog["init"])]
    snaps = [snap(live[0])]
    info0 = {"class": type(live[0]).__name__, "dims": list(live[0].dims), "shape": list(live[0].shape()),
             "vars": [str(v) for v in live[0].dataset.variables]}
    steps = []
    for o in prog["ops"]:
        step = {"op": o["op"], "status": "ok", "error": None, "returned": "none", "new_id": None, "checks": [],
                "same_dataset_as": [], "a": o["a"] % len(live), "b": None, "params": {}}
        r = None
        try:
            info, r, checks, extra = do_op(o, live, tmpdir, counter)
            step.update(info)
            step["checks"] = checks
            step.update(extra)
        except Exception as e:  # noqa -- an exception is data; the operands must still be unchanged
            step["status"] = "error"
            step["error"] = "%s: %s" % (type(e).__name__, str(e)[:200])
        after = [snap(x) for x in live]
        changed = [k for k in range(len(live)) if after[k] != snaps[k]]
        step["changed"] = changed
        step["changed_detail"] = {str(k): snap_diff(snaps[k], after[k]) for k in changed}
        snaps = after
        if step["status"] == "ok":
            if r is None:
                step["returned"] = "none"
            elif isinstance(r, S.WaveSpectrum):
                same = [k for k in range(len(live)) if r is live[k]]
                if same:
                    step["returned"] = "self"
                    step["new_id"] = same[0]
                else:
                    step["returned"] = "new"
                    step["same_dataset_as"] = [k for k in range(len(live)) if r.dataset is live[k].dataset]
                    step["new_id"] = len(live)
                    step["new_vars"] = [str(v) for v in r.dataset.variables]
                    if step["op"] != "copy":
                        # informational: results that are views of (share writeable memory with) live objects
                        step["views"] = sorted({x[0] for x in sharing(r, live) if x[3]})
                    live.append(r)
                    snaps.append(snap(r))
            else:
                step["returned"] = "other"
        steps.append(step)
    return {"init": info0, "steps": steps}


P = read_payload()
tmpdir = P["tmpdir"]
os.makedirs(tmpdir, exist_ok=True)
counter = [0]
out = [guarded(lambda: run_program(p, tmpdir, counter)) for p in P["programs"]]
try:
    for fn in os.listdir(tmpdir):
        os.remove(os.path.join(tmpdir, fn))
    os.rmdir(tmpdir)
except OSError:
    pass
emit({"results": out})
