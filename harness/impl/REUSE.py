"""Staleness oracle for the spectrum-object properties (C01, C02, C03, C04, C07, C16).

Every property states that a result equals a defining formula of the spectrum's CURRENT data.  A
generator that builds a fresh spectrum per case cannot see results that are remembered from an
earlier state of the same object.  Here one spectrum object is queried, modified in place through
the public API, and queried again; the second answer must equal the answer of a FRESH object that
holds the same data (type(spec)(spec.dataset.copy(deep=True)))."""
import numpy as np
import xarray
from implcommon import read_payload, emit, hx, guarded
from ocean_science_utilities.wavespectra.spectrum import create_1d_spectrum, create_2d_spectrum

P = read_payload()
PID = P["pid"]


def build(c):
    rng = np.random.default_rng(c["seed"])
    nt, nf = c["nt"], c["nf"]
    f = np.cumsum(rng.uniform(0.01, 0.04, nf)) + 0.02
    times = np.array([np.datetime64("2022-03-01T00:00:00") + np.timedelta64(i, "h") for i in range(nt)])
    depth = rng.choice([np.inf, 12.0, 40.0, 200.0], size=nt).astype(float)
    peakpos = rng.integers(2, nf - 2, size=nt)
    if c["kind"] == "1d":
        e = np.empty((nt, nf))
        for i in range(nt):
            e[i] = np.exp(-0.5 * ((np.arange(nf) - peakpos[i]) / 2.5) ** 2) * rng.uniform(0.5, 3) + rng.uniform(0.01, 0.05, nf)
        ang = rng.uniform(-np.pi, np.pi, (nt, nf)); r1 = rng.uniform(0.2, 0.9, (nt, nf))
        a1, b1 = r1 * np.cos(ang), r1 * np.sin(ang)
        a2, b2 = 0.5 * r1 * np.cos(2 * ang), 0.5 * r1 * np.sin(2 * ang)
        if c.get("nan"):
            e[0, 1] = np.nan
        return create_1d_spectrum(f, e, times, np.zeros(nt), np.zeros(nt), a1, b1, a2, b2, depth=depth)
    nd = c["nd"]
    gaps = rng.uniform(0.6, 1.4, nd); gaps = gaps / gaps.sum() * 360.0
    d = (rng.uniform(0, 360) + np.concatenate(([0.0], np.cumsum(gaps)[:-1]))) % 360.0
    d = np.sort(d)
    E = np.empty((nt, nf, nd))
    for i in range(nt):
        md = rng.uniform(0, 360)
        spread = np.cos(np.deg2rad(d - md) / 2) ** 8
        E[i] = (np.exp(-0.5 * ((np.arange(nf) - peakpos[i]) / 2.5) ** 2)[:, None] * rng.uniform(0.5, 3) + 0.02) * (spread[None, :] + 0.05)
    if c.get("nan"):
        E[0, 1, 2] = np.nan
    return create_2d_spectrum(f, d, E, times, np.zeros(nt), np.zeros(nt), depth=depth)


def vals(x):
    if isinstance(x, (xarray.DataArray,)):
        x = x.values
    return [hx(v) for v in np.asarray(x, dtype=float).ravel()]


def observe(pid, s, c):
    o = {}
    band = (c["fmin"], c["fmax"])
    two_d = c["kind"] == "2d"
    if pid == "C01":
        for nm in ("m0", "m1", "m2", "hm0", "tm01", "tm02"):
            o[nm] = vals(getattr(s, nm)())
            o[nm + "_band"] = vals(getattr(s, nm)(*band))
        o["moment3"] = vals(s.frequency_moment(3))
        if two_d:
            o["e"] = vals(s.e)
    elif pid == "C02":
        for nm in ("e", "a1", "b1", "a2", "b2"):
            o[nm] = vals(getattr(s, nm))
        if two_d:
            o["direction_step"] = vals(s.direction_step)
            one = s.as_frequency_spectrum()
            o["as1d_e"] = vals(one.variance_density); o["as1d_a1"] = vals(one.a1); o["as1d_m0"] = vals(one.m0())
    elif pid == "C03":
        o["mean_direction"] = vals(s.mean_direction()); o["mean_direction_band"] = vals(s.mean_direction(*band))
        o["mean_spread"] = vals(s.mean_directional_spread()); o["mean_a1_band"] = vals(s.mean_a1(*band))
        o["peak_direction"] = vals(s.peak_direction()); o["peak_spread"] = vals(s.peak_directional_spread())
        o["dir_per_f"] = vals(s.mean_direction_per_frequency); o["spread_per_f"] = vals(s.mean_spread_per_frequency)
    elif pid == "C04":
        o["peak_index"] = vals(s.peak_index()); o["peak_index_band"] = vals(s.peak_index(*band))
        o["peak_frequency"] = vals(s.peak_frequency()); o["peak_period"] = vals(s.peak_period())
        o["peak_direction"] = vals(s.peak_direction()); o["peak_spread"] = vals(s.peak_directional_spread())
        o["peak_wavenumber"] = vals(s.peak_wavenumber)
    elif pid == "C07":
        o["wavenumber"] = vals(s.wavenumber); o["wavelength"] = vals(s.wavelength)
        o["wave_speed"] = vals(s.wave_speed()); o["group_velocity"] = vals(s.group_velocity)
        o["depth"] = vals(s.depth)
    elif pid == "C16":
        from ocean_science_utilities.wavespectra.timeseries import surface_timeseries
        one = s
        for comp in ("z", "w") + (("x",) if two_d else ()):
            t, x = surface_timeseries(comp, 2.0, 64, one, seed=7)
            o["series_" + comp] = vals(x)
            o["time_" + comp] = vals(t)
    return o


def mutate(s, c):
    rng = np.random.default_rng(c["seed"] + 1)
    m = c["mutation"]
    if m == "mul_inplace":
        g = rng.uniform(0.2, 5.0, s.number_of_frequencies)
        g[rng.integers(0, len(g))] = 40.0          # moves the peak
        s.multiply(g, ["frequency"], inplace=True)
    elif m == "assign":
        g = xarray.DataArray(np.linspace(3.0, 0.1, s.number_of_frequencies) ** 2, dims=["frequency"],
                             coords={"frequency": s.frequency.values})
        s["variance_density"] = s.dataset["variance_density"] * g
    elif m == "fillna":
        s.fillna(0.37)
    elif m == "depth":
        s["depth"] = xarray.DataArray(rng.choice([3.0, 8.0, 25.0, np.inf, np.nan], size=s.dataset["depth"].shape).astype(float),
                                      dims=s.dataset["depth"].dims)
    elif m == "values":
        s.dataset["variance_density"].values[...] = s.dataset["variance_density"].values * 2.5
    else:
        raise ValueError(m)


def scribble(pid, s, c):
    """A caller owns what it gets back: overwrite DERIVED results in place (values and, where there is one, the
    direction coordinate).  Nothing the library hands out may be the very object it will hand out - or use - again."""
    two_d = c["kind"] == "2d"
    names = {"C01": ["frequency_step", "radian_frequency"] + (["e", "direction_step"] if two_d else []),
             "C02": (["direction_step", "e", "a1", "b1", "radian_direction"] if two_d else ["frequency_step"]),
             "C03": ["mean_direction_per_frequency", "mean_spread_per_frequency"] + (["direction_step", "a1", "b1"] if two_d else []),
             "C04": ["peak_wavenumber", "wavenumber"] + (["e", "direction_step"] if two_d else []),
             "C07": ["wavenumber", "wavelength", "group_velocity", "radian_frequency"],
             "C16": ["frequency_step"] + (["direction_step"] if two_d else [])}[pid]
    for nm in names:
        try:
            r = getattr(s, nm)
            r = r() if callable(r) else r
            if isinstance(r, xarray.DataArray):
                r.values[...] = r.values * 0.25 + 1.0
                if "direction" in r.coords and r.coords["direction"].values.flags.writeable:
                    r.coords["direction"].values[...] = (r.coords["direction"].values + 180.0) % 360.0 - 180.0
        except (ValueError, TypeError, AttributeError):
            pass                                   # read-only results cannot be scribbled on: fine


def one_case(c):
    s = build(c)
    if PID == "C16" and "time" in s.dims:
        s = s.isel(time=0)          # one object, kept for all three queries
    before = observe(PID, s, c)
    if c["mutation"] == "scribble":
        scribble(PID, s, c)
        again = observe(PID, s, c)                 # the same object
        other = build(c)                           # another object on an equal grid, built from scratch
        if PID == "C16" and "time" in other.dims:
            other = other.isel(time=0)
        elsewhere = observe(PID, other, c)
        shown = again if any(again[k] != before[k] for k in before) else elsewhere
        return {"reused": shown, "fresh": before, "mutation_changed_something": True}
    mutate(s, c)
    reused = observe(PID, s, c)
    fresh_obj = type(s)(s.dataset.copy(deep=True))
    fresh = observe(PID, fresh_obj, c)
    changed = any(before[k] != fresh[k] for k in before)
    return {"reused": reused, "fresh": fresh, "mutation_changed_something": changed}


out = []
for case in P["cases"]:
    out.append(guarded(lambda: one_case(case)))
emit({"results": out})
