"""Implementation-side runner for C02 / C03 (runs inside /venv python against the repo under test).

payload: {"cases": [case, ...]};  case["op"] in
  "spec2d": f, th, E (list of points, each nf x nd, hex / "nan"), layout ("none"|"time"|"time_lat"),
            bands [[fmin,fmax],...], variants [{"rot":k}|{"mirror":"plain"|"mod"}], extra (bool)
  "spec1d": f, pts (list of {"e","a1","b1","a2","b2"}), layout, bands
  "nisd":   data (nf x nd), fstep, dstep      (numba_integrate_spectral_data)
  "wrap":   delta (list), period, discont     (tools.math.wrapped_difference)
Every float travels as float.hex(); NaN is "nan".
"""
import warnings

import numpy as np

warnings.filterwarnings("ignore")

from implcommon import read_payload, emit, hx, unhx, guarded, audit  # noqa: E402


def arr(x):
    return np.array([unhx(v) for v in x], dtype=float)


def arr2(x):
    return np.array([[unhx(v) for v in r] for r in x], dtype=float)


def hl(a):
    return [hx(v) for v in np.asarray(a, dtype=float).reshape(-1)]


def per_point(a, npts, tail, owner=None, what="per-frequency result"):
    """DataArray/ndarray with leading dims -> list (per point) of flat hex lists"""
    if owner is not None:
        audit(what, a, owner, call=what)
    v = np.asarray(getattr(a, "values", a), dtype=float)
    v = v.reshape((npts, tail))
    return [hl(v[i]) for i in range(npts)]


def lead_shape(layout, npts):
    if layout == "none":
        return ()
    if layout == "time":
        return (npts,)
    # time_lat: factor npts = T * L with L = 2 when even else 1
    L = 2 if npts % 2 == 0 else 1
    return (npts // L, L)


def meta_for(layout, npts):
    from ocean_science_utilities.wavespectra.spectrum import NAME_F, NAME_D, NAME_T, NAME_LAT
    shp = lead_shape(layout, npts)
    if layout == "none":
        return dict(time=3600.0, latitude=11.5, longitude=-120.25, depth=37.0, lead_dims=())
    if layout == "time":
        t = np.arange(npts) * 1800.0 + 7200.0
        return dict(time=t, latitude=10.0 + np.arange(npts) * 0.5, longitude=-100.0 - np.arange(npts) * 0.25,
                    depth=np.where(np.arange(npts) % 3 == 2, np.inf, 20.0 + np.arange(npts)), lead_dims=(NAME_T,))
    T, L = shp
    t = np.arange(T) * 1800.0 + 7200.0
    lat = 30.0 + np.arange(L) * 1.5
    lon = (-100.0 - np.arange(T)[:, None] * 0.25 + np.arange(L)[None, :] * 2.0)
    dep = 15.0 + np.arange(T)[:, None] * 1.0 + np.arange(L)[None, :] * 100.0
    return dict(time=t, latitude=lat, longitude=lon, depth=dep, lead_dims=(NAME_T, NAME_LAT))


def band_args(b):
    lo = unhx(b[0])
    hi = unhx(b[1])
    return lo, hi


BULK = ["m0", "hm0", "tm01", "tm02", "pidx", "pfreq", "pdir", "pspr", "ma1", "mb1", "ma2", "mb2", "mdir", "mspr"]


def bulk_of(spec, npts, lo, hi):
    """the 14 bulk values, per point; each entry either list(npts) of hex or {"error":..}"""
    fns = {
        "m0": lambda: spec.m0(lo, hi),
        "hm0": lambda: spec.hm0(lo, hi),
        "tm01": lambda: spec.tm01(lo, hi),
        "tm02": lambda: spec.tm02(lo, hi),
        "pidx": lambda: spec.peak_index(lo, hi),
        "pfreq": lambda: spec.peak_frequency(lo, hi),
        "pdir": lambda: spec.peak_direction(lo, hi),
        "pspr": lambda: spec.peak_directional_spread(lo, hi),
        "ma1": lambda: spec.mean_a1(lo, hi),
        "mb1": lambda: spec.mean_b1(lo, hi),
        "ma2": lambda: spec.mean_a2(lo, hi),
        "mb2": lambda: spec.mean_b2(lo, hi),
        "mdir": lambda: spec.mean_direction(lo, hi),
        "mspr": lambda: spec.mean_directional_spread(lo, hi),
    }
    out = {}
    for k in BULK:
        def one(k=k):
            v = fns[k]()
            audit(k, v, spec, call="%s(%r, %r) on a spectrum with dims %r" % (k, lo, hi, list(spec.dataset["variance_density"].dims)))
            v = np.asarray(getattr(v, "values", v), dtype=float).reshape(-1)
            if v.shape[0] != npts:
                raise ValueError("shape %r for %d points" % (v.shape, npts))
            return [hx(x) for x in v]
        out[k] = guarded(one)
    return out


def make_2d(f, th, E, layout, extra):
    from ocean_science_utilities.wavespectra.spectrum import create_2d_spectrum, NAME_F, NAME_D
    npts = E.shape[0]
    m = meta_for(layout, npts)
    shp = lead_shape(layout, npts)
    data = E.reshape(shp + E.shape[1:])
    spec = create_2d_spectrum(f, th, data, time=m["time"], latitude=m["latitude"], longitude=m["longitude"],
                              dims=m["lead_dims"] + (NAME_F, NAME_D), depth=m["depth"])
    if extra:
        import xarray
        if shp:
            spec.dataset["station_quality"] = xarray.DataArray(
                np.arange(int(np.prod(shp)), dtype=float).reshape(shp) + 0.5, dims=m["lead_dims"])
        else:
            spec.dataset["station_quality"] = 0.5
    return spec, m


def meta_values(ds, names):
    out = {}
    for n in names:
        if n in ds or n in ds.coords:
            v = ds[n].values
            if np.issubdtype(v.dtype, np.datetime64):
                v = v.astype("datetime64[ns]").astype("int64").astype(float) / 1e9
            out[n] = {"dims": list(ds[n].dims), "values": hl(v)}
        else:
            out[n] = None
    return out


def run_spec2d(c):
    from ocean_science_utilities.wavespectra.operations import integrate_spectral_data
    f = arr(c["f"])
    th = arr(c["th"])
    E = np.array([[[unhx(v) for v in r] for r in pt] for pt in c["E"]], dtype=float)
    npts, nf, nd = E.shape
    layout = c["layout"]
    spec, m = make_2d(f, th, E, layout, c.get("extra", False))
    res = {}
    res["step"] = guarded(lambda: hl(spec.direction_step.values))
    for name in ("e", "a1", "b1", "a2", "b2"):
        res[name] = guarded(lambda name=name: per_point(getattr(spec, name), npts, nf, spec, name))
    res["dirpf"] = guarded(lambda: per_point(spec.mean_direction_per_frequency, npts, nf, spec, 'mean_direction_per_frequency'))
    res["sprpf"] = guarded(lambda: per_point(spec.mean_spread_per_frequency, npts, nf, spec, 'mean_spread_per_frequency'))
    res["isd_dir"] = guarded(lambda: per_point(integrate_spectral_data(spec.variance_density, "direction"), npts, nf))
    res["isd_freq"] = guarded(lambda: per_point(integrate_spectral_data(spec.variance_density, "frequency"), npts, nd))
    res["isd_both"] = guarded(lambda: per_point(integrate_spectral_data(spec.variance_density, ["frequency", "direction"]), npts, 1))
    res["isd_both_rev"] = guarded(lambda: per_point(integrate_spectral_data(spec.variance_density, ["direction", "frequency"]), npts, 1))
    bands = [band_args(b) for b in c["bands"]]
    res["bulk2d"] = [bulk_of(spec, npts, lo, hi) for lo, hi in bands]

    # ---- 2D -> 1D
    def conv():
        s1 = spec.as_frequency_spectrum()
        o = {"cls": type(s1).__name__}
        for name in ("e", "a1", "b1", "a2", "b2"):
            o[name] = per_point(getattr(s1, name), npts, nf, s1, name)
        o["vars"] = sorted(str(k) for k in s1.dataset.variables)
        names = ["time", "latitude", "longitude", "depth", "station_quality", "frequency"]
        o["meta1"] = meta_values(s1.dataset, names)
        o["meta2"] = meta_values(spec.dataset, names)
        o["depth_prop"] = hl(s1.depth.values)
        o["depth_prop2"] = hl(spec.depth.values)
        o["bulk1d"] = [bulk_of(s1, npts, lo, hi) for lo, hi in bands]
        o["dirpf"] = per_point(s1.mean_direction_per_frequency, npts, nf, s1, 'mean_direction_per_frequency')
        o["sprpf"] = per_point(s1.mean_spread_per_frequency, npts, nf, s1, 'mean_spread_per_frequency')
        return o
    res["oned"] = guarded(conv)

    # ---- rotated / mirrored seas
    var_out = []
    for v in c.get("variants", []):
        def one(v=v):
            if "rot" in v:
                E2 = np.roll(E, int(v["rot"]), axis=-1)
                th2 = th
            else:
                E2 = E[..., ::-1].copy()
                th2 = -th[::-1]
                if v["mirror"] == "mod":
                    th2 = th2 % 360.0
            sp, _ = make_2d(f, th2, E2, layout, False)
            o = {"th": hl(th2)}
            o["e"] = per_point(sp.e, npts, nf, sp, 'e')
            o["a1"] = per_point(sp.a1, npts, nf, sp, 'a1')
            o["b1"] = per_point(sp.b1, npts, nf, sp, 'b1')
            o["a2"] = per_point(sp.a2, npts, nf, sp, 'a2')
            o["b2"] = per_point(sp.b2, npts, nf, sp, 'b2')
            o["dirpf"] = per_point(sp.mean_direction_per_frequency, npts, nf, sp, 'mean_direction_per_frequency')
            o["sprpf"] = per_point(sp.mean_spread_per_frequency, npts, nf, sp, 'mean_spread_per_frequency')
            o["bulk2d"] = [bulk_of(sp, npts, lo, hi) for lo, hi in bands]
            return o
        var_out.append(guarded(one))
    res["variants"] = var_out
    return res


def run_spec1d(c):
    from ocean_science_utilities.wavespectra.spectrum import create_1d_spectrum, NAME_F
    f = arr(c["f"])
    pts = c["pts"]
    npts = len(pts)
    nf = len(f)
    layout = c["layout"]
    m = meta_for(layout, npts)
    shp = lead_shape(layout, npts)

    def stack(name):
        a = np.array([[unhx(v) for v in p[name]] for p in pts], dtype=float)
        return a.reshape(shp + (nf,))
    spec = create_1d_spectrum(f, stack("e"), time=m["time"], latitude=m["latitude"], longitude=m["longitude"],
                              a1=stack("a1"), b1=stack("b1"), a2=stack("a2"), b2=stack("b2"), depth=m["depth"],
                              dims=m["lead_dims"] + (NAME_F,))
    res = {}
    res["dirpf"] = guarded(lambda: per_point(spec.mean_direction_per_frequency, npts, nf, spec, 'mean_direction_per_frequency'))
    res["sprpf"] = guarded(lambda: per_point(spec.mean_spread_per_frequency, npts, nf, spec, 'mean_spread_per_frequency'))
    bands = [band_args(b) for b in c["bands"]]
    res["bulk1d"] = [bulk_of(spec, npts, lo, hi) for lo, hi in bands]
    return res


def run_nisd(c):
    from numba import types
    from numba.typed import Dict
    from ocean_science_utilities.wavespectra.operations import (
        numba_integrate_spectral_data, numba_directionally_integrate_spectral_data)
    data = arr2(c["data"])
    g = Dict.empty(key_type=types.unicode_type, value_type=types.float64[:])
    g["frequency_step"] = arr(c["fstep"])
    g["direction_step"] = arr(c["dstep"])
    return {"value": hx(numba_integrate_spectral_data(data, g)),
            "dir": hl(numba_directionally_integrate_spectral_data(data, g))}


def run_wrap(c):
    from ocean_science_utilities.tools.math import wrapped_difference
    d = arr(c["delta"])
    kw = {}
    if c.get("period") is not None:
        kw["period"] = unhx(c["period"])
    if c.get("discont") is not None:
        kw["discont"] = unhx(c["discont"])
    return {"value": hl(wrapped_difference(d, **kw))}


OPS = {"spec2d": run_spec2d, "spec1d": run_spec1d, "nisd": run_nisd, "wrap": run_wrap}


def main():
    P = read_payload()
    out = []
    for c in P["cases"]:
        out.append(guarded(lambda: OPS[c["op"]](c)))
    emit({"results": out})


if __name__ == "__main__":
    main()
