"""C17 implementation runner: tools/time.py of the repo under test (TZ is a non-UTC zone, set by the harness).

payload {"cases": [case, ...]}; a case is
  {"op": "utc" | "to64" | "iso" | "iso_rt" | "dt64_rt", "r": repr}
  {"op": "timeints", "lo": a, "hi": b}              every t in [a, b)  -> microseconds or "E:<exc>"
  {"op": "dateints", "vals": [...]}                 -> encoded datetime or "E:<exc>"
  {"op": "packed", "pairs": [[d, t], ...], "as64": bool}
repr (JSON):
  {"k": "none"} | {"k": "aware", "f": [Y,M,D,h,mi,s,us], "off": seconds, "cls": "dt"|"pd", "tz": "fixed"|"utc"}
  {"k": "naive", "f": [...], "cls": "dt"|"pd"} | {"k": "str", "s": text, "np": bool}
  {"k": "int", "v": n, "np": bool} | {"k": "float", "hex": h, "np": bool}
  {"k": "dt64", "count": c, "unit": "ns"|"us"|"ms"|"s"|"m"|"h"|"D"}
  {"k": "seq", "c": "list"|"tuple"|"ndarray"|"ndarray_obj"|"dataarray"|"dataarray_obj"|"series"|"series_obj",
   "items": [repr, ...]}
"""
import os
import time as _time
from datetime import datetime, timedelta, timezone

import numpy as np
import pandas as pd
import xarray

from implcommon import read_payload, emit, guarded
from ocean_science_utilities.tools import time as T

US = timedelta(microseconds=1)


def build(r):
    k = r["k"]
    if k == "none":
        return None
    if k == "aware":
        if r.get("tzname"):
            from zoneinfo import ZoneInfo
            return datetime(*r["f"], tzinfo=ZoneInfo(r["tzname"]), fold=r["fold"])
        tz = timezone.utc if r.get("tz") == "utc" else timezone(timedelta(seconds=r["off"]))
        d = datetime(*r["f"], tzinfo=tz)
        return pd.Timestamp(d) if r.get("cls") == "pd" else d
    if k == "naive":
        d = datetime(*r["f"])
        return pd.Timestamp(d) if r.get("cls") == "pd" else d
    if k == "str":
        return np.str_(r["s"]) if r.get("np") else r["s"]
    if k == "int":
        return np.int64(r["v"]) if r.get("np") else int(r["v"])
    if k == "float":
        v = float.fromhex(r["hex"])
        return np.float64(v) if r.get("np") else v
    if k == "dt64":
        return np.datetime64(int(r["count"]), r["unit"])
    if k == "seq":
        items = [build(x) for x in r["items"]]
        c = r["c"]
        if c == "list":
            return items
        if c == "tuple":
            return tuple(items)
        if c in ("ndarray_obj", "dataarray_obj", "series_obj"):
            a = np.empty(len(items), dtype=object)
            for i, x in enumerate(items):
                a[i] = x
            return a if c == "ndarray_obj" else (xarray.DataArray(a) if c == "dataarray_obj" else pd.Series(a, dtype=object))
        kinds = {x["k"] for x in r["items"]}
        if kinds == {"dt64"}:
            a = np.array(items, dtype="datetime64[ns]")
        else:
            a = np.array(items)
        if r.get("idtype"):
            a = a.astype(r["idtype"])
        if c == "ndarray":
            return a
        if c == "dataarray":
            return xarray.DataArray(a, dims=["time"])
        if c == "series":
            return pd.Series(a)
    raise ValueError("bad repr %r" % (r,))


def enc_dt(d):
    if d is None:
        return None
    if isinstance(d, (list, tuple)):
        return {"seq": [enc_dt(x) for x in d], "type": type(d).__name__}
    if not isinstance(d, datetime):
        return {"bad": type(d).__name__, "repr": repr(d)[:80]}
    off = d.utcoffset()
    return {"f": [d.year, d.month, d.day, d.hour, d.minute, d.second, d.microsecond],
            "off": None if off is None else off // US,          # microseconds
            "utc": d.tzinfo is timezone.utc, "fold": d.fold, "type": type(d).__name__}


def enc_64(v):
    if v is None:
        return None
    if isinstance(v, np.ndarray):
        if v.size == 0:
            return {"arr": [], "dtype": str(v.dtype), "shape": list(v.shape)}
        if v.dtype.kind != "M":
            return {"bad": "ndarray dtype %s" % v.dtype, "n": int(v.size)}
        return {"arr": [int(x) for x in v.astype("datetime64[ns]").astype("int64").ravel()],
                "dtype": str(v.dtype), "shape": list(v.shape)}
    if isinstance(v, np.datetime64):
        return {"ns": int(v.astype("datetime64[ns]").astype("int64")), "dtype": str(v.dtype)}
    return {"bad": type(v).__name__}


def one(c):
    op = c["op"]
    if op == "timeints":
        out = []
        for t in range(c["lo"], c["hi"]):
            try:
                v = T.time_from_timeint(t)
                out.append(v // US if type(v) is timedelta else "E:type %s" % type(v).__name__)
            except Exception as e:  # noqa
                out.append("E:" + type(e).__name__)
        return out
    if op == "dateints":
        out = []
        for t in c["vals"]:
            try:
                out.append(enc_dt(T.date_from_dateint(t)))
            except Exception as e:  # noqa
                out.append("E:" + type(e).__name__)
        return out
    if op == "packed":
        out = []
        for d, t in c["pairs"]:
            try:
                v = T.datetime_from_time_and_date_integers(d, t, as_datetime64=True) if c["as64"] \
                    else T.datetime_from_time_and_date_integers(d, t)
                out.append(enc_64(v) if c["as64"] else enc_dt(v))
            except Exception as e:  # noqa
                out.append("E:" + type(e).__name__)
        return out
    x = build(c["r"])
    if op == "utc":
        return {"v": enc_dt(T.to_datetime_utc(x))}
    if op == "to64":
        return {"v": enc_64(T.to_datetime64(x))}
    if op == "iso":
        return {"v": T.datetime_to_iso_time_string(x)}
    if op == "iso_rt":
        s = T.datetime_to_iso_time_string(x)
        return {"s": s, "v": enc_dt(T.to_datetime_utc(s))}
    if op == "dt64_rt":
        v = T.to_datetime64(x)
        return {"v64": enc_64(v), "v": enc_dt(T.to_datetime_utc(v))}
    raise ValueError("bad op " + op)


P = read_payload()
res = [guarded(lambda: one(c)) for c in P["cases"]]
emit({"results": res, "tz": [os.environ.get("TZ"), _time.timezone, list(_time.tzname)]})
