"""C16 implementation runner: surface_timeseries on /repo.

case = {"kind": "1d"|"2d", "f": [hex], "E": [hex] | [[hex]*nd]*nf, "dirs": [hex], "fs": hex, "n": int,
        "n_float": bool, "components": ["z", ...], "seed": int, "seed2": int, "scale": hex}
result = {"comp": {c: {"time": [hex], "series": [hex], "same": bool (second call, same seed, identical),
                       "other": [hex] (seed2), "scaled": [hex] (spectrum * scale, same seed)}},
          "resampled": {"E": flat hex, "df": [hex], "dth": [hex] (2d), "freq": [hex]}}
"""
import warnings

import numpy as np

from implcommon import read_payload, emit, hx, unhx, guarded

warnings.filterwarnings("ignore")

from ocean_science_utilities.wavespectra.spectrum import create_1d_spectrum, create_2d_spectrum  # noqa: E402
from ocean_science_utilities.wavespectra.timeseries import surface_timeseries  # noqa: E402


def arr(x):
    if isinstance(x, list):
        return np.array([arr(v) for v in x], dtype=float)
    return unhx(x)


def build(c, scale=1.0):
    f = arr(c["f"])
    E = arr(c["E"]) * scale
    if c.get("lead"):
        # the spectrum as the constructors return it by default: with a leading time dimension (of length one)
        t = np.datetime64("2022-01-01T00:00:00")
        if c["kind"] == "1d":
            return create_1d_spectrum(f, E[None, :], t, 0.0, 0.0)
        return create_2d_spectrum(f, arr(c["dirs"]), E[None, :, :], t, 0.0, 0.0)
    if c["kind"] == "1d":
        return create_1d_spectrum(f, E, None, None, None, dims=("frequency",))
    d = arr(c["dirs"])
    return create_2d_spectrum(f, d, E, None, None, None, dims=("frequency", "direction"))


def hl(a):
    return [hx(v) for v in np.asarray(a, dtype=float).ravel()]


def one(c):
    fs = unhx(c["fs"])
    n = float(c["n"]) if c.get("n_float") else int(c["n"])
    out = {"comp": {}}
    s = build(c)
    sc = unhx(c["scale"])
    s_scaled = build(c, sc)
    for comp in c["components"]:
        t, z = surface_timeseries(comp, fs, n, s, seed=c["seed"])
        t2, z2 = surface_timeseries(comp, fs, n, build(c), seed=c["seed"])
        t3, z3 = surface_timeseries(comp, fs, n, s, seed=c["seed2"])
        t4, z4 = surface_timeseries(comp, fs, n, s_scaled, seed=c["seed"])
        out["comp"][comp] = {"time": hl(t), "series": hl(z), "shape": list(np.shape(z)), "tshape": list(np.shape(t)),
                             "same": bool(np.array_equal(z, z2) and np.array_equal(t, t2)),
                             "other": hl(z3), "scaled": hl(z4)}
    # the resampled spectrum the statement of the property refers to (implementation's own resampling)
    nfft = (int(n) // 2) * 2
    fr = np.linspace(0, 0.5 * fs, nfft // 2, endpoint=False)
    r = s.interpolate_frequency(fr)
    out["resampled"] = {"E": hl(r.variance_density.values), "df": hl(r.frequency_step.values), "freq": hl(fr)}
    out["fstep_input"] = hl(s.frequency_step.values)
    if c["kind"] == "2d":
        out["resampled"]["dth"] = hl(r.direction_step.values)
        out["dstep_input"] = hl(s.direction_step.values)
    return out


P = read_payload()
res = []
for c in P["cases"]:
    res.append(guarded(lambda: one(c)))
emit({"results": res})
