"""Implementation-side runner for C08/C09 style cases (runs inside /venv python on the repo under test).

payload = {"cases": [case, ...]};  a case is one batch of points on one spectral grid:
  f, dir            frequency (Hz) / direction (deg) grids               (hex lists)
  E                 list (points) of flat nf*nd variance densities        (b64 float64)
  depth             list of floats ("inf" allowed)
  U, wd, kind       wind speed / direction lists, "u10" | "friction_velocity" | "ustar"
  z0                supplied roughness lengths (list) or null
  gen_par, st4_par, st6_par, rom_par   parameter dicts or null (defaults)
  dedt              optional list of flat nf*nd arrays (time derivative spectrum)
  want              list of output names
Every output is guarded separately: an exception is data.
"""
import base64
import numpy as np
import xarray

from implcommon import read_payload, emit, hx, unhx, guarded, audit

from ocean_science_utilities.wavespectra.spectrum import FrequencyDirectionSpectrum
from ocean_science_utilities.wavephysics.balance.st4_wind_input import ST4WindInput
from ocean_science_utilities.wavephysics.balance.st4_wave_breaking import ST4WaveBreaking
from ocean_science_utilities.wavephysics.balance.st6_wave_breaking import ST6WaveBreaking
from ocean_science_utilities.wavephysics.balance.romero_wave_breaking import RomeroWaveBreaking
from ocean_science_utilities.wavephysics.balance.balance import SourceTermBalance
from ocean_science_utilities.wavephysics.balance import wam_tail_stress as wts
from ocean_science_utilities.wavephysics.balance.solvers import numba_newton_raphson


def b64(a):
    return base64.b64encode(np.ascontiguousarray(np.asarray(a, dtype="<f8")).tobytes()).decode()


def unb64(s):
    return np.frombuffer(base64.b64decode(s), dtype="<f8").copy()


def fl(v):
    return [unhx(x) for x in v]


def spectrum_of(c, E=None):
    f = np.array(fl(c["f"]))
    d = np.array(fl(c["dir"]))
    nf, nd = len(f), len(d)
    if E is None:
        E = c["E"]
    npt = len(E)
    vd = np.stack([unb64(e).reshape(nf, nd) for e in E])
    depth = np.array(fl(c["depth"]))
    t = (np.datetime64("2021-03-04T05:00:00") + np.arange(npt) * np.timedelta64(3600, "s")).astype("datetime64[s]")
    ds = xarray.Dataset(
        {
            "variance_density": (("time", "frequency", "direction"), vd),
            "depth": (("time",), depth),
            "latitude": (("time",), np.zeros(npt)),
            "longitude": (("time",), np.zeros(npt)),
        },
        coords={"time": t, "frequency": f, "direction": d},
    )
    return FrequencyDirectionSpectrum(ds)


def da(spec, v, whole=False):
    a = np.array(v, dtype=float)
    if whole and a.size and np.all(a == np.round(a)) and np.all(np.abs(a) < 2 ** 31):
        # whole numbers (a wind direction of 270 degrees, a speed of 10 m/s) may arrive as integers
        a = a.astype("int64")
    t = spec.dataset["time"].values
    if whole is not None and int(abs(float(np.nansum(a))) * 1000) % 3 == 0:
        # a wind record that carries its own time stamps (end of the averaging interval): the wind is used point by
        # point, and the result stays labelled with the SPECTRUM's stamps
        t = t + np.timedelta64(30, "m")
    return xarray.DataArray(a, dims=["time"], coords={"time": t})


_OBJECTS = {}


def merged(cls, par):
    """source-term objects are RE-USED across cases with the same parameters (as an application does
    that evaluates many spectra with one generation/dissipation object): a result must depend on the
    spectrum passed in, not on what the object was called with before."""
    key = (cls.__name__, tuple(sorted((par or {}).items())))
    if key not in _OBJECTS:
        p = cls.default_parameters()
        if par:
            for k, v in par.items():
                p[k] = unhx(v)
        _OBJECTS[key] = cls(dict(p))
    return _OBJECTS[key]


def tail_root(gen, spec, U, wd, kind, z0):
    """the Newton root x0 used inside integrate_tail_frequency_distribution, per point
    (same call as the library makes); also returns the library's frequency integral"""
    par = gen._parameters
    kappa = par["vonkarman_constant"]
    za = par["wave_age_tuning_parameter"]
    g = par["gravitational_acceleration"]
    wlast = float(spec.radian_frequency.values[-1])
    roots, fints = [], []
    for u, z in zip(U, z0):
        if kind == "u10":
            ustar = u * kappa / np.log(par["elevation"] / z)
        else:
            ustar = u
        ch = z * g / ustar**2
        lb = ustar * wlast / g
        try:
            x0 = numba_newton_raphson(wts.log_dimensionless_critical_height, np.log(0.01), (ch, kappa, za), (-10, 0),
                                      verbose=False)
            fi = wts.integrate_tail_frequency_distribution(lb, ch, kappa, za)
        except Exception as e:  # noqa
            x0, fi = float("nan"), float("nan")
        roots.append(x0)
        fints.append(fi)
    return roots, fints


def run_case(c):
    out = {}
    spec = spectrum_of(c)
    nf, nd = len(c["f"]), len(c["dir"])
    want = set(c["want"])
    gen = merged(ST4WindInput, c.get("gen_par"))
    U = fl(c["U"]) if c.get("U") is not None else None
    wd = fl(c["wd"]) if c.get("wd") is not None else None
    kind = c.get("kind", "u10")
    z0 = fl(c["z0"]) if c.get("z0") is not None else None

    def fieldout(x):
        audit("source-term field (rate / imbalance)", x, spec, call="spectral rate on dims %r" % (list(getattr(x, "dims", [])),))
        v = np.asarray(x.values if hasattr(x, "values") else x, dtype=float)
        return [b64(v[i]) for i in range(v.shape[0])]

    def vecout(x):
        audit("bulk source-term result", x, spec, call="bulk rate / stress / roughness per point")
        v = np.asarray(x.values if hasattr(x, "values") else x, dtype=float)
        return [hx(a) for a in v.reshape(-1)]

    if "grid" in want:
        def grid():
            sg = gen.spectral_grid(spec)
            return {k: [hx(v) for v in sg[k]] for k in
                    ("radian_frequency", "radian_direction", "frequency_step", "direction_step")}
        out["grid"] = guarded(grid)
    if U is not None:
        Ud, Wd = da(spec, U, whole=True), da(spec, wd, whole=True)
    if z0 is not None:
        Zd = da(spec, z0)
        if "gen_rate" in want:
            out["gen_rate"] = guarded(lambda: fieldout(gen.rate(spec, Ud, Wd, roughness_length=Zd,
                                                                wind_speed_input_type=kind)))
        if "gen_bulk" in want:
            out["gen_bulk"] = guarded(lambda: vecout(gen.bulk_rate(spec, Ud, Wd, roughness_length=Zd,
                                                                   wind_speed_input_type=kind)))
        if "stress" in want:
            def stress():
                s = gen.stress(spec, Ud, Wd, roughness_length=Zd, wind_speed_input_type=kind)
                return {"stress": vecout(s["stress"]), "direction": vecout(s["direction"])}
            out["stress"] = guarded(stress)
        if "tail" in want:
            def tail():
                s = gen.tail_stress(spec, Ud, Wd, roughness_length=Zd, wind_speed_input_type=kind)
                return {"stress": vecout(s["stress"]), "direction": vecout(s["direction"])}
            out["tail"] = guarded(tail)
        if "tail_root" in want:
            def tr():
                r, fi = tail_root(gen, spec, U, wd, kind, z0)
                return {"root": [hx(v) for v in r], "fint": [hx(v) for v in fi]}
            out["tail_root"] = guarded(tr)
    if "rough" in want:
        out["rough"] = guarded(lambda: vecout(gen.roughness(Ud, Wd, spec, wind_speed_input_type=kind)))
    if "gen_rate_int" in want:
        out["gen_rate_int"] = guarded(lambda: fieldout(gen.rate(spec, Ud, Wd, wind_speed_input_type=kind)))
    if "gen_bulk_int" in want:
        out["gen_bulk_int"] = guarded(lambda: vecout(gen.bulk_rate(spec, Ud, Wd, wind_speed_input_type=kind)))
    if "stress_int" in want:
        def stress_i():
            s = gen.stress(spec, Ud, Wd, wind_speed_input_type=kind)
            return {"stress": vecout(s["stress"]), "direction": vecout(s["direction"])}
        out["stress_int"] = guarded(stress_i)
    diss = {}
    for nm, cls, pk in (("st4", ST4WaveBreaking, "st4_par"), ("st6", ST6WaveBreaking, "st6_par"),
                        ("rom", RomeroWaveBreaking, "rom_par")):
        if any(w.startswith(nm + "_") for w in want) or c.get("imb_diss") == nm:
            D = merged(cls, c.get(pk))
            diss[nm] = D
            if nm + "_rate" in want:
                out[nm + "_rate"] = guarded(lambda: fieldout(D.rate(spec)))
            if nm + "_bulk" in want:
                out[nm + "_bulk"] = guarded(lambda: vecout(D.bulk_rate(spec)))
            if nm + "_dir" in want:
                out[nm + "_dir"] = guarded(lambda: vecout(D.mean_direction_degrees(spec)))
    if "imb" in want or "bimb" in want:
        D = diss[c["imb_diss"]]
        bal = SourceTermBalance(gen, D)
        dsp = None
        if c.get("dedt") is not None:
            dsp = spectrum_of(c, c["dedt"])
            out["dedt_m0"] = guarded(lambda: vecout(dsp.m0()))
        if "imb" in want:
            out["imb"] = guarded(lambda: fieldout(bal.evaluate_imbalance(Ud, Wd, spec, dsp)))
        if "bimb" in want:
            out["bimb"] = guarded(lambda: vecout(bal.evaluate_bulk_imbalance(Ud, Wd, spec, dsp)))
    return out


if __name__ == "__main__":
    P = read_payload()
    res = []
    for c in P["cases"]:
        res.append(guarded(lambda: run_case(c)))
    emit({"results": res})
