"""C07 implementation runner: wavenumber solver, group velocity, spectrum members.
JSON in (cases), JSON out (results); every float travels as float.hex()."""
import numpy as np
import xarray

from implcommon import read_payload, emit, hx, unhx, guarded
from ocean_science_utilities.wavetheory import lineardispersion as ld
from ocean_science_utilities.wavespectra.spectrum import (
    FrequencySpectrum,
    FrequencyDirectionSpectrum,
)


def arr(tokens):
    return np.array([unhx(v) for v in tokens], dtype=float)


def out(a):
    return [hx(v) for v in np.asarray(a, dtype=float).ravel()]


def do_kinv(c):
    w = arr(c["w"])
    d = arr(c["d"])
    mode = c["mode"]
    kw = {}
    if "grav" in c:
        kw["grav"] = unhx(c["grav"])
    if "maxit" in c:
        kw["maximum_number_of_iterations"] = int(c["maxit"])
    if "tol" in c:
        kw["tolerance"] = unhx(c["tol"])
    f = ld.inverse_intrinsic_dispersion_relation
    if mode == "ss":          # scalar w, scalar depth, one call per element
        res = []
        for a, b in zip(w, d):
            r = f(float(a), float(b), **kw)
            res.append(np.asarray(r).ravel())
        shapes = [list(np.shape(r)) for r in res]
        return {"k": out(np.concatenate(res) if res else np.zeros(0)), "shape": shapes[0] if shapes else []}
    if mode == "as":          # array w, scalar depth (all d equal)
        r = f(w, float(d[0]), **kw)
    elif mode == "a1":        # array w, one-element depth array (broadcast)
        r = f(w, np.array([float(d[0])]), **kw)
    elif mode == "aa":        # 1-d arrays
        r = f(w, d, **kw)
    elif mode == "22":        # 2-d arrays of the given shape
        shp = tuple(c["shape"])
        r = f(w.reshape(shp), d.reshape(shp), **kw)
        if tuple(np.shape(r)) != shp:
            return {"error": "shape", "msg": "result shape %r for input shape %r" % (np.shape(r), shp)}
    elif mode == "alias":     # module level alias k = inverse_intrinsic_dispersion_relation
        r = ld.k(w, d, **kw)
    else:
        raise ValueError(mode)
    return {"k": out(r), "shape": list(np.shape(r))}


def do_kin(c):
    k = arr(c["k"])
    d = arr(c["d"])
    mode = c["mode"]
    g = unhx(c["grav"]) if "grav" in c else None
    gk = {} if g is None else {"grav": g}
    if mode == "ss":
        om, ph, nn, cg, j1, j2 = [], [], [], [], [], []
        for a, b in zip(k, d):
            a = float(a); b = float(b)
            om.append(np.asarray(ld.intrinsic_dispersion_relation(a, b, **gk)).ravel()[0])
            ph.append(np.asarray(ld.phase_velocity(a, b, **gk)).ravel()[0])
            nn.append(np.asarray(ld.ratio_group_velocity_to_phase_velocity(a, b, g if g is not None else 9.81)).ravel()[0])
            cg.append(np.asarray(ld.intrinsic_group_velocity(a, b, **gk)).ravel()[0])
        return {"omega": out(om), "phase": out(ph), "n": out(nn), "cg": out(cg)}
    if mode == "as":
        dd = float(d[0])
    else:
        dd = d
    res = {
        "omega": out(ld.intrinsic_dispersion_relation(k, dd, **gk)),
        "phase": out(ld.phase_velocity(k, dd, **gk)),
        "n": out(ld.ratio_group_velocity_to_phase_velocity(k, dd, g if g is not None else 9.81)),
        "cg": out(ld.intrinsic_group_velocity(k, dd, **gk)),
        "jac_k2w": out(ld.jacobian_wavenumber_to_radial_frequency(k, dd, **gk)),
        "jac_w2k": out(ld.jacobian_radial_frequency_to_wavenumber(k, dd, **gk)),
    }
    return res


def make_spectrum(c):
    """build a FrequencySpectrum / FrequencyDirectionSpectrum with the requested leading layout"""
    f = arr(c["f"])
    lead = tuple(c["lead_shape"])            # () | (n,) | (n, m)
    lead_dims = tuple(c["lead_dims"])        # names, e.g. ("time",), ("time","latitude") ...
    depth = arr(c["depth"]).reshape(lead) if lead else arr(c["depth"])[0]
    nf = len(f)
    two_d = c["kind"] == "2d"
    nd = int(c.get("ndir", 8))
    coords = {"frequency": f}
    for name, n in zip(lead_dims, lead):
        if name == "time":
            coords[name] = np.array([np.datetime64("2022-01-01T00:00:00") + np.timedelta64(i, "h") for i in range(n)])
        else:
            coords[name] = np.arange(n, dtype=float)
    if two_d:
        coords["direction"] = np.linspace(0, 360, nd, endpoint=False)
        sdims = lead_dims + ("frequency", "direction")
        shape = lead + (nf, nd)
    else:
        sdims = lead_dims + ("frequency",)
        shape = lead + (nf,)
    rng = np.random.default_rng(int(c.get("seed", 0)))
    E = rng.uniform(0.1, 1.0, size=shape)
    data = {"variance_density": (sdims, E), "depth": (lead_dims, depth)}
    if not two_d:
        for nm in ("a1", "b1", "a2", "b2"):
            data[nm] = (sdims, rng.uniform(-0.3, 0.3, size=shape))
    for nm in ("time", "latitude", "longitude"):
        if nm not in lead_dims:
            if nm == "time":
                data[nm] = (lead_dims, np.full(lead, np.datetime64("2022-01-01T00:00:00")))
            else:
                data[nm] = (lead_dims, np.zeros(lead))
    ds = xarray.Dataset(data_vars=data, coords=coords)
    return (FrequencyDirectionSpectrum if two_d else FrequencySpectrum)(ds)


def do_spec(c):
    s = make_spectrum(c)
    lead = tuple(c["lead_shape"])
    nf = len(c["f"])
    res = {}
    dep = s.depth
    res["depth"] = out(dep.values)
    for nm in ("wavenumber", "wavelength", "group_velocity"):
        v = getattr(s, nm)
        if tuple(v.shape) != lead + (nf,) or tuple(v.dims) != tuple(c["lead_dims"]) + ("frequency",):
            return {"error": "layout", "msg": "%s has dims %r shape %r" % (nm, v.dims, v.shape)}
        res[nm] = out(v.values)
    v = s.wave_speed()
    # like wavenumber / wavelength / group_velocity: points first, frequency last (the source says so in a comment);
    # a caller reads element [i, j] as point i at frequency j
    if tuple(v.shape) != lead + (nf,) or tuple(v.dims) != tuple(c["lead_dims"]) + ("frequency",):
        return {"error": "layout", "msg": "wave_speed has dims %r shape %r" % (v.dims, v.shape)}
    res["wave_speed"] = out(v.values)
    res["radian_frequency"] = out(s.radian_frequency.values)
    return res


P = read_payload()
results = []
for c in P["cases"]:
    if c["op"] == "kinv":
        results.append(guarded(lambda: do_kinv(c)))
    elif c["op"] == "kin":
        results.append(guarded(lambda: do_kin(c)))
    elif c["op"] == "spec":
        results.append(guarded(lambda: do_spec(c)))
    else:
        results.append({"error": "unknown-op", "msg": c["op"]})
emit({"results": results})
