"""C10 implementation runner: Charnock roughness / drag, generic fixed_point_iteration,
numba_newton_raphson on analytic test functions, Janssen roughness + stress-balance scan.
JSON in (cases), JSON out (results); floats travel as float.hex()."""
import math
import numpy as np
import xarray

from implcommon import read_payload, emit, hx, unhx, guarded

P = read_payload()
need = {c["op"] for c in P["cases"]}

from ocean_science_utilities.wavephysics import roughness as R                     # noqa: E402
from ocean_science_utilities.tools.solvers import fixed_point_iteration, Configuration  # noqa: E402


def arr(tokens):
    return np.array([unhx(v) for v in tokens], dtype=float)


def out(a):
    return [hx(v) for v in np.asarray(a, dtype=float).ravel()]


def shaped(U, form, shape):
    """the wind-speed container requested by the case"""
    if form == "ndarray":
        return U
    if form == "dataarray":
        return xarray.DataArray(U, dims=("time",))
    if form == "ndarray2d":
        return U.reshape(shape)
    if form == "dataarray2d":
        return xarray.DataArray(U.reshape(shape), dims=("time", "station"))
    if form == "list":
        return list(U)       # not array-like enough for the code; used in the edge stream only
    raise ValueError(form)


def do_charnock(c):
    U = arr(c["U"])
    form = c["form"]
    kw = {}
    if "alpha" in c:
        kw["charnock_constant"] = unhx(c["alpha"])
    if "visc" in c:
        kw["viscous_constant"] = unhx(c["visc"])
    ckw = dict(kw)
    if "maxit" in c:
        ckw["configuration"] = Configuration(max_iter=int(c["maxit"]))
    want_drag = c.get("drag", True) and "maxit" not in c
    res = {}
    if form in ("scalar", "np_scalar", "0d"):
        zs, ds = [], []
        for u in U:
            uu = float(u) if form == "scalar" else (np.float64(u) if form == "np_scalar" else np.array(float(u)))
            z = R.charnock_roughness_length_from_u10(uu, **ckw)
            if np.ndim(z) != 0:
                return {"error": "shape", "msg": "scalar wind speed gave a result of shape %r" % (np.shape(z),)}
            zs.append(float(z))
            if want_drag:
                d = R.drag_coefficient_charnock(uu, **kw)
                ds.append(float(np.asarray(d)))
        res["z"] = out(zs)
        if want_drag:
            res["drag"] = out(ds)
        return res
    shape = tuple(c.get("shape", [len(U)]))
    x = shaped(U, form, shape)
    z = R.charnock_roughness_length_from_u10(x, **ckw)
    if tuple(np.shape(z)) != (shape if form.endswith("2d") else (len(U),)):
        return {"error": "shape", "msg": "result shape %r for input shape %r" % (np.shape(z), np.shape(x))}
    res["z"] = out(np.asarray(z))
    res["type"] = type(z).__name__
    if want_drag:
        d = R.drag_coefficient_charnock(x, **kw)
        res["drag"] = out(np.asarray(d))
    return res


def do_cfun(c):
    us = arr(c["us"])
    kw = {"charnock_constant": unhx(c["alpha"]), "viscous_constant": unhx(c["visc"])}
    x = us if c["form"] == "ndarray" else xarray.DataArray(us, dims=("time",))
    return {"z": out(np.asarray(R.charnock_roughness_length(x, **kw)))}


def do_dragfun(c):
    u10 = arr(c["U"]); z = arr(c["z"])
    d = R.drag_coefficient(xarray.DataArray(u10), xarray.DataArray(z))
    return {"drag": out(np.asarray(d))}


def gf_vec(ids, a):
    ids = np.asarray(ids)

    def fn(x):
        xv = np.asarray(x, dtype=float)
        with np.errstate(all="ignore"):
            r = np.where(ids == 0, a + np.sin(xv),
                np.where(ids == 1, a * np.cos(xv),
                np.where(ids == 2, np.sqrt(np.abs(xv) + a),
                np.where(ids == 3, a * xv * (1 - xv), a * np.exp(-xv)))))
        if isinstance(x, xarray.DataArray):
            return xarray.DataArray(r, dims=x.dims)
        return r
    return fn


def do_fp(c):
    ids = [int(v) for v in c["ids"]]
    a = arr(c["a"]); g = arr(c["guess"])
    lo = unhx(c["lo"]); hi = unhx(c["hi"])
    lo = -np.inf if math.isnan(lo) else lo
    hi = np.inf if math.isnan(hi) else hi
    cfg = Configuration(atol=unhx(c["atol"]), rtol=unhx(c["rtol"]), max_iter=int(c["maxit"]),
                        aitken_acceleration=bool(c["aitken"]))
    guess = g if c["form"] == "ndarray" else xarray.DataArray(g, dims=("time",))
    r = fixed_point_iteration(gf_vec(ids, a), guess, bounds=(lo, hi), configuration=cfg, caller="verif")
    return {"x": out(np.asarray(r))}


_newton = {}


def newton_setup():
    import numba
    from ocean_science_utilities.wavephysics.balance.solvers import numba_newton_raphson
    from ocean_science_utilities.wavephysics.balance.wam_tail_stress import log_dimensionless_critical_height

    # every test function records the point it is evaluated at (log, cnt are mutable arrays)
    @numba.njit
    def rec(x, log, cnt):
        i = cnt[0]
        if i < log.shape[0]:
            log[i] = x
        cnt[0] = i + 1

    @numba.njit
    def tf0(x, a, b, c, log, cnt):
        rec(x, log, cnt)
        return a * x + b

    @numba.njit
    def tf1(x, a, b, c, log, cnt):
        rec(x, log, cnt)
        return np.exp(x) - a

    @numba.njit
    def tf2(x, a, b, c, log, cnt):
        rec(x, log, cnt)
        return x * x * x - a * x + b

    @numba.njit
    def tf3(x, a, b, c, log, cnt):
        rec(x, log, cnt)
        return np.tanh(a * (x - b)) + c

    @numba.njit
    def tf4(x, a, b, c, log, cnt):
        rec(x, log, cnt)
        return log_dimensionless_critical_height(x, a, b, c)

    @numba.njit
    def tf5(x, a, b, c, log, cnt):
        rec(x, log, cnt)
        u = b / (c - x)
        return a * (u * u) - np.exp(x)

    _newton["solver"] = numba_newton_raphson
    _newton["tf"] = [tf0, tf1, tf2, tf3, tf4, tf5]


def do_newton(c):
    if not _newton:
        newton_setup()
    f = _newton["tf"][int(c["id"])]
    a, b, cc = unhx(c["a"]), unhx(c["b"]), unhx(c["c"])
    hlo = unhx(c["hlo"]); hhi = unhx(c["hhi"])
    hlo = -np.inf if math.isnan(hlo) else hlo
    hhi = np.inf if math.isnan(hhi) else hhi
    log = np.zeros(1024); cnt = np.zeros(1, dtype=np.int64)
    args = (a, b, cc, log, cnt)

    def trace():
        return [hx(v) for v in log[:min(int(cnt[0]), log.shape[0])]]
    try:
        if c.get("use_defaults"):
            # the solver's own default arguments (what wam_tail_stress and stress.py rely on)
            if math.isinf(hlo) and math.isinf(hhi) and hlo < 0 < hhi:
                x = _newton["solver"](f, unhx(c["guess"]), args)
            else:
                x = _newton["solver"](f, unhx(c["guess"]), args, (hlo, hhi))
        else:
            x = _newton["solver"](f, unhx(c["guess"]), args, (hlo, hhi), int(c["maxit"]), bool(c["aitken"]),
                                  unhx(c["atol"]), unhx(c["rtol"]), unhx(c["h"]), False, bool(c["eom"]),
                                  bool(c["relstep"]), "", unhx(c["relax"]))
        return {"status": "ok", "x": hx(x), "trace": trace()}
    except ZeroDivisionError:
        return {"status": "F0", "trace": trace()}
    except ValueError as e:
        return {"status": "F2" if "no convergence" in str(e) else "F1", "trace": trace()}


_j = {}


def janssen_setup():
    from ocean_science_utilities.wavespectra.parametric import create_parametric_frequency_direction_spectrum
    from ocean_science_utilities.wavespectra.spectrum import create_2d_spectrum
    from ocean_science_utilities.wavephysics.balance.factory import create_wind_source_term
    _j["param"] = create_parametric_frequency_direction_spectrum
    _j["mk"] = create_2d_spectrum
    _j["gen"] = create_wind_source_term


def do_janssen(c):
    """one batch of seas through WindGeneration.roughness(); then for each point the stress-balance
    residual at the returned roughness and an independent scan of the balance on (-20, 0)."""
    if not _j:
        janssen_setup()
    f = arr(c["f"]); dirs = arr(c["dirs"])
    seas = c["seas"]
    n = len(seas)
    Es = []
    for s in seas:
        E = _j["param"](f, unhx(s["fp"]), unhx(s["hs"]), frequency_shape=s["shape"], direction_degrees=dirs,
                        mean_direction_degrees=unhx(s["md"]), width_degrees=unhx(s["width"])).variance_density.values
        if s.get("swell"):
            sw = s["swell"]
            E = E + _j["param"](f, unhx(sw["fp"]), unhx(sw["hs"]), frequency_shape="jonswap", direction_degrees=dirs,
                                mean_direction_degrees=unhx(sw["md"]), width_degrees=20.0).variance_density.values
        if s.get("nan_bin"):
            E = E.copy(); E[3, 2] = np.nan
        if s.get("zero"):
            E = E * 0.0
        Es.append(E)
    depth = arr([s["depth"] for s in seas])
    times = np.array([np.datetime64("2022-01-01T00:00:00") + np.timedelta64(i, "h") for i in range(n)])
    spec = _j["mk"](f, dirs, np.stack(Es), times, np.zeros(n), np.zeros(n), depth=depth)
    par = {k: unhx(v) for k, v in c.get("params", {}).items()}
    gen = _j["gen"]("st4")
    if par:
        gen.update_parameters(par)
    typ = c["wind_type"]
    U = xarray.DataArray(arr([s["U"] for s in seas]), dims=("time",))
    D = xarray.DataArray(arr([s["wdir"] for s in seas]), dims=("time",))
    z = gen.roughness(U, D, spec, wind_speed_input_type=typ).values
    rho = gen.parameters["air_density"]; kap = gen.parameters["vonkarman_constant"]; elev = gen.parameters["elevation"]
    xs = arr(c["scan"])
    res = {"z": out(z), "points": []}
    # the same question asked in other ways must get the same answer:
    # (a) through the module-level wrapper roughness.janssen_roughness_length (friction velocity in, roughness out)
    if typ in ("friction_velocity", "ustar"):
        def _wrapper():
            from ocean_science_utilities.wavephysics import roughness as RM
            from ocean_science_utilities.wavephysics.balance.balance import SourceTermBalance
            from ocean_science_utilities.wavephysics.balance.st4_wave_breaking import ST4WaveBreaking
            return out(RM.janssen_roughness_length(U, spec, SourceTermBalance(gen, ST4WaveBreaking()), D).values)
        res["wrapper_z"] = guarded(_wrapper)
    # (b) with whole-number winds given as integers instead of floats
    if typ == "u10":
        Ur = np.round(U.values)
        def _ints():
            zi = gen.roughness(xarray.DataArray(Ur.astype("int64"), dims=("time",)), D, spec, wind_speed_input_type=typ).values
            zf = gen.roughness(xarray.DataArray(Ur.astype("float64"), dims=("time",)), D, spec, wind_speed_input_type=typ).values
            return {"int": out(zi), "float": out(zf)}
        res["whole_winds"] = guarded(_ints)

    def balance_at(i, zz):
        sp = spec[i:i + 1] if False else _j["mk"](f, dirs, Es[i][None, :, :], times[:1], np.zeros(1), np.zeros(1), depth=depth[i:i + 1])
        Ui = xarray.DataArray(U.values[i:i + 1], dims=("time",)); Di = xarray.DataArray(D.values[i:i + 1], dims=("time",))
        # the balance is evaluated under the canonical spelling of the wind type ("ustar" is a documented alias of
        # "friction_velocity"): the roughness returned for an alias must balance the same stress
        st = gen.stress(sp, Ui, Di, roughness_length=xarray.DataArray(np.array([zz]), dims=("time",)),
                        wind_speed_input_type=("friction_velocity" if typ == "ustar" else typ))["stress"].values[0]
        us = U.values[i] * kap / np.log(elev / zz) if typ == "u10" else U.values[i]
        return rho * us * us, st

    for i in range(n):
        pt = {}
        if np.isfinite(z[i]) and z[i] > 0:
            try:
                lhs, st = balance_at(i, float(z[i]))
                pt["lhs"] = hx(lhs); pt["stress"] = hx(st)
            except Exception as e:  # noqa
                pt["residual_error"] = type(e).__name__ + ": " + str(e)[:100]
        if seas[i].get("scan", True):
            sc = []
            for x in xs:
                try:
                    lhs, st = balance_at(i, float(np.exp(x)))
                    sc.append(hx(lhs - st))
                except Exception:  # noqa
                    sc.append("nan")
            pt["scan"] = sc
        res["points"].append(pt)
    # a second configuration on the SAME generator object, spectrum object and wind arrays (as in a
    # calibration sweep): the roughness must satisfy the stress balance of the configuration in force
    if c.get("second"):
        gen.update_parameters({k: unhx(v) for k, v in c["second"].items()})
        z2 = gen.roughness(U, D, spec, wind_speed_input_type=typ).values
        rho = gen.parameters["air_density"]; kap = gen.parameters["vonkarman_constant"]; elev = gen.parameters["elevation"]
        sec = {"z": out(z2), "points": []}
        judged = False
        for i in range(n):
            pt = {}
            if not judged and seas[i].get("scan", True) and np.isfinite(z2[i]) and z2[i] > 0:
                judged = True
                try:
                    lhs, st = balance_at(i, float(z2[i]))
                    pt["lhs"] = hx(lhs); pt["stress"] = hx(st)
                except Exception as e:  # noqa
                    pt["residual_error"] = type(e).__name__ + ": " + str(e)[:100]
                sc = []
                for x in xs:
                    try:
                        lhs, st = balance_at(i, float(np.exp(x)))
                        sc.append(hx(lhs - st))
                    except Exception:  # noqa
                        sc.append("nan")
                pt["scan"] = sc
            sec["points"].append(pt)
        res["second"] = sec
    return res


results = []
for c in P["cases"]:
    op = c["op"]
    fn = {"charnock": do_charnock, "cfun": do_cfun, "dragfun": do_dragfun, "fp": do_fp, "newton": do_newton,
          "janssen": do_janssen}.get(op)
    if fn is None:
        results.append({"error": "unknown-op", "msg": op})
    else:
        results.append(guarded(lambda: fn(c)))
emit({"results": results})
