"""Memory layout / dtype variants of the moment arrays handed to estimate_directional_distribution.

The estimators are documented for moment arrays of any leading shape; what they return may depend on the
VALUES and the logical shape only, never on how the array happens to be laid out in memory (C order,
Fortran order as obtained from a transposed view, a strided slice of a larger array) nor on the leading
dimensions being split differently.  `relayout` presents the same values to the library in such a variant;
the caller flattens the result back in logical (C) order, so the evaluator of the check is unchanged."""
import numpy as np


def unslab(out, lay):
    """drop the rows of the extra NaN slab from the result"""
    if lay and lay.get("nan_slab"):
        return np.asarray(out)[:-1]
    return out


def relayout(a, lay):
    if not lay:
        return a
    x = a.reshape(lay["shape"]) if lay.get("shape") else a
    if lay.get("nan_slab"):
        # the batch inside a larger batch: one more slab of spectra WITHOUT directional information (NaN moments,
        # as in bins without energy); what the others get may not depend on their neighbours in the batch
        x = np.concatenate([x, np.full((1,) + x.shape[1:], np.nan)], axis=0)
    o = lay.get("order", "C")
    if o == "F":
        x = np.asfortranarray(x)
    elif o == "strided":
        big = np.full(tuple(2 * s + 1 for s in x.shape), np.nan)
        sl = tuple(slice(1, None, 2) for _ in x.shape)
        big[sl] = x
        x = big[sl]
    return x


def f32_deviation(est, a, dirs, method, kw):
    """largest deviation (relative to the peak) between the estimate from single-precision moment arrays and
    the estimate from the same values held in double precision, per batch"""
    a32 = [x.astype("float32") for x in a]
    a64 = [x.astype("float64") for x in a32]
    r32 = np.asarray(est(a32[0], a32[1], a32[2], a32[3], dirs, method, **kw), dtype=float)
    r64 = np.asarray(est(a64[0], a64[1], a64[2], a64[3], dirs, method, **kw), dtype=float)
    n = r64.shape[-1]
    r32 = r32.reshape(-1, n)
    r64 = r64.reshape(-1, n)
    out = []
    for p, q in zip(r32, r64):
        if np.all(np.isfinite(q)) and np.all(np.isfinite(p)):
            out.append(float(np.max(np.abs(p - q)) / (np.max(np.abs(q)) or 1.0)))
        else:
            out.append(0.0 if np.array_equal(np.isnan(p), np.isnan(q)) else float("inf"))
    return out
