"""C04 implementation runner: peak_index / peak_frequency / peak_period / peak_direction /
peak_directional_spread per band, peak_wavenumber and depth per case, and the dispersion solver itself.

case = C01 case (see impl/C01.py) + "depth": [hex per point], "a1"/"b1" (1d), op "peak"
       or {"op": "kinv", "w": [hex], "depth": [hex]}  -> inverse_intrinsic_dispersion_relation on arrays
"""
import warnings

import numpy as np

from implcommon import read_payload, emit, hx, unhx, guarded, audit
from C01 import build_spectrum, flat, out_shape

warnings.simplefilter("ignore")


def run_peak(c):
    s, lead = build_spectrum(c)
    if "time" in s.dataset.dims:
        # observation times are not whole seconds (the constructors round them; a netCDF file does not): the results
        # stay attached to exactly these stamps
        nt_ = s.dataset.sizes["time"]
        stamps = np.datetime64("2021-06-01T00:00:00", "ns") + (np.arange(nt_) * 3600_000_000_000 + 800_000_000
                                                                   + np.arange(nt_) * 137_000_000).astype("timedelta64[ns]")
        s.dataset = s.dataset.assign_coords(time=stamps)
    res = {"bands": []}
    for (lo, hi) in c["bands"]:
        lo = unhx(lo)
        hi = unhx(hi)
        b = {}

        def put(name, fn):
            r = guarded(fn)
            if isinstance(r, dict) and "error" in r:
                b[name] = r
            else:
                audit("peak " + name, r, s, call="peak %s over the band [%r, %r)" % (name, lo, hi))
                b[name] = flat(r.values)
                b[name + "_shape"] = out_shape(r.values)

        put("index", lambda: s.peak_index(lo, hi))
        put("frequency", lambda: s.peak_frequency(lo, hi))
        put("period", lambda: s.peak_period(lo, hi))
        put("direction", lambda: s.peak_direction(lo, hi))
        put("spread", lambda: s.peak_directional_spread(lo, hi))
        if lo == 0.0 and hi == float("inf"):
            put("d_index", lambda: s.peak_index())
            put("d_frequency", lambda: s.peak_frequency())
            put("d_period", lambda: s.peak_period())
            put("d_direction", lambda: s.peak_direction())
            put("d_spread", lambda: s.peak_directional_spread())
        res["bands"].append(b)
    r = guarded(lambda: s.peak_wavenumber)
    if isinstance(r, dict) and "error" in r:
        res["wavenumber"] = r
    else:
        audit("peak_wavenumber", r, s, call="peak_wavenumber")
        for nm_ in ("peak_wave_speed",):
            q = guarded(lambda: getattr(s, nm_)())
            if not (isinstance(q, dict) and "error" in q):
                audit(nm_, q, s, call=nm_ + "()")
                if tuple(q.shape) != tuple(r.shape):
                    from implcommon import LABEL_PROBLEMS
                    LABEL_PROBLEMS.append({"what": nm_, "problem": "shape %r for %r spectra (points were dropped by label "
                                           "alignment)" % (tuple(q.shape), tuple(r.shape)), "call": nm_ + "()"})
        res["wavenumber"] = flat(r.values)
        res["wavenumber_shape"] = out_shape(r.values)
    res["depth"] = flat(s.depth.values)
    # per-frequency direction and spread, (points, frequency) in C order
    res["dir_pf"] = flat(s.mean_direction_per_frequency.values)
    res["spr_pf"] = flat(s.mean_spread_per_frequency.values)
    return res


def run_kinv(c):
    from ocean_science_utilities.wavetheory.lineardispersion import (
        inverse_intrinsic_dispersion_relation, intrinsic_dispersion_relation)
    w = np.array([unhx(v) for v in c["w"]], dtype=float)
    d = np.array([unhx(v) for v in c["depth"]], dtype=float)
    k = inverse_intrinsic_dispersion_relation(w, d)
    om = intrinsic_dispersion_relation(k, d)
    return {"k": flat(k), "omega": flat(om)}


if __name__ == "__main__":
    P = read_payload()
    out = []
    for c in P["cases"]:
        if c.get("op") == "kinv":
            out.append(guarded(lambda: run_kinv(c)))
        else:
            out.append(guarded(lambda: run_peak(c)))
    emit({"results": out})
