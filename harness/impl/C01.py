"""C01 implementation runner: builds FrequencySpectrum / FrequencyDirectionSpectrum objects in the
requested layout and evaluates frequency_moment, m0, m1, m2, hm0, tm01, tm02 and the bulk properties.

case = {"kind": "1d"|"2d", "layout": "scalar"|"time"|"timelat"|"flat", "shape": [nt, nlat],
        "f": [hex], "th": [hex] (2d), "E": per point (C order) list of nf hex (1d) or nf lists of nd hex (2d),
        "depth": [hex per point] (optional), "a1","b1": per point lists (optional, 1d),
        "bands": [[fmin, fmax], ...], "powers": [..]}
"""
import warnings

import numpy as np

from implcommon import read_payload, emit, hx, unhx, guarded

warnings.simplefilter("ignore")


def arr(x):
    if isinstance(x, list):
        return [arr(v) for v in x]
    return unhx(x)


def build_spectrum(c):
    from ocean_science_utilities.wavespectra.spectrum import create_1d_spectrum, create_2d_spectrum
    f = np.array(arr(c["f"]), dtype=float)
    E = np.array(arr(c["E"]), dtype=float)          # (npts, nf[, nd])
    lay = c["layout"]
    npts = E.shape[0]
    depth = np.array(arr(c["depth"]), dtype=float) if c.get("depth") is not None else np.full(npts, np.inf)
    spec_shape = E.shape[1:]
    if lay == "scalar":
        lead = ()
    elif lay == "time":
        lead = (npts,)
    else:
        lead = tuple(c["shape"])
    nt = lead[0] if len(lead) >= 1 else 1
    nlat = lead[1] if len(lead) == 2 else 1
    time = np.arange(nt) * 3600.0
    lat = np.arange(nlat) * 1.0
    Ex = E.reshape(lead + spec_shape)
    dep = depth.reshape(lead) if lead else float(depth[0])
    if len(lead) == 0:
        tdim = ()
        time_a, lat_a, lon_a = 0.0, 1.0, 2.0
    elif len(lead) == 1:
        tdim = ("time",)
        time_a, lat_a, lon_a = time, np.arange(nt) * 1.0, np.arange(nt) * 2.0
    else:
        tdim = ("time", "latitude")
        time_a, lat_a, lon_a = time, lat, np.zeros(lead)
    if c["kind"] == "1d":
        kw = {}
        for nm in ("a1", "b1"):
            if c.get(nm) is not None:
                kw[nm] = np.array(arr(c[nm]), dtype=float).reshape(lead + spec_shape)
        s = create_1d_spectrum(f, Ex, time_a, lat_a, lon_a, depth=dep, dims=tdim + ("frequency",), **kw)
    else:
        th = np.array(arr(c["th"]), dtype=float)
        s = create_2d_spectrum(f, th, Ex, time_a, lat_a, lon_a, dims=tdim + ("frequency", "direction"), depth=dep)
    if lay == "flat":
        s = s.flatten()
    return s, lead


def flat(x):
    return [hx(v) for v in np.asarray(x, dtype=float).ravel()]


def out_shape(x):
    return [int(v) for v in np.asarray(x).shape]


def run_case(c):
    s, lead = build_spectrum(c)
    res = {"bands": []}
    if c["kind"] == "2d":
        res["dstep"] = flat(s.direction_step.values)
        res["e"] = flat(s.e.values)
        res["e_dims"] = [str(d) for d in s.e.dims]
    for (lo, hi) in c["bands"]:
        lo = unhx(lo)
        hi = unhx(hi)
        default = (lo == 0.0 and hi == float("inf"))
        b = {}
        fm = []
        for p in c.get("powers", [0, 1, 2, 3, 4]):
            r = s.frequency_moment(p, lo, hi)
            fm.append(flat(r.values))
            b["shape"] = out_shape(r.values)
            b["dims"] = [str(d) for d in r.dims]
        b["fm"] = fm
        b["m0"] = flat(s.m0(lo, hi).values)
        b["m1"] = flat(s.m1(lo, hi).values)
        b["m2"] = flat(s.m2(lo, hi).values)
        b["hm0"] = flat(s.hm0(lo, hi).values)
        b["tm01"] = flat(s.tm01(lo, hi).values)
        b["tm02"] = flat(s.tm02(lo, hi).values)
        if default:
            # the argument-free entry points
            b["d_m0"] = flat(s.m0().values)
            b["d_m1"] = flat(s.m1().values)
            b["d_m2"] = flat(s.m2().values)
            b["d_hm0"] = flat(s.hm0().values)
            b["d_tm01"] = flat(s.tm01().values)
            b["d_tm02"] = flat(s.tm02().values)
            b["significant_waveheight"] = flat(s.significant_waveheight.values)
            b["mean_period"] = flat(s.mean_period.values)
            b["zero_crossing_period"] = flat(s.zero_crossing_period.values)
        res["bands"].append(b)
    return res


if __name__ == "__main__":
    P = read_payload()
    out = []
    for c in P["cases"]:
        out.append(guarded(lambda: run_case(c)))
    emit({"results": out})
