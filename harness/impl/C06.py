"""Implementation-side runner for C05/C06 (directional estimators). JSON in, JSON out.

ops (all floats as float.hex() strings, 'nan' allowed):
  incru   {th}                         utils.get_direction_increment
  mem     {th,m}                       mem._mem (numpy) and mem.numba_mem (jitted) for one quadruple
  dist    {l,d,th}                     mem2_directional_distribution
  cons    {l,m,d,th}                   moment_constraints
  jac     {l,d,th}                     mem2_jacobian (row major 16)
  init    {m}                          initial_value
  chol    {a(16),r(4)}                 solve_cholesky
  solver  {m,g,d,th,approx}            mem2_newton_solver(moments, guess, d, twiddle, None, approx)
  est     {method,sm,dirs,shape,a1,b1,a2,b2,single}   estimate_directional_distribution on a batch;
                                       single=True also evaluates every entry alone
  spec    {method,sm,n,shape,f,e,a1,b1,a2,b2,meta}    FrequencySpectrum.as_frequency_direction_spectrum
"""
import warnings

import numpy as np
from implcommon import read_payload, emit, hx, unhx, guarded
import estlayout

warnings.simplefilter("ignore")

from ocean_science_utilities.wavespectra.estimators import mem as memmod  # noqa: E402
from ocean_science_utilities.wavespectra.estimators import mem2 as mem2mod  # noqa: E402
from ocean_science_utilities.wavespectra.estimators import utils as utilmod  # noqa: E402
from ocean_science_utilities.wavespectra.estimators.estimate import (  # noqa: E402
    estimate_directional_distribution,
)


def arr(xs):
    return np.array([unhx(v) for v in xs], dtype=float)


def hl(a):
    return [hx(v) for v in np.asarray(a, dtype=float).ravel()]


def twiddle(th):
    t = np.empty((4, len(th)))
    t[0, :] = np.cos(th)
    t[1, :] = np.sin(th)
    t[2, :] = np.cos(2 * th)
    t[3, :] = np.sin(2 * th)
    return t


def kw_of(c):
    return {} if c.get("sm") is None else {"solution_method": c["sm"]}


def do_est(c):
    dirs = arr(c["dirs"])
    shape = tuple(c["shape"])
    a = [arr(c[k]).reshape(shape) for k in ("a1", "b1", "a2", "b2")]
    lay = c.get("layout")
    b = [estlayout.relayout(x, lay) for x in a]
    out = estimate_directional_distribution(b[0], b[1], b[2], b[3], dirs, c["method"], **kw_of(c))
    if lay:
        # same values, another memory layout / split of the leading dimensions: back to the logical shape
        out = estlayout.unslab(out, lay)
        out = np.asarray(out).reshape(shape + (out.shape[-1],))
    res = {"shape": list(out.shape), "out": hl(out)}
    if c.get("f32"):
        res["f32"] = guarded(lambda: [hx(v) for v in estlayout.f32_deviation(
            estimate_directional_distribution, a, dirs, c["method"], kw_of(c))])
    if c.get("single"):
        flat = [x.reshape(-1) for x in a]
        singles = []
        for i in range(flat[0].shape[0]):
            q = [np.array([x[i]]) for x in flat]
            s = guarded(lambda: hl(estimate_directional_distribution(q[0], q[1], q[2], q[3], dirs,
                                                                     c["method"], **kw_of(c))))
            singles.append(s)
        res["singles"] = singles
    return res


def do_spec(c):
    import xarray
    from ocean_science_utilities.wavespectra.spectrum import FrequencySpectrum
    shape = tuple(c["shape"])           # leading dims + nf
    f = arr(c["f"])
    lead = shape[:-1]
    names = ["time", "xpoint"][:len(lead)] if len(lead) <= 2 else None
    dims = list(names) + ["frequency"]
    coords = {"frequency": f}
    if len(lead) >= 1:
        coords["time"] = np.array(c["meta"]["time"][:lead[0]], dtype="datetime64[s]").astype("datetime64[ns]")
    if len(lead) >= 2:
        coords["xpoint"] = np.arange(lead[1])
    dv = {}
    for k in ("e", "a1", "b1", "a2", "b2"):
        nm = "variance_density" if k == "e" else k
        dv[nm] = (dims, arr(c[k]).reshape(shape))
    for k in ("latitude", "longitude", "depth"):
        dv[k] = (list(names), arr(c["meta"][k]).reshape(lead))
    if len(lead) == 0:
        dv["time"] = ((), np.datetime64(c["meta"]["time"][0], "s").astype("datetime64[ns]"))
    ds = xarray.Dataset(data_vars=dv, coords=coords)
    s1 = FrequencySpectrum(ds)
    # the number of directions as a Python int or as a numpy integer (an element of an integer array)
    ndir = {"int": int, "int64": np.int64, "int32": np.int32}[c.get("ntype", "int")](c["n"])
    s2 = s1.as_frequency_direction_spectrum(ndir, method=c["method"], **kw_of(c))
    back = s2.as_frequency_spectrum()
    res = {
        "cls": type(s2).__name__,
        "dims": [str(x) for x in s2.dataset["variance_density"].dims],
        "shape2d": list(s2.dataset["variance_density"].shape),
        "e2d": hl(s2.dataset["variance_density"].values),
        "direction": hl(s2.dataset["direction"].values),
        "frequency": hl(s2.dataset["frequency"].values),
        "e_back": hl(s2.e.values),
        "e_back_shape": list(s2.e.shape),
        "m0_in": hl(s1.m0().values),
        "m0_out": hl(s2.m0().values),
        "m0_back": hl(back.m0().values),
        "meta": {},
    }
    for k in ("latitude", "longitude", "depth"):
        res["meta"][k] = {"dims": [str(x) for x in s2.dataset[k].dims], "val": hl(s2.dataset[k].values)}
    tv = s2.dataset["time"].values
    res["meta"]["time"] = {"dims": [str(x) for x in s2.dataset["time"].dims],
                           "val": [str(v) for v in np.atleast_1d(tv).astype("datetime64[s]")]}
    res["extra_vars"] = sorted(str(x) for x in s2.dataset.data_vars)
    return res


def run_case(c):
    op = c["op"]
    if op == "incru":
        return hl(utilmod.get_direction_increment(arr(c["th"])))
    if op == "mem":
        th = arr(c["th"])
        m = arr(c["m"])
        a = memmod._mem(th, np.array([m[0]]), np.array([m[1]]), np.array([m[2]]), np.array([m[3]]))
        b = guarded(lambda: hl(memmod.numba_mem(th, m[0], m[1], m[2], m[3])))
        return {"numpy": hl(a), "numba": b}
    if op == "dist":
        th = arr(c["th"])
        return hl(mem2mod.mem2_directional_distribution(arr(c["l"]), arr(c["d"]), twiddle(th)))
    if op == "cons":
        th = arr(c["th"])
        return hl(mem2mod.moment_constraints(arr(c["l"]), twiddle(th), arr(c["m"]), arr(c["d"])))
    if op == "jac":
        th = arr(c["th"])
        j = np.zeros((4, 4))
        j = mem2mod.mem2_jacobian(arr(c["l"]), twiddle(th), arr(c["d"]), j)
        return hl(j)
    if op == "init":
        m = arr(c["m"])
        return hl(mem2mod.initial_value(np.array(m[0]), np.array(m[1]), np.array(m[2]), np.array(m[3])))
    if op == "chol":
        r = mem2mod.solve_cholesky(arr(c["a"]).reshape(4, 4), arr(c["r"]))
        if isinstance(r, tuple):
            return {"ok": bool(r[1]), "x": hl(r[0])}
        return {"ok": True, "x": hl(r)}
    if op == "solver":
        th = arr(c["th"])
        return hl(mem2mod.mem2_newton_solver(arr(c["m"]), arr(c["g"]), arr(c["d"]), twiddle(th), None,
                                             bool(c.get("approx", False))))
    if op == "est":
        return do_est(c)
    if op == "spec":
        return do_spec(c)
    raise ValueError("unknown op " + op)


def _earlier_call_with_custom_config():
    """One earlier call with a caller-supplied solver configuration.  Every later call with default
    settings must be unaffected by it: the property quantifies over inputs, not over what the
    process did before (a configuration that leaks into the module defaults shows up as a
    disagreement of every later Newton reconstruction)."""
    try:
        from ocean_science_utilities.wavespectra.estimators.mem2 import mem2
        d = np.linspace(0, 2 * np.pi, 24, endpoint=False)
        mem2(d, np.array([0.5]), np.array([0.3]), np.array([0.1]), np.array([0.05]), None, "newton",
             {"atol": 0.1, "max_iter": 5.0})
    except Exception:  # noqa
        pass


P = read_payload()
_earlier_call_with_custom_config()
out = []
for case in P["cases"]:
    out.append(guarded(lambda: run_case(case)))
emit({"results": out})
