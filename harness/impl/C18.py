"""Drives the real FileCache through operation histories (C18/C19) and reports what is observable
after every operation: return value, directory listing with classified bytes, recency order, the
entry table, resources contacted, configured size.

Time is made logical from outside: after every operation each file touched during the operation
gets a fresh logical time stamp (far in the past, strictly increasing), so "older" is unambiguous
and real `now` stamps written by the code during an operation are always newer than everything
that existed before it.  Downloads are stamped by the instrumented resource itself in request
order (one second ahead of `now`), so they are newer than the hits touched in the same request.
"""
import hashlib
import json
import os
import shutil
import sys
import tempfile
import time
import warnings

from implcommon import read_payload, emit

warnings.filterwarnings("ignore")
import logging  # noqa: E402
logging.disable(logging.CRITICAL)

from ocean_science_utilities.filecache import cache_object as co  # noqa: E402
from ocean_science_utilities.filecache import filecache as fcmod  # noqa: E402
from ocean_science_utilities.filecache.cache_object import FileCache  # noqa: E402
from ocean_science_utilities.filecache.remote_resources import (  # noqa: E402
    RemoteResource, _RemoteResourceUriNotFound)

BASE_NS = 10 ** 18
REAL_THRESHOLD_NS = 15 * 10 ** 17
PP = b"#PP#PP#PP#PP"
FOREIGN_NAMES = ["userdata.bin", "cachefile_notreally", "notreally_cachefile",
                 "cachefile_x_cachefile.bak", "xcachefile_y_cachefile", "buoy_export.csv.download"]
NRES, NCOM = 6, 4


def uri_of(r, k):
    return "test://res%d" % r + ("<<c%d" % k if k else "")


def base_of(r, k):
    return "cachefile_" + hashlib.md5(uri_of(r, k).encode()).hexdigest() + "_cachefile"


CANON = {}
for _r in range(NRES):
    for _k in range(NCOM):
        CANON[base_of(_r, _k)] = "C.%d.%d" % (_r, _k)
        CANON[base_of(_r, _k) + ".download"] = "T.%d.%d" % (_r, _k)
for _j, _n in enumerate(FOREIGN_NAMES):
    CANON[_n] = "F.%d" % _j
UNCANON = {v: k for k, v in CANON.items()}


def full_bytes(r, v):
    size = 1000 + 500 * r + 7 * v
    pat = ("<r%dv%d>" % (r, v)).encode()
    return (pat * (size // len(pat) + 1))[:size]


def classify(data):
    if data.startswith(b"<r"):
        try:
            head = data[:data.index(b">") + 1].decode()
            r = int(head[2:head.index("v")])
            v = int(head[head.index("v") + 1:-1])
            fb = full_bytes(r, v)
            if data == fb:
                return "F.%d.%d" % (r, v)
            if data == fb + PP:
                return "P.%d.%d" % (r, v)
            if data == fb[:len(fb) // 2]:
                return "H.%d.%d" % (r, v)
        except Exception:
            pass
    if data and data == b"u" * len(data) and len(data) >= 10:
        return "B.%d" % (len(data) - 10)
    return "?len%d:%s" % (len(data), hashlib.md5(data).hexdigest()[:8])


class Plan:
    """what the environment does during the current operation"""
    def __init__(self):
        self.out = {}       # res -> (kind, v, request index)
        self.val = {}       # canon name -> 'O'|'R'|'I'
        self.post = {}      # canon name -> 'T'|'F'
        self.idx = {}       # canon name -> position in the request
        self.t0 = 0


PLAN = Plan()
VSTYLE = ["bool"]
LOGFILE = None

# Path.touch() is what the cache uses to mark a hit as recently used.  The kernel's file time
# stamps are coarse (two touches within a few ms can tie), so inside this runner a touch writes an
# explicit, strictly increasing stamp (operation start + k microseconds): hits touched in one
# request are ordered by the order of the touch calls, and all of them are older than the
# downloads of the same request (which are stamped operation start + 1 s + position).
import pathlib  # noqa: E402
_TOUCH_SEQ = [0]
_orig_touch = pathlib.Path.touch


def _ordered_touch(self, mode=0o666, exist_ok=True):
    if exist_ok and os.path.exists(self):
        _TOUCH_SEQ[0] += 1
        stamp = PLAN.t0 + _TOUCH_SEQ[0] * 1000
        os.utime(self, ns=(stamp, stamp))
        return None
    return _orig_touch(self, mode, exist_ok)


pathlib.Path.touch = _ordered_touch


def rk_of_path(path):
    b = os.path.basename(path)
    if b.endswith(".download"):
        b = b[:-len(".download")]
    c = CANON.get(b)
    return c


OLD_NS = 10 ** 18            # 2001-09-09
ENV_FACTS = []
from ocean_science_utilities.filecache.remote_resources import RemoteResourceLocal  # noqa: E402
LOCAL_COPY = RemoteResourceLocal().download()
_SOURCES = {}
_SRC_DIR = [None]


def source_file(r, v, data):
    """the remote object as a local file: written long ago (mtime 2001) and read once when it was made, so that
    under the usual relatime mount a later read does not refresh its access time"""
    if _SRC_DIR[0] is None:
        _SRC_DIR[0] = tempfile.mkdtemp(prefix="osu_c18_src_", dir=os.environ.get("VERIF_TMP") or None)
    key = (r, v)
    if key not in _SOURCES:
        p = os.path.join(_SRC_DIR[0], "obj_%d_%d" % key)
        with open(p, "wb") as f:
            f.write(data)
        os.utime(p, ns=(OLD_NS, OLD_NS))
        with open(p, "rb") as f:
            f.read()
        _SOURCES[key] = (p, time.time_ns())
    p, made = _SOURCES[key]
    wait = made + 12 * 10 ** 7 - time.time_ns()
    if wait > 0:
        time.sleep(wait / 1e9)
    return p


class TestResource(RemoteResource):
    URI_PREFIX = "test://"

    def download(self):
        def _dl(uri, filepath):
            r = int(uri[len("test://res"):].split("<<")[0])
            with open(LOGFILE, "a") as f:
                f.write("%d\n" % r)
            kind, v, idx = PLAN.out.get(r, ("K", 0, 0))
            idx = PLAN.idx.get(rk_of_path(filepath), idx)     # position of this URI in the request
            stamp = PLAN.t0 + 10 ** 9 + idx * 10 ** 6
            if kind == "N":
                raise _RemoteResourceUriNotFound("no such object %s" % uri)
            if kind == "B":
                raise IOError("injected failure before writing %s" % uri)
            data = full_bytes(r, v)
            if kind == "K":
                # the bytes are delivered by the library's own local-file resource (RemoteResourceLocal) from a
                # source file that is OLD: the copy in the cache is a new file, stamped when it was fetched -
                # recency is what eviction orders by, and the age of the remote object has nothing to do with it
                src = source_file(r, v, data)
                before = time.time_ns()
                LOCAL_COPY("file://" + src, filepath)
                st = os.stat(filepath)
                if max(st.st_atime_ns, st.st_mtime_ns) < before - 5 * 10 ** 7:
                    ENV_FACTS.append("a file fetched through RemoteResourceLocal carries the time stamps of its source "
                                     "(written in 2001, last read when the run started) instead of the time it was fetched: "
                                     "eviction sees it as older than every entry fetched before it")
                os.utime(filepath, ns=(stamp, stamp))
                return True
            with open(filepath, "wb") as f:
                f.write(data[:len(data) // 2])
                f.flush()
                os.fsync(f.fileno())
            os.utime(filepath, ns=(stamp, stamp))
            if kind == "H":
                raise IOError("injected failure while writing %s" % uri)
            if kind == "C":
                os._exit(17)
            raise RuntimeError("bad plan")
        return _dl


def validate_fn(filepath):
    c = rk_of_path(filepath)
    r = PLAN.val.get(c, "O")
    if r == "I":
        raise IOError("injected validation IOError")
    # a validation function reports acceptance / rejection with a truth value: the Python singletons, or what
    # numpy comparisons return (numpy.bool_), or an integer flag
    ok = r == "O"
    if VSTYLE[0] == "numpy":
        import numpy as np
        return np.all(np.array([ok]))
    if VSTYLE[0] == "int":
        return 1 if ok else 0
    return ok


def post_fn(filepath):
    c = rk_of_path(filepath)
    r = PLAN.post.get(c, "T")
    if r == "F":
        raise RuntimeError("injected post-processing failure")
    st = os.stat(filepath)
    with open(filepath, "ab") as f:
        f.write(PP)
    os.utime(filepath, ns=(st.st_mtime_ns, st.st_mtime_ns))
    return None


class Runner:
    def __init__(self, hist, root):
        self.h = hist
        VSTYLE[0] = hist.get("validator_returns", "bool")
        self.dir = os.path.join(root, "cache")
        os.makedirs(self.dir)
        # the path handed to the library: absolute, or relative to the working directory (data/cache)
        self.cpath = self.dir
        if hist.get("relative_cache_path"):
            os.chdir(root)
            self.cpath = "cache"
        self.L = 1
        self.cache = None
        self.log_pos = 0

    def open(self, do_evict, first=False):
        sz = self.h["maxb"] / 1e9
        if not first:
            sz = 123.0          # ignored: the persisted configuration wins
        if self.h.get("via_module"):
            # the module-level API of filecache.py: named caches, one path per cache
            name = "verif_cache_%d" % id(self)
            fcmod._ACTIVE_FILE_CACHES.pop(name, None)
            fcmod.create_cache(name, self.cpath, cache_size_GB=sz, do_cache_eviction_on_startup=do_evict,
                               download_in_parallel=self.h["par"] if first else (not self.h["par"]),
                               resources=[TestResource()])
            self.modname = name
            c = fcmod.get_cache(name)
            c.disable_progress_bar = True
            fcmod.set_directive_function("validate", "chk", validate_fn, name)
            fcmod.set_directive_function("postprocess", "pp", post_fn, name)
            self.cache = c
            # a second cache on the same directory must be refused; the name must be known
            self.module_facts = []
            try:
                fcmod.create_cache(name + "_twin", self.dir, resources=[TestResource()])
                fcmod._ACTIVE_FILE_CACHES.pop(name + "_twin", None)
                self.module_facts.append("second cache on the same path was accepted")
            except ValueError:
                pass
            if not fcmod.exists(name) or fcmod.exists(name + "_twin"):
                self.module_facts.append("exists() wrong")
            return
        c = FileCache(self.cpath, size_GB=sz, do_cache_eviction_on_startup=do_evict,
                      resources=[TestResource()],
                      parallel=self.h["par"] if first else (not self.h["par"]),
                      allow_for_missing_files=self.h["allow"] if first else (not self.h["allow"]))
        c.disable_progress_bar = True
        c.set_directive_function("validate", "chk", validate_fn)
        c.set_directive_function("postprocess", "pp", post_fn)
        self.cache = c

    def listing(self):
        out = {}
        for b in os.listdir(self.dir):
            if b == "file_cache_config.json":
                continue
            p = os.path.join(self.dir, b)
            if os.path.isdir(p):
                for bb in sorted(os.listdir(p)):
                    with open(os.path.join(p, bb), "rb") as f:
                        data = f.read()
                    if data != b"s" * len(data):
                        out["?%s/%s" % (b, bb)] = ("changed", os.path.join(p, bb))
                continue
            st = os.stat(p)
            # reading must not disturb the access time (it is part of the cache's recency)
            fd = os.open(p, os.O_RDONLY | getattr(os, "O_NOATIME", 0))
            try:
                data = b""
                while True:
                    chunk = os.read(fd, 1 << 20)
                    if not chunk:
                        break
                    data += chunk
            finally:
                os.close(fd)
            st2 = os.stat(p)
            if (st2.st_atime_ns, st2.st_mtime_ns) != (st.st_atime_ns, st.st_mtime_ns):
                os.utime(p, ns=(st.st_atime_ns, st.st_mtime_ns))
            out[CANON.get(b, "?" + b)] = (classify(data), p)
        return out

    def normalise(self, req_names):
        """give every file written/touched during the operation a fresh logical stamp:
        touched hits in request order, then (re)written files in request order, then the rest"""
        new = []
        for b in os.listdir(self.dir):
            if b == "file_cache_config.json":
                continue
            p = os.path.join(self.dir, b)
            if os.path.isdir(p):
                continue
            st = os.stat(p)
            t = max(st.st_atime_ns, st.st_mtime_ns)
            if t >= REAL_THRESHOLD_NS:
                new.append((t >= PLAN.t0 + 5 * 10 ** 8, CANON.get(b, b), t, p))

        def key(x):
            downloaded, c, t, p = x
            base = c.replace("T.", "C.")
            # a URI named twice is touched / written again: its last position in the request counts
            idx = (len(req_names) - 1 - req_names[::-1].index(base)) if base in req_names else 10 ** 6
            return (1 if downloaded else 0, idx, t)
        for downloaded, c, t, p in sorted(new, key=key):
            stamp = BASE_NS + self.L * 10 ** 9
            self.L += 1
            os.utime(p, ns=(stamp, stamp))

    def observe(self, res, with_entries=True):
        ls = self.listing()
        files = {c: tok for c, (tok, p) in ls.items()}
        times = []
        for c, (tok, p) in ls.items():
            if c.startswith("C."):
                st = os.stat(p)
                times.append((max(st.st_atime_ns, st.st_mtime_ns), c))
        order = [c for t, c in sorted(times)]
        with open(LOGFILE) as f:
            lines = f.read().split()
        fetched = [int(x) for x in lines[self.log_pos:]]
        self.log_pos = len(lines)
        o = {"res": res, "files": files, "order": order, "fetched": fetched}
        if with_entries and self.cache is not None:
            o["entries"] = sorted(CANON.get(k, "?" + k) for k in self.cache._entries.keys())
            probe = [(r, k) for r in range(4) for k in range(3)]
            inc = self.cache.in_cache([uri_of(r, k) for r, k in probe])
            o["in_cache"] = sorted("C.%d.%d" % rk for rk, b in zip(probe, inc) if b)
            if getattr(self, "module_facts", None):
                o["module_facts"] = list(self.module_facts)
            if ENV_FACTS:
                o["environment_facts"] = sorted(set(ENV_FACTS))
                del ENV_FACTS[:]
            o["len"] = len(self.cache)
            o["maxb"] = int(self.cache.config.max_size_bytes)
            o["par"] = bool(self.cache.config.parallel)
            o["allow"] = bool(self.cache.config.allow_for_missing_files)
        else:
            o["entries"] = None
        return o

    def do_get(self, op):
        PLAN.out, PLAN.val, PLAN.post, PLAN.idx = {}, {}, {}, {}
        uris = []
        names = []
        for idx, q in enumerate(op["reqs"]):
            r, k = q["r"], q["k"]
            c = "C.%d.%d" % (r, k)
            names.append(c)
            PLAN.idx[c] = idx          # a repeated URI is downloaded again: the last write stamps the file
            kind = q["out"][0]
            v = q["out"][1] if len(q["out"]) > 1 else 0
            if r not in PLAN.out:
                PLAN.out[r] = (kind, v, idx)
            d = []
            if q["val"] != "N":
                d.append("validate=chk")
                PLAN.val[c] = q["val"]
            if q["post"] != "N":
                d.append("postprocess=pp")
                PLAN.post[c] = q["post"]
            u = uri_of(r, k)
            uris.append((";".join(d) + ":" + u) if d else u)
        PLAN.t0 = time.time_ns()
        _TOUCH_SEQ[0] = 0
        arg = uris[0] if (len(uris) == 1 and op.get("single")) else uris
        try:
            if self.h.get("via_module"):
                paths = fcmod.filepaths(arg, self.modname)
            else:
                paths = self.cache[arg]
            res = ["P", [CANON.get(os.path.basename(p), "?" + os.path.basename(p)) for p in paths]]
            # the property's own oracle, on the real directory: every returned path exists now
            res.append([os.path.exists(p) for p in paths])
        except Exception as e:  # noqa
            res = ["R", type(e).__name__]
        return res, names

    def run(self):
        obs = []
        ops = self.h["ops"]
        self.open(False, first=True)
        i = 0
        while i < len(ops):
            op = ops[i]
            kind = op["op"]
            names = []
            with_entries = True
            if kind == "G":
                crash = any(q["out"][0] == "C" for q in op["reqs"])
                if crash:
                    sys.stdout.flush()
                    rfile = os.path.join(os.path.dirname(self.dir), "child_%d.json" % i)
                    pid = os.fork()
                    if pid == 0:
                        # child: carries on as the main process unless it dies in the download
                        try:
                            res, names = self.do_get(op)
                            if self.h.get("settle"):
                                time.sleep(0.05)
                            self.normalise(names)
                            rest = [self.observe(res)]
                            self._continue(ops, i + 1, rest)
                            with open(rfile, "w") as f:
                                json.dump(rest, f)
                        finally:
                            os._exit(0)
                    _, status = os.waitpid(pid, 0)
                    code = os.waitstatus_to_exitcode(status)
                    if code == 17:
                        names = ["C.%d.%d" % (q["r"], q["k"]) for q in op["reqs"]]
                        self.cache = None
                        self.normalise(names)
                        obs.append(self.observe(["X"], with_entries=False))
                        i += 1
                        continue
                    if os.path.exists(rfile):
                        obs.extend(json.load(open(rfile)))
                    else:
                        obs.append({"res": ["?", "child died with %s" % code]})
                    return obs
                if self.cache is None:
                    obs.append({"res": ["?", "no cache object (reopen must follow a crash)"]})
                    return obs
                res, names = self.do_get(op)
                if self.h.get("settle"):
                    time.sleep(0.05)
            else:
                res, stop = self.simple(op)
                if stop:
                    obs.append(self.observe(res, with_entries=False))
                    return obs
            self.normalise(names)
            obs.append(self.observe(res))
            i += 1
        return obs

    def _continue(self, ops, start, out):
        for j in range(start, len(ops)):
            op = ops[j]
            names = []
            if op["op"] == "G":
                if any(q["out"][0] == "C" for q in op["reqs"]):
                    out.append({"res": ["?", "second crash in one history is not supported"]})
                    return
                res, names = self.do_get(op)
                if self.h.get("settle"):
                    time.sleep(0.05)
            else:
                res, stop = self.simple(op)
                if stop:
                    out.append(self.observe(res, with_entries=False))
                    return
            self.normalise(names)
            out.append(self.observe(res))

    def simple(self, op):
        kind = op["op"]
        PLAN.t0 = time.time_ns()
        try:
            if kind == "O":
                try:
                    self.open(op["evict"])
                except Exception as e:  # noqa
                    self.cache = None
                    return ["R", type(e).__name__], True
                return ["D"], False
            if self.cache is None and kind in ("R", "P", "M"):
                return ["?", "no cache object"], True
            if kind == "R":
                if self.h.get("via_module"):
                    fcmod.delete_files(uri_of(op["r"], op["k"]), self.modname, error_if_not_in_cache=False)
                else:
                    self.cache.remove(uri_of(op["r"], op["k"]))
            elif kind == "P":
                self.cache.purge()
            elif kind == "M":
                self.cache.config.parallel = op["p"]
                self.cache.config.allow_for_missing_files = op["a"]
            elif kind in ("T", "A"):
                b = UNCANON[op["name"]]
                p = os.path.join(self.dir, b)
                if os.path.exists(p):
                    if kind == "T":
                        stamp = BASE_NS + self.L * 10 ** 9
                    else:
                        stamp = BASE_NS - self.L * 10 ** 9
                    self.L += 1
                    os.utime(p, ns=(stamp, stamp))
            elif kind == "F":
                p = os.path.join(self.dir, FOREIGN_NAMES[op["j"]])
                with open(p, "wb") as f:
                    f.write(b"u" * (10 + op["c"]))
                if self.h.get("foreign_subdirectories"):
                    # a user's sub directory inside the cache directory (a backup copy of cache files, a nested
                    # second cache): it is not part of this cache, whatever the files in it are called
                    sub = os.path.join(self.dir, "backup_%d" % op["j"])
                    os.makedirs(sub, exist_ok=True)
                    with open(os.path.join(sub, base_of(op["j"] % NRES, op["c"] % 2)), "wb") as f:
                        f.write(b"s" * (20 + op["c"]))
            return ["D"], False
        except Exception as e:  # noqa
            return ["R", type(e).__name__], False


def main():
    global LOGFILE
    P = read_payload()
    results = []
    root0 = tempfile.mkdtemp(prefix="osu_c18_", dir=os.environ.get("VERIF_TMP") or None)
    try:
        for hi, h in enumerate(P["histories"]):
            root = os.path.join(root0, "h%d" % hi)
            os.makedirs(root)
            LOGFILE = os.path.join(root, "fetch.log")
            open(LOGFILE, "w").close()
            try:
                r = Runner(h, root)
                results.append({"obs": r.run()})
            except Exception as e:  # noqa
                import traceback
                results.append({"error": type(e).__name__, "msg": str(e)[:300], "tb": traceback.format_exc()[-1500:]})
            os.chdir(root0)
            shutil.rmtree(root, ignore_errors=True)
    finally:
        shutil.rmtree(root0, ignore_errors=True)
        if _SRC_DIR[0]:
            shutil.rmtree(_SRC_DIR[0], ignore_errors=True)
    emit({"results": results})


main()
