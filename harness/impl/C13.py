"""Implementation-side runner for C13 / C14 (interpolation).  JSON in, JSON out.

A dataset is described as
   {"coords": {name: {"kind": "float"|"time", "values": [...]}},      (time: integer seconds since EPOCH)
    "vars":   [{"name": n, "dims": [...], "shape": [...], "data": [hex...]}]}
and dumped the same way.  Every op is wrapped in guarded(): an exception is data.
"""
import numpy as np

from implcommon import read_payload, emit, hx, unhx, guarded, LABEL_PROBLEMS

EPOCH = np.datetime64("2020-01-01T00:00:00", "s")


def to_time(vals):
    return np.array([EPOCH + np.timedelta64(int(v), "s") for v in vals], dtype="datetime64[s]")


def from_time(arr):
    a = np.asarray(arr)
    out = []
    for v in a.reshape(-1):
        d = (np.datetime64(v, "ns") - np.datetime64(EPOCH, "ns")).astype("int64")
        out.append(hx(float(d) / 1e9))
    return out


def arr(vals):
    return np.array([unhx(v) for v in vals], dtype="float64")


def coord_values(c):
    if c["kind"] == "time":
        return to_time(c["values"])
    return arr(c["values"]).astype(c.get("dtype", "float64"))


def build_ds(d):
    import xarray
    coords = {k: coord_values(c) for k, c in d["coords"].items()}
    ds = xarray.Dataset(coords=coords)
    for v in d["vars"]:
        data = arr(v["data"]).reshape(v["shape"])
        ds[v["name"]] = xarray.DataArray(data, dims=v["dims"],
                                         coords={k: coords[k] for k in v["dims"] if k in coords})
    return ds


def dump_array(a):
    a = np.asarray(a)
    if np.issubdtype(a.dtype, np.datetime64):
        return {"shape": list(a.shape), "time": True, "data": from_time(a)}
    return {"shape": list(a.shape), "data": [hx(v) for v in np.asarray(a, dtype="float64").reshape(-1)]}


def dump_ds(ds):
    out = {"vars": {}, "coords": {}}
    for name in ds.data_vars:
        da = ds[name]
        e = dump_array(da.values)
        e["dims"] = [str(x) for x in da.dims]
        out["vars"][str(name)] = e
    for name in ds.coords:
        e = dump_array(ds.coords[name].values)
        e["dims"] = [str(x) for x in ds.coords[name].dims]
        out["coords"][str(name)] = e
    return out


def targets_of(t):
    v = coord_values(t)
    if t.get("scalar"):
        return v[0]
    if t.get("as_dataarray"):
        import xarray
        return xarray.DataArray(v, dims=["__t"])
    return v


def op_enc(c):
    from ocean_science_utilities.tools.grid import enclosing_points_1d
    from ocean_science_utilities.interpolate.general import interpolation_weights_1d
    xp = arr(c["xp"])
    x = arr(c["x"])
    period = None if c.get("period") is None else unhx(c["period"])
    idx = enclosing_points_1d(xp.copy(), x.copy(), period=period)
    wl = interpolation_weights_1d(xp.copy(), x.copy(), idx, period=period, extrapolate_left=False,
                                  extrapolate_right=False, nearest_neighbour=False)
    wn = interpolation_weights_1d(xp.copy(), x.copy(), idx, period=period, extrapolate_left=False,
                                  extrapolate_right=False, nearest_neighbour=True)
    return {"idx": [[int(v) for v in idx[0]], [int(v) for v in idx[1]]],
            "wl": [[hx(v) for v in wl[0]], [hx(v) for v in wl[1]]],
            "wn": [[hx(v) for v in wn[0]], [hx(v) for v in wn[1]]]}


def kw_periodic(c):
    kw = {}
    if "periodic_data" in c:
        kw["periodic_data"] = {k: tuple(v) for k, v in c["periodic_data"].items()}
    if "periodic_coordinates" in c:
        kw["periodic_coordinates"] = dict(c["periodic_coordinates"])
    return kw


def audit_axis(r, ds, coord, targets, what):
    """labels of the result of an interpolation along `coord`: the interpolated coordinate holds the requested
    targets in the requested order; every other dimension of every variable keeps the input's coordinate"""
    tv = np.atleast_1d(np.asarray(getattr(targets, "values", targets)))
    for name in r.data_vars:
        v = r[name]
        for d in v.dims:
            d = str(d)
            if d == coord:
                want = tv
            elif d in ds.coords and d in ds.dims:
                want = np.asarray(ds.coords[d].values)
            else:
                continue
            if len(LABEL_PROBLEMS) >= 40:
                return
            if d not in v.coords:
                LABEL_PROBLEMS.append({"what": "%s: variable %s" % (what, name), "call": what,
                                       "problem": "dimension %r carries no coordinate in the result (labels %s... lost: "
                                                  "values can only be read by position)" % (d, str(want[:4]))})
                continue
            got = np.asarray(v.coords[d].values)
            ok = got.shape == want.shape
            if ok:
                if np.issubdtype(got.dtype, np.datetime64) or np.issubdtype(want.dtype, np.datetime64):
                    ok = bool(np.array_equal(got.astype("datetime64[ns]"), want.astype("datetime64[ns]")))
                else:
                    ok = bool(np.array_equal(np.asarray(got, dtype=float), np.asarray(want, dtype=float)))
            if not ok:
                LABEL_PROBLEMS.append({"what": "%s: variable %s" % (what, name), "call": what,
                                       "problem": "coordinate %r of the result is %s..., expected %s... (%s)"
                                                  % (d, str(got[:5]), str(want[:5]),
                                                     "the requested targets, in the requested order" if d == coord
                                                     else "the input's own labels")})


def op_ds_axis(c):
    from ocean_science_utilities.interpolate.dataset import interpolate_dataset_along_axis
    ds = build_ds(c["ds"])
    before = dump_ds(ds)
    r = interpolate_dataset_along_axis(targets_of(c["targets"]), ds, coordinate_name=c["coord"],
                                       nearest_neighbour=c.get("nearest", False), **kw_periodic(c))
    out = dump_ds(r)
    audit_axis(r, ds, c["coord"], targets_of(c["targets"]), "interpolate_dataset_along_axis(%s)" % c["coord"])
    out["input_unchanged"] = (before == dump_ds(ds))
    return out


def op_ds_grid(c):
    from ocean_science_utilities.interpolate.dataset import interpolate_dataset_grid
    ds = build_ds(c["ds"])
    coords = {}
    for name, t in c["targets"]:
        coords[name] = targets_of(t)
    kw = {}
    if "periodic_data" in c:
        kw["periodic_data"] = {k: tuple(v) for k, v in c["periodic_data"].items()}
    r = interpolate_dataset_grid(coords, ds, nearest_neighbour=c.get("nearest", False), **kw)
    return dump_ds(r)


def op_points(c):
    ds = build_ds(c["ds"])
    pts = {}
    for name, t in c["points"]:
        pts[name] = coord_values(t)
    pc = c.get("periodic_coordinates")
    pdta = c.get("periodic_data")
    if c.get("via") == "dataarray":
        from ocean_science_utilities.interpolate.dataarray import interpolate_track_data_arrray
        v = c["variable"]
        pd_, dc = (pdta[v] if pdta and v in pdta else (None, None))
        r = interpolate_track_data_arrray(ds[v], pts, c.get("independent"), periodic_coordinates=pc,
                                          period_data=pd_, discont=dc)
        return {"vars": {v: dump_array(r.values)}}
    from ocean_science_utilities.interpolate.dataset import interpolate_at_points
    r = interpolate_at_points(ds, pts, independent_variable=c.get("independent"),
                              periodic_coordinates=pc,
                              periodic_data=None if pdta is None else {k: tuple(v) for k, v in pdta.items()})
    return dump_ds(r)


def op_ids(c):
    """interpolate_dataset(data_set, Track): time/latitude/longitude gridded data at a drifter track"""
    from ocean_science_utilities.interpolate.dataset import interpolate_dataset
    from ocean_science_utilities.interpolate.geometry import Track
    ds = build_ds(c["ds"])
    tr = Track.from_arrays(arr(c["lat"]), arr(c["lon"]), to_time(c["time"]), "trk")
    kw = {}
    if c.get("periodic_data"):
        kw["periodic_data"] = {k: tuple(v) for k, v in c["periodic_data"].items()}
    r = interpolate_dataset(ds, tr, **kw)
    out = {}
    for name, df in r.items():
        out[name] = {col: ([hx(v) for v in df[col].values] if col != "time" else
                           from_time(np.array(df[col].dt.tz_localize(None).values, dtype="datetime64[ns]")))
                     for col in df.columns}
    return out


def make_spectrum(c):
    from ocean_science_utilities.wavespectra.spectrum import create_1d_spectrum, create_2d_spectrum
    t = to_time(c["time"])
    f = arr(c["frequency"])
    nt, nf = len(t), len(f)
    lat = arr(c["latitude"])
    lon = arr(c["longitude"])
    dep = arr(c["depth"])
    if c["kind"] == "1d":
        sh = (nt, nf)
        return create_1d_spectrum(f, arr(c["e"]).reshape(sh), t, lat, lon,
                                  a1=arr(c["a1"]).reshape(sh), b1=arr(c["b1"]).reshape(sh),
                                  a2=arr(c["a2"]).reshape(sh), b2=arr(c["b2"]).reshape(sh), depth=dep)
    d = arr(c["direction"])
    sh = (nt, nf, len(d))
    return create_2d_spectrum(f, d, arr(c["e"]).reshape(sh), t, lat, lon, depth=dep)


def op_spec(c):
    from ocean_science_utilities.wavespectra.spectrum import WaveSpectrum
    s = make_spectrum(c)
    before = dump_ds(s.dataset)
    call = c["call"]
    kw = {}
    if "ext" in c:
        kw["extrapolation_value"] = unhx(c["ext"])
    if call == "interpolate":
        coords = {}
        for name, t in c["targets"]:
            coords[name] = targets_of(t)
        if "nearest" in c:
            kw["nearest_neighbour"] = c["nearest"]
        r = s.interpolate(coords, **kw)
    elif call == "interpolate_frequency":
        if "method" in c:
            kw["method"] = c["method"]
        r = s.interpolate_frequency(targets_of(c["targets"][0][1]), **kw)
    elif call == "base_interpolate_frequency":
        r = WaveSpectrum.interpolate_frequency(s, targets_of(c["targets"][0][1]), **kw)
    else:
        raise ValueError(call)
    out = dump_ds(r.dataset)
    out["type"] = type(r).__name__
    out["input_unchanged"] = (before == dump_ds(s.dataset))
    return out


def opt(c, k):
    return None if c.get(k) is None else unhx(c[k])


def op_iper(c):
    from ocean_science_utilities.interpolate.general import interpolate_periodic
    kw = {}
    if "left" in c:
        kw["left"] = unhx(c["left"])
    if "right" in c:
        kw["right"] = unhx(c["right"])
    r = interpolate_periodic(arr(c["xp"]), arr(c["fp"]), arr(c["x"]), x_period=opt(c, "xper"),
                             fp_period=opt(c, "fper"), fp_discont=opt(c, "fdisc"), **kw)
    return [hx(v) for v in r]


def op_wdiff(c):
    from ocean_science_utilities.tools.math import wrapped_difference
    kw = {}
    if c.get("disc") is not None:
        kw["discont"] = unhx(c["disc"])
    r = wrapped_difference(arr(c["delta"]), period=unhx(c["period"]), **kw)
    return [hx(v) for v in r]


def op_dataframe(c):
    import pandas as pd
    from ocean_science_utilities.interpolate.dataframe import interpolate_dataframe_time
    cols = {"time": to_time(c["time"])}
    for name, vals in c["columns"]:
        cols[name] = arr(vals)
    df = pd.DataFrame(cols)
    r = interpolate_dataframe_time(df, to_time(c["new_time"]))
    return {"columns": [str(x) for x in r.columns],
            "data": {str(n): [hx(v) for v in r[n].values] for n in r.columns if n != "time"},
            "time": from_time(np.array(r["time"].values, dtype="datetime64[ns]"))}


def op_track(c):
    from ocean_science_utilities.interpolate.geometry import Track
    tr = Track.from_arrays(arr(c["lat"]), arr(c["lon"]), to_time(c["time"]), "trk")
    r = tr.interpolate(to_time(c["new_time"]))
    return {"lat": [hx(v) for v in r.latitude], "lon": [hx(v) for v in r.longitude],
            "time": from_time(r.time), "n": len(r)}


OPS = {"enc": op_enc, "ds_axis": op_ds_axis, "ds_grid": op_ds_grid, "points": op_points, "ids": op_ids,
       "spec": op_spec, "iper": op_iper, "wdiff": op_wdiff, "dataframe": op_dataframe, "track": op_track}


def main():
    import warnings
    warnings.simplefilter("ignore")
    P = read_payload()
    out = []
    for c in P["cases"]:
        out.append(guarded(lambda: OPS[c["op"]](c)))
    emit({"results": out})


if __name__ == "__main__":
    main()
