"""C12 implementation runner: estimate_u10_from_spectrum / equilibrium_range_values on /repo.

case = {"kind": "1d"|"2d", "layout": [lead shape], "method", "convention" (or null = default),
        "kw": {keyword arguments actually passed; absent = library default},
        "f": [hex], "dirs": [hex] (2d), "E": nested hex lists with the leading shape, "a1", "b1" (1d)}
result = {"ustar": flat hex list, "dir": ..., "u10": ..., "dims": [...], "shape": [...],
          "eq": {"e","a1","b1"} (1d only)}
"""
import warnings

import numpy as np

from implcommon import read_payload, emit, hx, unhx, guarded

warnings.filterwarnings("ignore")

from ocean_science_utilities.wavespectra.spectrum import create_1d_spectrum, create_2d_spectrum  # noqa: E402
from ocean_science_utilities.wavephysics import windestimate as we  # noqa: E402


def arr(x):
    if isinstance(x, list):
        return np.array([arr(v) for v in x], dtype=float)
    return unhx(x)


def lead_coords(shape):
    if len(shape) == 0:
        return None, None, None, np.inf, ()
    if len(shape) == 1:
        nt = shape[0]
        return (np.arange(nt) * 3600.0 + 1.6e9, np.zeros(nt), np.zeros(nt), np.full(nt, np.inf), ("time",))
    nt, nl = shape
    return (np.arange(nt) * 3600.0 + 1.6e9, np.arange(nl) * 1.0, np.zeros((nt, nl)), np.full((nt, nl), np.inf),
            ("time", "latitude"))


def build(c):
    f = arr(c["f"])
    shape = list(c["layout"])
    t, lat, lon, depth, ld = lead_coords(shape)
    if c["kind"] == "1d":
        E = arr(c["E"]).reshape(shape + [len(f)])
        a1 = arr(c["a1"]).reshape(shape + [len(f)])
        b1 = arr(c["b1"]).reshape(shape + [len(f)])
        z = np.zeros_like(E)
        return create_1d_spectrum(f, E, t, lat, lon, a1=a1, b1=b1, a2=z, b2=z, depth=depth, dims=ld + ("frequency",))
    d = arr(c["dirs"])
    E = arr(c["E"]).reshape(shape + [len(f), len(d)])
    return create_2d_spectrum(f, d, E, t, lat, lon, dims=ld + ("frequency", "direction"), depth=depth)


KW_EQ = {"fmax": "fmax", "power": "power", "number_of_bins": "number_of_bins"}


def one(c):
    s = build(c)
    kw = {}
    for k, v in c["kw"].items():
        if k == "number_of_bins":
            kw[k] = int(v)
        elif k == "power" and c.get("power_int"):
            kw[k] = int(unhx(v))
        else:
            kw[k] = unhx(v)
    if c.get("convention") is not None:
        kw["direction_convention"] = c["convention"]
    if c.get("positional"):
        # method passed positionally (as estimate_u10_from_source_terms does)
        ds = we.estimate_u10_from_spectrum(s, c["method"], **kw)
    else:
        ds = we.estimate_u10_from_spectrum(s, method=c["method"], **kw)
    out = {"dims": [str(x) for x in ds["u10"].dims], "shape": list(ds["u10"].shape)}
    for name, key in (("friction_velocity", "ustar"), ("direction", "dir"), ("u10", "u10")):
        out[key] = [hx(v) for v in np.asarray(ds[name].values, dtype=float).ravel()]
        if list(ds[name].shape) != out["shape"]:
            out["shape_mismatch"] = name
    flat = lambda a: [hx(v) for v in np.asarray(a, dtype=float).ravel()]
    kw2 = dict(kw)
    kw2["direction_convention"] = "going_to_counter_clockwise_east"
    out["dir_gt"] = flat(we.estimate_u10_from_spectrum(s, method=c["method"], **kw2)["direction"].values)
    kw2["direction_convention"] = "coming_from_clockwise_north"
    out["dir_cf"] = flat(we.estimate_u10_from_spectrum(s, method=c["method"], **kw2)["direction"].values)
    if c["kind"] == "1d":
        ekw = {k: kw[k] for k in KW_EQ if k in kw}
        if "fmax" not in ekw:
            ekw["fmax"] = 0.5      # the default that estimate_u10_from_spectrum passes on
        e, a1, b1 = we.equilibrium_range_values(s, c["method"], **ekw)
        out["eq"] = {"e": [hx(v) for v in np.asarray(e, dtype=float).ravel()],
                     "a1": [hx(v) for v in np.asarray(a1, dtype=float).ravel()],
                     "b1": [hx(v) for v in np.asarray(b1, dtype=float).ravel()]}
    else:
        s1 = s.as_frequency_spectrum()
        d1 = we.estimate_u10_from_spectrum(s1, method=c["method"], **kw)
        out["ustar_1d"] = flat(d1["friction_velocity"].values)
        out["dir_1d"] = flat(d1["direction"].values)
        out["u10_1d"] = flat(d1["u10"].values)
        out["red"] = {"e": [hx(v) for v in np.asarray(s1.variance_density.values, dtype=float).ravel()],
                      "a1": [hx(v) for v in np.asarray(s1.a1.values, dtype=float).ravel()],
                      "b1": [hx(v) for v in np.asarray(s1.b1.values, dtype=float).ravel()]}
    return out


P = read_payload()
res = []
for c in P["cases"]:
    res.append(guarded(lambda: one(c)))
emit({"results": res})
