#!/usr/bin/env python3
"""./check <PID> [--tier quick|thorough] [--replay FILE] [--build-only]

exit 0: property held on everything explored (KNOWN-FINDING lines may be printed)
exit 1: at least one line  VIOLATION property=<id> replay=<path> [no-failing-input-found]
exit 2: infrastructure error (timeout, tool failure) - never a VIOLATION
"""
import argparse
import importlib
import json
import os
import re
import sys
import time
import traceback

sys.path.insert(0, os.path.dirname(os.path.abspath(__file__)))
import common as C  # noqa: E402

FIXED_TRUSTED = [
    "Coq 8.16.1 kernel (coqc; vm_compute used for finite tables and Examples; no native_compute)",
    "extraction to OCaml (ExtrOcamlBasic + directives of coq/Extract/RFloat.v: R realised as binary64, libm for sqrt/exp/ln/sin/cos/atan/tanh, float comparisons for Rle_dec/Rlt_dec/Req_EM_T; no rounding bound proved)",
    "correspondence harness (harness/props, harness/impl, ocaml/drv_*.ml): generators, tolerances, canonicalisation",
]


def load_known():
    findings, fixed = [], []
    p = os.path.join(C.VERIF, "known_findings.txt")
    if os.path.exists(p):
        for line in open(p):
            line = line.strip()
            m = re.match(r"finding:\s+property=(\S+)\s+key=(\S+)\s+(.*)", line)
            if m:
                findings.append({"pid": m.group(1), "key": m.group(2), "text": m.group(3)})
            m = re.match(r"fixed:\s+property=(\S+)\s+(\S+)\s+(.*)", line)
            if m:
                fixed.append({"pid": m.group(1), "commit": m.group(2), "text": m.group(3)})
    return findings, fixed


def write_replay(pid, idx, obj):
    d = os.path.join(C.VERIF, "replays")
    os.makedirs(d, exist_ok=True)
    p = os.path.join(d, "%s_%d_%d.json" % (pid, int(time.time()), idx))
    with open(p, "w") as f:
        json.dump(obj, f, indent=1, default=str)
    return p


def main():
    ap = argparse.ArgumentParser()
    ap.add_argument("pid")
    ap.add_argument("--tier", default=os.environ.get("VERIF_TIER", "quick"))
    ap.add_argument("--replay")
    ap.add_argument("--build-only", action="store_true")
    a = ap.parse_args()
    pid = a.pid
    tier = a.tier if a.tier in ("quick", "thorough") else "quick"
    try:
        seed = int(os.environ.get("VERIF_SEED", "0"))
    except ValueError:
        seed = 0
    ctx = C.Ctx(pid, tier, seed)
    mod = importlib.import_module("props.%s" % pid)
    changed = C.changed_anchor_files(C.anchors_for(pid, mod))
    if changed:
        ctx.boost = int(getattr(mod, "BOOST", 6))
        ctx.notes.append("anchored source changed since the model was last validated (%s): quick tier deepened x%d"
                         % (", ".join(changed), ctx.boost))
    rel = getattr(mod, "THEOREM_FILE", "Properties/%s.v" % pid)
    evidence_path = os.path.join(C.VERIF, "evidence", "%s.json" % pid)
    if os.path.realpath(C.REPO) != "/repo" or a.replay:
        # runs against a scratch worktree (VERIF_REPO) or replays never touch the committed evidence
        evidence_path = os.path.join(C.BUILD, "evidence_scratch", "%s.json" % pid)
    obligations = []
    discharged = []
    axioms = {}
    checker_cmd = "cd coq && coq_makefile -f _CoqProject -o Makefile && make %so && coqc Print-Assumptions file (build/assum/A_%s.v)" % (rel, pid)
    rc_final = 0
    try:
        # 1. regenerate translated models from /repo's current tree
        if hasattr(mod, "pregen"):
            try:
                mod.pregen(ctx)
            except C.Infra:
                raise
            except Exception as e:  # translator refused: fail-closed
                ctx.proof_broken = "translator: %s" % e
        # 2. source gate
        bad = C.gate_sources(C.cone_of([rel, "Extract/Ex%s.v" % pid]))
        if bad:
            print("GATE: forbidden construct in the Coq development:\n  " + "\n  ".join(bad))
            sys.exit(2)
        # 3. proofs
        obligations = C.theorems_of(rel)
        if ctx.proof_broken is None:
            ok, log = C.coq_make([rel + "o"], timeout=3000)
            if not ok:
                ctx.proof_broken = "proof obligation failed while building %so:\n%s" % (rel, log[-2500:])
        if ctx.proof_broken is None:
            axioms, alog = C.print_assumptions(pid, rel, obligations)
            if axioms is None:
                ctx.proof_broken = "Print Assumptions failed:\n" + alog[-2000:]
                axioms = {}
            discharged = [t for t in obligations if t in axioms]
        if tier == "thorough" and ctx.proof_broken is None and not a.build_only and os.environ.get("VERIF_NO_COQCHK") != "1":
            args = []
            for q in ("Lib", "Model", "Generated", "Proofs", "Properties", "Extract"):
                args += ["-Q", os.path.join(C.COQ, q), "OSU." + q]
            mname = "OSU." + rel[:-2].replace("/", ".")
            rc, out = C.sh(["coqchk", "-silent", "-o"] + args + [mname], 3000, cwd=C.COQ)
            ctx.extra["coqchk"] = out[-3000:]
            checker_cmd += " ; coqchk -silent -o %s" % mname
            if rc != 0:
                ctx.proof_broken = "coqchk rejected %s:\n%s" % (mname, out[-2000:])
        if a.build_only:
            C.build_driver(pid)
            print("build ok" if ctx.proof_broken is None else ctx.proof_broken)
            sys.exit(0 if ctx.proof_broken is None else 1)
        # 4. correspondence + oracles
        if a.replay:
            obj = json.load(open(a.replay))
            if hasattr(mod, "replay"):
                mod.replay(ctx, obj)
            else:
                print("no replay function for", pid)
        else:
            mod.run(ctx)
    except C.Infra as e:
        print("INFRA-ERROR: %s" % e)
        sys.exit(2)
    except C.ImplCrash as e:
        # the runner itself died (import error, segfault): the property is no longer shown
        ctx.violations.append({"kind": "impl-crash", "desc": "implementation runner crashed: %s" % str(e)[-1500:],
                               "replay": {"crash": str(e)[-4000:]}, "key": None, "failing_input": False})
    except Exception:
        # the evaluator could not interpret what the implementation returned (a result of another length, shape
        # or type than the model's): the correspondence no longer checks.  Reported as such - with the traceback in
        # the replay file - never silently, and never as a pass.
        tb = traceback.format_exc()
        print("harness exception while evaluating the implementation's output:\n" + tb)
        ctx.violations.append({"kind": "correspondence",
                               "desc": "the evaluator could not interpret the implementation's output (%s)"
                                       % tb.strip().splitlines()[-1][:200],
                               "replay": {"broken": "correspondence (the harness raised while comparing)", "traceback": tb[-4000:]},
                               "key": None, "failing_input": False})

    # 5. decide
    findings, fixed = load_known()
    mine = [f for f in findings if f["pid"] == pid]
    reported = 0
    known_hit = set()
    out_lines = []
    real = []
    for v in ctx.violations:
        k = v.get("key")
        hit = None
        for f in mine:
            if k is not None and k == f["key"]:
                hit = f
        if hit:
            known_hit.add(hit["key"])
        else:
            real.append(v)
    for f in mine:
        if f["key"] in known_hit:
            out_lines.append("KNOWN-FINDING: property=%s %s (key=%s)" % (pid, f["text"], f["key"]))
    has_input = [v for v in real if v.get("failing_input")]
    no_input = [v for v in real if not v.get("failing_input")]
    idx = 0
    # dedupe by key/desc, keep the first few
    seen = set()
    for v in has_input:
        sig = v.get("key") or v["desc"][:80]
        if sig in seen:
            continue
        seen.add(sig)
        if idx >= 5:
            break
        p = write_replay(pid, idx, {"property": pid, "kind": v["kind"], "what": v["desc"], "input": v["replay"],
                                    "seed": seed, "tier": tier})
        out_lines.append("VIOLATION property=%s replay=%s" % (pid, p))
        idx += 1
        reported += 1
    if not has_input and (no_input or ctx.proof_broken):
        what = []
        if ctx.proof_broken:
            what.append({"broken": "theorem / proof obligation", "file": rel, "detail": ctx.proof_broken})
        for v in no_input[:5]:
            what.append({"broken": "correspondence (%s)" % v["kind"], "detail": v["desc"], "input": v["replay"]})
        p = write_replay(pid, idx, {"property": pid, "kind": "no-failing-input-found", "no_longer_checks": what,
                                    "seed": seed, "tier": tier})
        out_lines.append("VIOLATION property=%s replay=%s no-failing-input-found" % (pid, p))
        reported += 1
    elif ctx.proof_broken and has_input:
        ctx.notes.append("proof obligation also broken: " + ctx.proof_broken[:500])
    if reported:
        rc_final = 1

    # 6. evidence
    tb = list(FIXED_TRUSTED)
    allax = sorted({x for t in axioms.values() for x in t})
    for t in obligations:
        if t in axioms:
            tb.append("theorem %s: %s" % (t, "closed under the global context (no axioms)" if not axioms[t]
                                           else "axioms " + ", ".join(axioms[t])))
    tb += getattr(mod, "TRUSTED", [])
    cov = {
        "obligations": max(len(obligations), 1),
        "discharged": len(discharged) if ctx.proof_broken is None else 0,
        "checker_cmd": checker_cmd,
        "trusted_base": tb,
        "axioms_used": allax,
        "theorems": obligations,
        "evaluations": ctx.evaluations,
        "distinct_nontrivial": len(ctx.nontrivial_keys),
        "rule": ctx.rule or getattr(mod, "RULE", ""),
        "samples": ctx.samples if ctx.samples else [{"note": "no correspondence sample recorded"}],
        "input_distribution": ctx.distribution,
        "notes": ctx.notes,
    }
    cov.update(ctx.extra)
    if ctx.proof_broken is not None:
        # a proof-level claim needs discharged >= 1: when the proof is broken the proof keys are
        # withdrawn (the run reports a violation anyway) and only the exploration counts remain
        cov["obligations_total"] = cov.pop("obligations")
        cov["obligations_discharged"] = cov.pop("discharged")
        cov["proof_broken"] = ctx.proof_broken[:2000]
    ev = {
        "property_id": pid,
        "tier": tier,
        "seed": seed,
        "level": "proof",
        "coverage": cov,
        "assumptions": getattr(mod, "ASSUMPTIONS", []) + ctx.assumptions,
        "wall_s": round(time.time() - ctx.t0, 2),
        "violations": reported,
    }
    os.makedirs(os.path.dirname(evidence_path), exist_ok=True)
    tmp = evidence_path + ".tmp"
    with open(tmp, "w") as f:
        json.dump(ev, f, indent=1, default=str)
    os.replace(tmp, evidence_path)
    for l in out_lines:
        print(l)
    print("%s %s tier=%s seed=%d theorems=%d/%d evaluations=%d nontrivial=%d wall=%.1fs" % (
        pid, "OK" if rc_final == 0 else "FAILED", tier, seed, cov.get("discharged", 0), len(obligations),
        ctx.evaluations, len(ctx.nontrivial_keys), time.time() - ctx.t0))
    sys.exit(rc_final)


if __name__ == "__main__":
    main()
