"""Fail-closed translator: element-wise numpy functions -> Coq definitions over R.

A function of the accepted grammar computes every element of its result from the same-index elements of
its array arguments (numpy broadcasting of scalars included), so its meaning is a function R -> ... -> R
applied point by point.  The translation is purely syntactic - no evaluation, no simplification, no knowledge
of what the function is supposed to compute; the operation order of the source is kept.

Accepted:
  straight-line functions   [docstring] (name = expr)* return expr
  iteration functions       [docstring] (name = expr)* for i in range([0,] N): (name = expr)*
                                                           if np.all(cmp): break
                                                       else: print(...)
                                                       return name
  expr   ::= name | int/float constant | expr (+|-|*|/) expr | -expr | expr ** small-int
           | np.sqrt/tanh/sinh/cosh/exp/log/abs/sin/cos/arctan2(expr..) | np.where(cmp, expr, expr)
           | atleast_1d(expr) (identity on elements) | f(args) for f translated earlier from the same file
  cmp    ::= expr (<|<=|>|>=) expr
Anything else raises Refuse and the check reports the proof obligation as broken.

Calls of module functions must supply every argument (positionally or by keyword): defaults are recorded
as separate constants `<function>_default_<parameter>`, never substituted silently.
"""
import ast
import os
from fractions import Fraction


class Refuse(Exception):
    pass


UNARY = {"sqrt": "sqrt", "tanh": "tanh", "sinh": "sinh", "cosh": "cosh", "exp": "exp", "log": "ln",
         "abs": "Rabs", "sin": "sin", "cos": "cos"}
CMP = {ast.Lt: "Rlt_dec", ast.LtE: "Rle_dec", ast.Gt: "Rgt_dec", ast.GtE: "Rge_dec"}
BIN = {ast.Add: "+", ast.Sub: "-", ast.Mult: "*", ast.Div: "/"}
# a % b (numpy / Python floor modulo) is OSU.Lib.Fmod.fmod a b
RESERVED = {"exp", "ln", "sin", "cos", "sqrt", "tanh", "sinh", "cosh", "pow", "fst", "snd", "true", "false", "if",
            "then", "else", "let", "in", "fun", "match", "with", "end", "R", "nat", "PI", "up", "IZR", "INR"}


def ident(x):
    return x + "_" if x in RESERVED else x


def const(v):
    if isinstance(v, bool) or not isinstance(v, (int, float)):
        raise Refuse("constant %r" % (v,))
    if isinstance(v, int):
        return str(v) if v >= 0 else "(- %d)" % -v
    fr = Fraction(repr(v))            # the decimal literal, exactly
    s = "(%d / %d)" % (abs(fr.numerator), fr.denominator) if fr.denominator != 1 else "%d" % abs(fr.numerator)
    return s if fr >= 0 else "(- %s)" % s


class Tr:
    def __init__(self, known):
        self.known = known          # name -> list of parameter names (functions translated so far)
        self.mask = None            # name of the isfinite-mask inside a masked function
        self.uses_fmod = False
        self.objects = set()        # parameters that are objects whose fields are read (air.vonkarman_constant)
        self.extra = []             # the fields read, in order of first use: extra real parameters

    def expr(self, e):
        if isinstance(e, ast.Constant):
            return const(e.value)
        if isinstance(e, ast.Name):
            return ident(e.id)
        if isinstance(e, ast.Attribute) and isinstance(e.value, ast.Name) and e.value.id == "np" and e.attr == "pi":
            return "PI"
        if isinstance(e, ast.Attribute) and isinstance(e.value, ast.Name) and e.value.id in self.objects:
            nm = "%s_%s" % (e.value.id, e.attr)          # air.vonkarman_constant: a field of an argument object
            if nm not in self.extra:
                self.extra.append(nm)
            return ident(nm)
        if isinstance(e, ast.Subscript) and self.mask is not None and isinstance(e.value, ast.Name) \
                and isinstance(e.slice, ast.Name) and e.slice.id == self.mask:
            return ident(e.value.id)          # x[mask]: the finite elements of x, element by element
        if isinstance(e, ast.UnaryOp) and isinstance(e.op, ast.USub):
            return "(- %s)" % self.expr(e.operand)
        if isinstance(e, ast.BinOp):
            if isinstance(e.op, ast.Pow):
                if isinstance(e.right, ast.Constant) and isinstance(e.right.value, int) and 0 <= e.right.value <= 8:
                    return "(%s ^ %d)" % (self.expr(e.left), e.right.value)
                raise Refuse("power with a non-constant or large exponent")
            if isinstance(e.op, ast.Mod):
                self.uses_fmod = True
                return "(fmod %s %s)" % (self.expr(e.left), self.expr(e.right))
            if type(e.op) not in BIN:
                raise Refuse("operator %s" % type(e.op).__name__)
            return "(%s %s %s)" % (self.expr(e.left), BIN[type(e.op)], self.expr(e.right))
        if isinstance(e, ast.Call):
            f = e.func
            if isinstance(f, ast.Attribute) and isinstance(f.value, ast.Name) and f.value.id == "np":
                if e.keywords:
                    raise Refuse("keyword arguments in np.%s" % f.attr)
                if f.attr in UNARY and len(e.args) == 1:
                    return "(%s %s)" % (UNARY[f.attr], self.expr(e.args[0]))
                if f.attr == "where" and len(e.args) == 3:
                    return "(if %s then %s else %s)" % (self.cmp(e.args[0]), self.expr(e.args[1]), self.expr(e.args[2]))
                raise Refuse("np.%s" % f.attr)
            if isinstance(f, ast.Name) and f.id == "atleast_1d" and len(e.args) == 1 and not e.keywords:
                return self.expr(e.args[0])
            if isinstance(f, ast.Attribute) and f.attr == "where" and isinstance(f.value, ast.Name) and f.value.id != "np" \
                    and len(e.args) == 2 and not e.keywords:
                # x.where(cond, other): x where cond holds, other elsewhere (xarray)
                return "(if %s then %s else %s)" % (self.cmp(e.args[0]), ident(f.value.id), self.expr(e.args[1]))
            if isinstance(f, ast.Name) and f.id in self.known:
                params = self.known[f.id]
                vals = {}
                if len(e.args) > len(params):
                    raise Refuse("too many arguments for %s" % f.id)
                for p, a in zip(params, e.args):
                    vals[p] = self.expr(a)
                for kw in e.keywords:
                    if kw.arg not in params or kw.arg in vals:
                        raise Refuse("keyword %s of %s" % (kw.arg, f.id))
                    vals[kw.arg] = self.expr(kw.value)
                missing = [p for p in params if p not in vals]
                if missing:
                    raise Refuse("call of %s relies on the default of %s" % (f.id, ", ".join(missing)))
                return "(%s %s)" % (ident(f.id), " ".join(vals[p] for p in params))
            raise Refuse("call of %s" % ast.dump(f)[:80])
        raise Refuse("expression %s" % type(e).__name__)

    def cmp(self, c):
        if isinstance(c, ast.Compare) and len(c.ops) == 1 and type(c.ops[0]) in CMP:
            return "(%s %s %s)" % (CMP[type(c.ops[0])], self.expr(c.left), self.expr(c.comparators[0]))
        raise Refuse("condition %s" % ast.dump(c)[:80])


def is_doc(s):
    return isinstance(s, ast.Expr) and isinstance(s.value, ast.Constant) and isinstance(s.value.value, str)


def assign(s):
    if isinstance(s, ast.Assign) and len(s.targets) == 1 and isinstance(s.targets[0], ast.Name):
        return s.targets[0].id, s.value
    raise Refuse("statement %s" % ast.dump(s)[:80])


def names_in(e):
    return {n.id for n in ast.walk(e) if isinstance(n, ast.Name)}


def lets(pairs, result):
    return "".join("  let %s := %s in\n" % (ident(n), v) for n, v in pairs) + "  " + result


def tuple_of(xs):
    return xs[0] if len(xs) == 1 else "(%s)" % ", ".join(xs)


def tuple_type(n):
    return " * ".join(["R"] * n)


def destruct(names, st, body):
    if len(names) == 1:
        return "  let %s := %s in\n%s" % (ident(names[0]), st, body)
    return "  let '(%s) := %s in\n%s" % (", ".join(ident(n) for n in names), st, body)


def translate_function(fn, tr, out):
    a = fn.args
    if a.vararg or a.kwarg or a.kwonlyargs or a.posonlyargs:
        raise Refuse("%s: unsupported parameter kinds" % fn.name)
    for d in fn.decorator_list:
        dn = d.func if isinstance(d, ast.Call) else d
        if not (isinstance(dn, ast.Name) and dn.id in ("jit", "njit")):
            raise Refuse("%s: decorator %s" % (fn.name, ast.dump(d)[:60]))
    params = [x.arg for x in a.args]
    name = ident(fn.name)
    # defaults, recorded (never substituted)
    for p, d in zip(params[len(params) - len(a.defaults):], a.defaults):
        if isinstance(d, ast.Constant) and isinstance(d.value, (int, float)) and not isinstance(d.value, bool):
            if isinstance(d.value, int):
                out.append("Definition %s_default_%s : nat := %d." % (name, p, d.value))
            out.append("Definition %s_default_%s_R : R := %s." % (name, p, const(d.value)))
        elif isinstance(d, ast.Name):
            out.append("(* default of %s.%s is the module constant %s *)" % (fn.name, p, d.id))
        else:
            raise Refuse("%s: default of %s" % (fn.name, p))
    body = [s for s in fn.body if not is_doc(s)]
    loops = [s for s in body if isinstance(s, ast.For)]
    sig = " ".join("(%s : R)" % ident(p) for p in params)
    if not loops:
        if not body or not isinstance(body[-1], ast.Return) or body[-1].value is None:
            raise Refuse("%s: does not end in return <expr>" % fn.name)
        pairs = [(n, tr.expr(v)) for n, v in map(assign, body[:-1])]
        out.append("Definition %s %s : R :=\n%s." % (name, sig, lets(pairs, tr.expr(body[-1].value))))
        tr.known[fn.name] = params
        return
    # ---- iteration function
    if len(loops) != 1 or body[-2] is not loops[0] or not isinstance(body[-1], ast.Return) \
            or not isinstance(body[-1].value, ast.Name):
        raise Refuse("%s: expected (assignments) for-else return <name>" % fn.name)
    loop = loops[0]
    it = loop.iter
    if not (isinstance(loop.target, ast.Name) and isinstance(it, ast.Call) and isinstance(it.func, ast.Name)
            and it.func.id == "range" and not it.keywords and len(it.args) in (1, 2)
            and isinstance(it.args[-1], ast.Name) and it.args[-1].id in params
            and (len(it.args) == 1 or (isinstance(it.args[0], ast.Constant) and it.args[0].value == 0))):
        raise Refuse("%s: loop is not `for i in range([0,] <parameter>)`" % fn.name)
    count_param = it.args[-1].id
    if not (len(loop.orelse) == 1 and isinstance(loop.orelse[0], ast.Expr) and isinstance(loop.orelse[0].value, ast.Call)
            and isinstance(loop.orelse[0].value.func, ast.Name) and loop.orelse[0].value.func.id == "print"):
        raise Refuse("%s: the loop's else branch is not a single print(...)" % fn.name)
    lb = [s for s in loop.body if not is_doc(s)]
    brk = lb[-1]
    if not (isinstance(brk, ast.If) and not brk.orelse and len(brk.body) == 1 and isinstance(brk.body[0], ast.Break)
            and isinstance(brk.test, ast.Call) and isinstance(brk.test.func, ast.Attribute)
            and isinstance(brk.test.func.value, ast.Name) and brk.test.func.value.id == "np"
            and brk.test.func.attr == "all" and len(brk.test.args) == 1 and not brk.test.keywords):
        raise Refuse("%s: the loop body does not end in `if np.all(<comparison>): break`" % fn.name)
    pre = [assign(s) for s in body[:-2]]
    inner = [assign(s) for s in lb[:-1]]
    pre_names = [n for n, _ in pre]
    if len(set(pre_names)) != len(pre_names):
        raise Refuse("%s: a variable is assigned twice before the loop" % fn.name)
    inner_names = {n for n, _ in inner}
    if loop.target.id in set().union(*[names_in(v) for _, v in inner] + [names_in(brk.test)]):
        raise Refuse("%s: the loop counter is used in the body" % fn.name)
    carried = [n for n in pre_names if n in inner_names]
    fixed = [(n, v) for n, v in pre if n not in inner_names]
    if body[-1].value.id not in carried:
        raise Refuse("%s: returns something that is not a loop-carried variable" % fn.name)
    # a variable fixed before the loop may not depend on a loop-carried one (it would be stale in the body)
    dep = set(carried)
    for n, v in pre:
        if n not in inner_names and names_in(v) & dep:
            raise Refuse("%s: %s is computed from a loop-carried variable before the loop" % (fn.name, n))
    # every variable read in the body is a parameter, fixed, carried or assigned earlier in the body
    seen = set(params) | {n for n, _ in fixed} | set(carried) | set(tr.known) | {"np", "atleast_1d"}
    for n, v in inner:
        if names_in(v) - seen:
            raise Refuse("%s: %s reads %s before it is assigned" % (fn.name, n, ", ".join(sorted(names_in(v) - seen))))
        seen.add(n)
    if names_in(brk.test) - seen:
        raise Refuse("%s: the exit test reads an unassigned variable" % fn.name)
    nst = len(carried)
    out.append("(* %s: loop-carried state = (%s); per-element meaning of the code before the loop, of one\n"
               "   pass of the loop body with the element's own exit test, and of the returned value.  The loop itself\n"
               "   (at most `%s` passes, left when np.all of the exit tests holds) is the schema of\n"
               "   OSU.Lib / the model; it is not translated. *)" % (fn.name, ", ".join(carried), count_param))
    out.append("Definition %s_pre %s : %s :=\n%s." % (
        name, sig, tuple_type(nst), lets([(n, tr.expr(v)) for n, v in pre], tuple_of([ident(n) for n in carried]))))
    body_lets = lets([(n, tr.expr(v)) for n, v in inner],
                     "(%s, (if %s then true else false))" % (tuple_of([ident(n) for n in carried]), tr.cmp(brk.test.args[0])))
    fixed_lets = "".join("  let %s := %s in\n" % (ident(n), tr.expr(v)) for n, v in fixed)
    out.append("Definition %s_body %s (st : %s) : (%s) * bool :=\n%s%s." % (
        name, sig, tuple_type(nst), tuple_type(nst), fixed_lets, destruct(carried, "st", body_lets)))
    out.append("Definition %s_result (st : %s) : R :=\n%s." % (
        name, tuple_type(nst), destruct(carried, "st", "  " + ident(body[-1].value.id))))


def is_none_test(t):
    return isinstance(t, ast.Compare) and len(t.ops) == 1 and isinstance(t.ops[0], ast.Is) \
        and isinstance(t.left, ast.Name) and isinstance(t.comparators[0], ast.Constant) and t.comparators[0].value is None


def translate_masked(fn, tr, out):
    """[docstring]
       (if p is None: return q)*          -> recorded:  <f>_<p>_None_returns_<q>
       (if p is None: p = expr)*          -> Definition <f>_default_<p>
       mask = np.isfinite(x); output = np.full_like(x, np.nan); output[mask] = expr(x[mask] ..); return output
                                          -> Definition <f> (params) : R := expr      (the value at a finite element;
                                                                                      non-finite elements stay NaN)"""
    a = fn.args
    if a.vararg or a.kwarg or a.kwonlyargs or a.posonlyargs or fn.decorator_list:
        raise Refuse("%s: unsupported parameter kinds / decorators" % fn.name)
    params = [x.arg for x in a.args]
    name = ident(fn.name)
    for p, d in zip(params[len(params) - len(a.defaults):], a.defaults):
        if isinstance(d, ast.Constant) and d.value is None:
            continue                  # handled by the `is None` branches below
        if names_in(d) - {"np"}:
            raise Refuse("%s: default of %s reads a name" % (fn.name, p))
        out.append("Definition %s_default_%s : R :=\n  %s." % (name, p, tr.expr(d)))
    body = [s for s in fn.body if not is_doc(s)]
    i = 0
    while i < len(body) and isinstance(body[i], ast.If):
        st = body[i]
        if st.orelse or not is_none_test(st.test) or st.test.left.id not in params or len(st.body) != 1:
            raise Refuse("%s: unsupported if statement" % fn.name)
        p = st.test.left.id
        b = st.body[0]
        if isinstance(b, ast.Return) and isinstance(b.value, ast.Name) and b.value.id in params:
            out.append("(* %s: if %s is None the argument %s is returned unchanged *)\nDefinition %s_%s_None_returns : nat := %d."
                       % (fn.name, p, b.value.id, name, p, params.index(b.value.id)))
        elif isinstance(b, ast.Assign) and len(b.targets) == 1 and isinstance(b.targets[0], ast.Name) and b.targets[0].id == p:
            free = sorted(names_in(b.value))
            if any(x not in params for x in free):
                raise Refuse("%s: default of %s reads a non-parameter" % (fn.name, p))
            out.append("Definition %s_default_%s %s : R :=\n  %s." % (name, p, " ".join("(%s : R)" % ident(x) for x in free), tr.expr(b.value)))
        else:
            raise Refuse("%s: unsupported None branch" % fn.name)
        i += 1
    rest = body[i:]
    if len(rest) != 4:
        raise Refuse("%s: expected mask / output / masked assignment / return" % fn.name)
    mname, mval = assign(rest[0])
    if not (isinstance(mval, ast.Call) and isinstance(mval.func, ast.Attribute) and mval.func.attr == "isfinite"
            and isinstance(mval.func.value, ast.Name) and mval.func.value.id == "np" and len(mval.args) == 1
            and isinstance(mval.args[0], ast.Name) and mval.args[0].id in params):
        raise Refuse("%s: mask is not np.isfinite(<parameter>)" % fn.name)
    x = mval.args[0].id
    oname, oval = assign(rest[1])
    if not (isinstance(oval, ast.Call) and isinstance(oval.func, ast.Attribute) and oval.func.attr == "full_like"
            and len(oval.args) == 2 and isinstance(oval.args[0], ast.Name) and oval.args[0].id == x
            and isinstance(oval.args[1], ast.Attribute) and oval.args[1].attr == "nan"):
        raise Refuse("%s: output is not np.full_like(%s, np.nan)" % (fn.name, x))
    st = rest[2]
    if not (isinstance(st, ast.Assign) and len(st.targets) == 1 and isinstance(st.targets[0], ast.Subscript)
            and isinstance(st.targets[0].value, ast.Name) and st.targets[0].value.id == oname
            and isinstance(st.targets[0].slice, ast.Name) and st.targets[0].slice.id == mname):
        raise Refuse("%s: third statement is not %s[%s] = ..." % (fn.name, oname, mname))
    if not (isinstance(rest[3], ast.Return) and isinstance(rest[3].value, ast.Name) and rest[3].value.id == oname):
        raise Refuse("%s: does not return %s" % (fn.name, oname))
    # every use of the masked parameter must be x[mask]
    for n in ast.walk(st.value):
        if isinstance(n, ast.Name) and n.id == x:
            pass
    bare = [n for n in ast.walk(st.value) if isinstance(n, ast.Name) and n.id == x]
    subs = [n for n in ast.walk(st.value) if isinstance(n, ast.Subscript) and isinstance(n.value, ast.Name) and n.value.id == x]
    if len(bare) != len(subs):
        raise Refuse("%s: %s is used without the mask" % (fn.name, x))
    tr.mask = mname
    try:
        e = tr.expr(st.value)
    finally:
        tr.mask = None
    out.append("Definition %s %s : R :=\n  %s." % (name, " ".join("(%s : R)" % ident(p) for p in params), e))
    tr.known[fn.name] = params


def translate_kwargs(fn, tr, out):
    """straight-line functions whose tuning constants arrive through **kwargs / object arguments:
         [docstring]
         (if not isinstance(x, xarray.DataArray): x = xarray.DataArray(data=x))?      -> skipped (same elements)
         (name = kwargs.get("key", default))*                                        -> a real parameter `name`
         (name = expr)*  return expr                 with obj.field for an object parameter -> a real parameter obj_field
       The emitted definition takes: the positional parameters that are not objects, then the kwargs names in
       source order, then the object fields in order of first use.  Defaults are recorded as comments only."""
    a = fn.args
    if a.vararg or a.kwonlyargs or a.posonlyargs or fn.decorator_list:
        raise Refuse("%s: unsupported parameter kinds / decorators" % fn.name)
    params = [x.arg for x in a.args]
    objects = set()
    for x, d in zip(a.args[len(a.args) - len(a.defaults):], a.defaults):
        if isinstance(d, ast.Name) and d.id.isupper():
            objects.add(x.arg)                  # e.g. air: FluidProperties = AIR
    tr.objects = objects
    tr.extra = []
    name = ident(fn.name)
    body = [s for s in fn.body if not is_doc(s)]
    kw = []
    notes = []
    pairs = []
    i = 0
    while i < len(body) - 1:
        st = body[i]
        if isinstance(st, ast.If) and not st.orelse and isinstance(st.test, ast.UnaryOp) and isinstance(st.test.op, ast.Not) \
                and isinstance(st.test.operand, ast.Call) and isinstance(st.test.operand.func, ast.Name) \
                and st.test.operand.func.id == "isinstance" and len(st.body) == 1:
            tgt, val = assign(st.body[0])
            if not (isinstance(val, ast.Call) and isinstance(val.func, ast.Attribute) and val.func.attr == "DataArray"
                    and len(val.keywords) == 1 and val.keywords[0].arg == "data" and isinstance(val.keywords[0].value, ast.Name)
                    and val.keywords[0].value.id == tgt and not val.args):
                raise Refuse("%s: unsupported isinstance branch" % fn.name)
            i += 1
            continue
        n, v = assign(st)
        if isinstance(v, ast.Call) and isinstance(v.func, ast.Attribute) and v.func.attr == "get" \
                and isinstance(v.func.value, ast.Name) and a.kwarg is not None and v.func.value.id == a.kwarg.arg:
            if len(v.args) != 2 or not isinstance(v.args[0], ast.Constant) or not isinstance(v.args[0].value, str) or v.keywords:
                raise Refuse("%s: kwargs.get without a literal key and a default" % fn.name)
            if v.args[0].value != n:
                raise Refuse("%s: kwargs key %r is bound to another name %r" % (fn.name, v.args[0].value, n))
            if pairs:
                raise Refuse("%s: kwargs.get after the computation started" % fn.name)
            d = v.args[1]
            used_as_object = any(isinstance(x, ast.Attribute) and isinstance(x.value, ast.Name) and x.value.id == n
                                 for x in ast.walk(fn))
            if isinstance(d, ast.Name) and d.id.isupper() and used_as_object:
                tr.objects.add(n)               # air = kwargs.get("air", AIR): an object whose fields are read
                i += 1
                continue
            kw.append(n)
            if isinstance(d, ast.Constant):
                notes.append("Definition %s_default_%s : R := %s." % (name, n, const(d.value)))
            else:
                notes.append("(* default of %s.%s: %s *)" % (fn.name, n, ast.unparse(d)))
        else:
            pairs.append((n, tr.expr(v)))
        i += 1
    if not isinstance(body[-1], ast.Return) or body[-1].value is None:
        raise Refuse("%s: does not end in return <expr>" % fn.name)
    ret = tr.expr(body[-1].value)
    real = [p for p in params if p not in objects] + kw + tr.extra
    out.extend(notes)
    out.append("(* parameters: %s *)\nDefinition %s %s : R :=\n%s." % (
        ", ".join(real), name, " ".join("(%s : R)" % ident(p) for p in real), lets(pairs, ret)))
    tr.known[fn.name] = real
    tr.objects = set()
    tr.extra = []


def translate(path, funcs, header):
    tree = ast.parse(open(path).read())
    found = {}
    for node in tree.body:
        if isinstance(node, ast.FunctionDef):
            if node.name in found:
                raise Refuse("function %s defined twice" % node.name)
            found[node.name] = node
    # aliases `c = phase_velocity` at module level are recorded so that a re-bound alias is noticed
    aliases = []
    for node in tree.body:
        if isinstance(node, ast.Assign) and len(node.targets) == 1 and isinstance(node.targets[0], ast.Name) \
                and isinstance(node.value, ast.Name) and node.value.id in found:
            aliases.append((node.targets[0].id, node.value.id))
    out = []
    tr = Tr({})
    # translate in source order so that callees precede callers where the source allows; otherwise by `funcs`
    order = sorted(funcs, key=lambda n: 0)  # keep the order given: callees first
    for name in order:
        mode = name.split(":")[0] if ":" in name else ""
        name = name.split(":")[-1]
        if name not in found:
            raise Refuse("function %s not found" % name)
        {"masked": translate_masked, "kwargs": translate_kwargs, "": translate_function}[mode](found[name], tr, out)
    text = ("(* GENERATED by harness/translate_pointwise.py from %s - do not edit *)\n"
            "From Coq Require Import Reals.\n%sOpen Scope R_scope.\n\n" % (header, "From OSU.Lib Require Import Fmod.\n" if tr.uses_fmod else "")
            + "\n\n".join(out) + "\n\n"
            + "(* module-level aliases: %s *)\n" % ", ".join("%s = %s" % a for a in aliases))
    return text, aliases


def generate(src, funcs, dst, header):
    text, aliases = translate(src, funcs, header)
    os.makedirs(os.path.dirname(dst), exist_ok=True)
    old = open(dst).read() if os.path.exists(dst) else None
    if old != text:
        with open(dst, "w") as f:
            f.write(text)
    return aliases


def generate_math(repo, coqdir):
    """tools/math.py wrapped_difference -> coq/Generated/MathSrc.v (used by C02 and C14)"""
    generate(os.path.join(repo, "src", "ocean_science_utilities", "tools", "math.py"), ["masked:wrapped_difference"],
             os.path.join(coqdir, "Generated", "MathSrc.v"), "tools/math.py")


if __name__ == "__main__":
    import sys
    print(translate(sys.argv[1], sys.argv[2:], sys.argv[1])[0])
