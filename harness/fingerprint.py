"""Regenerate harness/fingerprints.json: AST hashes of every anchored source file of /repo, and of every
module of the package the anchored files import (transitively), as they are now.
Run after every accepted change of /repo (fix: commits).  Usage: /venv/bin/python harness/fingerprint.py"""
import importlib
import json
import os
import sys
sys.path.insert(0, os.path.dirname(os.path.abspath(__file__)))
import common as C

files = set()
for f in sorted(os.listdir(os.path.join(C.VERIF, "harness", "props"))):
    if f.startswith("C") and f.endswith(".py"):
        mod = importlib.import_module("props.%s" % f[:-3])
        files.update(C.import_closure(C.anchors_for(f[:-3], mod)))
out = {rel: C.ast_fingerprint(os.path.join(C.REPO, rel)) for rel in sorted(files)}
json.dump(out, open(os.path.join(C.VERIF, "harness", "fingerprints.json"), "w"), indent=1)
print(len(out), "files fingerprinted")
