import json, sys, glob
import jsonschema
jsonschema.validate(json.load(open('/verif/MANIFEST.json')), json.load(open('/root/.vp/MANIFEST.schema.json')))
es = json.load(open('/root/.vp/EVIDENCE.schema.json'))
claimed = [c['evidence_file'] for c in json.load(open('/verif/MANIFEST.json'))['checks']]
for f in sorted(claimed):
    jsonschema.validate(json.load(open(f)), es)
print('valid', len(claimed), 'claimed evidence files')
