"""Shared machinery for every property check (see DESIGN.md section 2).

A property module  harness/props/Cxx.py  defines

    THEOREM_FILE = "Properties/Cxx.v"      (default)
    def run(ctx): ...                      correspondence + oracles, reports through ctx

and uses the helpers of the Ctx object below.  Nothing here is property specific.
"""
import fcntl
import hashlib
import json
import math
import os
import random
import re
import subprocess
import sys
import time

VERIF = os.path.dirname(os.path.dirname(os.path.abspath(__file__)))
REPO = os.environ.get("VERIF_REPO", "/repo")
COQ = os.path.join(VERIF, "coq")
BUILD = os.path.join(VERIF, "build")
PY = "/venv/bin/python"
GUARD = "OCEAN_SCIENCE_UTILITIES_VERIF"

FORBIDDEN = re.compile(
    r"\b(Admitted|admit|Axiom|Axioms|Parameter|Parameters|Conjecture|Conjectures|Abort All|"
    r"Admit Obligations|bypass_check|Unset Guard Checking|Unset Positivity Checking|"
    r"Unset Universe Checking|Unset Strict Universe)\b|type-in-type|impredicative-set"
)


class Infra(Exception):
    """Infrastructure failure (timeout, tool missing): exit 2, never a VIOLATION."""


def sh(cmd, timeout, cwd=None, env=None, inp=None):
    try:
        p = subprocess.run(cmd, shell=isinstance(cmd, str), cwd=cwd, env=env, input=inp,
                           stdout=subprocess.PIPE, stderr=subprocess.STDOUT, timeout=timeout,
                           text=True)
    except subprocess.TimeoutExpired as e:
        raise Infra("timeout after %ss: %s" % (timeout, cmd if isinstance(cmd, str) else " ".join(cmd)))
    return p.returncode, p.stdout


# ---------------------------------------------------------------------------------------
# Coq build (one lock for the whole coq/ tree so concurrent checks never corrupt .vo files)
# ---------------------------------------------------------------------------------------

def _v_files():
    out = []
    for d in ("Lib", "Model", "Generated", "Proofs", "Properties", "Extract"):
        p = os.path.join(COQ, d)
        if os.path.isdir(p):
            for f in sorted(os.listdir(p)):
                if f.endswith(".v") and not f.startswith("."):
                    out.append("%s/%s" % (d, f))
    return out


def coq_project_text():
    lines = ["-Q Lib OSU.Lib", "-Q Model OSU.Model", "-Q Generated OSU.Generated",
             "-Q Proofs OSU.Proofs", "-Q Properties OSU.Properties", "-Q Extract OSU.Extract",
             "-arg -w -arg -all", ""]
    return "\n".join(lines + _v_files()) + "\n"


class CoqLock:
    def __enter__(self):
        os.makedirs(BUILD, exist_ok=True)
        self.f = open(os.path.join(BUILD, ".coq.lock"), "w")
        fcntl.flock(self.f, fcntl.LOCK_EX)
        return self

    def __exit__(self, *a):
        fcntl.flock(self.f, fcntl.LOCK_UN)
        self.f.close()


def ensure_makefile():
    txt = coq_project_text()
    cp = os.path.join(COQ, "_CoqProject")
    old = open(cp).read() if os.path.exists(cp) else None
    if old != txt or not os.path.exists(os.path.join(COQ, "Makefile")):
        open(cp, "w").write(txt)
        rc, out = sh("coq_makefile -f _CoqProject -o Makefile", 120, cwd=COQ)
        if rc != 0:
            raise Infra("coq_makefile failed: " + out)


def coq_make(targets, timeout=1800, jobs=16):
    """make the given .vo targets (full .vo build, never -vos). Returns (ok, log)."""
    with CoqLock():
        ensure_makefile()
        os.makedirs(os.path.join(BUILD, "ex"), exist_ok=True)
        rc, out = sh(["make", "-j%d" % jobs] + list(targets), timeout, cwd=COQ)
    return rc == 0, out


def gate_sources(files=None):
    """Reject Admitted/Axiom/... anywhere in the development. Returns list of offending lines."""
    bad = []
    for rel in (files or _v_files()):
        p = os.path.join(COQ, rel)
        txt = open(p).read()
        # strip comments (nested) before matching
        txt2 = strip_coq_comments(txt)
        for i, line in enumerate(txt2.split("\n"), 1):
            if FORBIDDEN.search(line):
                bad.append("%s:%d: %s" % (rel, i, line.strip()))
            if re.match(r"\s*(Variable|Variables|Hypothesis|Hypotheses|Context)\b", line):
                # allowed only inside a Section: checked by a simple section depth scan
                if not _inside_section(txt2, i):
                    bad.append("%s:%d: %s (outside a Section)" % (rel, i, line.strip()))
    return bad


def strip_coq_comments(s):
    out = []
    depth = 0
    i = 0
    instr = False
    while i < len(s):
        if depth == 0 and s[i] == '"':
            instr = not instr
            out.append(s[i]); i += 1; continue
        if not instr and s.startswith("(*", i):
            depth += 1; i += 2; continue
        if not instr and depth > 0 and s.startswith("*)", i):
            depth -= 1; i += 2; continue
        if depth == 0:
            out.append(s[i])
        elif s[i] == "\n":
            out.append("\n")
        i += 1
    return "".join(out)


def _inside_section(txt, lineno):
    depth = 0
    for i, line in enumerate(txt.split("\n"), 1):
        if i >= lineno:
            break
        if re.match(r"\s*Section\b", line):
            depth += 1
        elif re.match(r"\s*End\b", line) and depth > 0:
            depth -= 1
    return depth > 0


def cone_of(rels):
    """transitive OSU.* imports of the given files (textual scan of Require lines)"""
    seen = []
    todo = list(rels)
    while todo:
        r = todo.pop()
        if r in seen or not os.path.exists(os.path.join(COQ, r)):
            continue
        seen.append(r)
        txt = strip_coq_comments(open(os.path.join(COQ, r)).read())
        for m in re.finditer(r"From\s+OSU\.(\w+)\s+Require\s+(?:Import|Export)?\s*([^.]*)\.", txt):
            for name in m.group(2).split():
                todo.append("%s/%s.v" % (m.group(1), name))
        for m in re.finditer(r"Require\s+(?:Import|Export)?\s*((?:OSU\.\w+\.\w+\s*)+)\.", txt):
            for q in m.group(1).split():
                a = q.split(".")
                todo.append("%s/%s.v" % (a[1], a[2]))
    return seen


def theorems_of(rel):
    txt = strip_coq_comments(open(os.path.join(COQ, rel)).read())
    return re.findall(r"^\s*Theorem\s+([A-Za-z0-9_']+)", txt, re.M)


def print_assumptions(pid, rel, names, timeout=300):
    """Load the compiled property file and ask the kernel for the axioms under each theorem."""
    mod = "OSU." + rel[:-2].replace("/", ".")
    d = os.path.join(BUILD, "assum")
    os.makedirs(d, exist_ok=True)
    src = os.path.join(d, "A_%s.v" % pid)
    with open(src, "w") as f:
        f.write("Require Import %s.\n" % mod)
        for n in names:
            f.write('Goal True. idtac "@@BEGIN %s". Abort.\nPrint Assumptions %s.\n' % (n, n))
        f.write('Goal True. idtac "@@END". Abort.\n')
    args = []
    for q in ("Lib", "Model", "Generated", "Proofs", "Properties", "Extract"):
        args += ["-Q", os.path.join(COQ, q), "OSU." + q]
    rc, out = sh(["coqc"] + args + ["-w", "-all", src], timeout, cwd=d)
    res = {}
    if rc != 0:
        return None, out
    cur = None
    buf = []
    for line in out.split("\n"):
        m = re.match(r"@@BEGIN (\S+)", line)
        if m or line.startswith("@@END"):
            if cur is not None:
                res[cur] = _parse_axioms("\n".join(buf))
            cur = m.group(1) if m else None
            buf = []
        else:
            buf.append(line)
    return res, out


def _parse_axioms(block):
    """names listed by Print Assumptions.  A name starts a line (not indented); its type follows
    after ' : ' on the same line or on the next (indented) lines."""
    if "Closed under the global context" in block:
        return []
    ax = []
    for line in block.split("\n"):
        if not line or line[0].isspace():
            continue
        if line.strip() in ("Axioms:", "Section Variables:", "Opaque constants:", "Transparent constants:"):
            continue
        m = re.match(r"^([A-Za-z_][A-Za-z0-9_.']*)\s*(:.*)?$", line)
        if m:
            ax.append(m.group(1))
    return ax


# ---------------------------------------------------------------------------------------
# extracted model executable
# ---------------------------------------------------------------------------------------

def build_driver(pid, timeout=600):
    """Extract/Ex<pid>.v writes build/ex/<pid>/model.ml ; glue = tok_*.ml + ocaml/drv_<pid>.ml"""
    exv = "Extract/Ex%s.v" % pid
    if not os.path.exists(os.path.join(COQ, exv)):
        return None
    d = os.path.join(BUILD, "ex", pid)
    os.makedirs(d, exist_ok=True)
    ok, log = coq_make([exv + "o"], timeout)
    if not ok:
        raise Infra("extraction build failed for %s:\n%s" % (pid, log[-3000:]))
    model = os.path.join(d, "model.ml")
    if not os.path.exists(model):
        # the .vo was up to date but build/ was wiped: force re-extraction
        try:
            os.remove(os.path.join(COQ, exv + "o"))
        except OSError:
            pass
        ok, log = coq_make([exv + "o"], timeout)
        if not ok or not os.path.exists(model):
            raise Infra("extraction did not produce model.ml for %s:\n%s" % (pid, log[-3000:]))
    drv = os.path.join(VERIF, "ocaml", "drv_%s.ml" % pid)
    drvtxt = open(drv).read()
    uses = re.search(r"\(\*\s*USES:([^*]*)\*\)", drvtxt)
    parts = [open(model).read(), open(os.path.join(VERIF, "ocaml", "tok_base.ml")).read()]
    for u in (uses.group(1).split() if uses else []):
        parts.append(open(os.path.join(VERIF, "ocaml", "tok_%s.ml" % u)).read())
    parts.append(drvtxt)
    main_txt = "\n".join(parts)
    main = os.path.join(d, "main.ml")
    exe = os.path.join(d, "modelrun")
    stamp = hashlib.sha256(main_txt.encode()).hexdigest()
    sp = os.path.join(d, "main.sha")
    if os.path.exists(exe) and os.path.exists(sp) and open(sp).read() == stamp:
        return exe
    with CoqLock():
        open(main, "w").write(main_txt)
        rc, out = sh(["ocamlfind", "ocamlopt", "-O3", "-w", "-a", "-package", "str", "main.ml", "-o", "modelrun"],
                     timeout, cwd=d)
        if rc != 0:
            rc, out = sh(["ocamlfind", "ocamlopt", "-w", "-a", "main.ml", "-o", "modelrun"], timeout, cwd=d)
        if rc != 0:
            raise Infra("ocaml build failed for %s:\n%s" % (pid, out[-3000:]))
        open(sp, "w").write(stamp)
    return exe


def run_model(exe, lines, timeout=1800):
    """one request per line -> one reply per line (list of token lists)"""
    inp = "\n".join(lines) + "\n"
    env = dict(os.environ)
    rc, out = sh("ulimit -s unlimited 2>/dev/null; exec %s" % exe, timeout, inp=inp, env=env)
    rows = out.split("\n")
    if rows and rows[-1] == "":
        rows.pop()
    if rc != 0 or len(rows) != len(lines):
        raise Infra("modelrun rc=%s, %d replies for %d requests: %s" % (rc, len(rows), len(lines), out[-500:]))
    return [r.split() for r in rows]


# ---------------------------------------------------------------------------------------
# implementation side
# ---------------------------------------------------------------------------------------

_tree_hash = None


def tree_hash():
    global _tree_hash
    if _tree_hash is None:
        h = hashlib.sha256()
        root = os.path.join(REPO, "src")
        for dp, dn, fn in sorted(os.walk(root)):
            dn.sort()
            for f in sorted(fn):
                if f.endswith(".py"):
                    p = os.path.join(dp, f)
                    h.update(p.encode()); h.update(open(p, "rb").read())
        _tree_hash = h.hexdigest()[:16]
    return _tree_hash


def impl_env(extra=None):
    env = dict(os.environ)
    nd = os.path.join(BUILD, "numba", tree_hash())
    # keep at most the current and two older numba caches (disk)
    base = os.path.join(BUILD, "numba")
    os.makedirs(nd, exist_ok=True)
    try:
        olds = sorted((os.path.getmtime(os.path.join(base, x)), x) for x in os.listdir(base) if x != tree_hash())
        for _, x in olds[:-2]:
            subprocess.run(["rm", "-rf", os.path.join(base, x)])
    except OSError:
        pass
    env.update({
        "PYTHONPATH": os.path.join(REPO, "src") + os.pathsep + os.path.join(VERIF, "harness"),
        "PYTHONHASHSEED": "0",
        "PYTHONDONTWRITEBYTECODE": "1",
        "NUMBA_CACHE_DIR": nd,
        "NUMBA_NUM_THREADS": "4",
        "OMP_NUM_THREADS": "4",
        "OPENBLAS_NUM_THREADS": "4",
        "TZ": "VRF+03:30",
        GUARD: "1",
        "PIP_NO_INDEX": "1",
    })
    if extra:
        env.update(extra)
    return env


def run_impl(script, payload, timeout=3000, extra_env=None):
    """Run harness/impl/<script> inside /venv python against /repo; JSON in, JSON out.
    The script must print exactly one line starting with '@@JSON ' (anything else is ignored)."""
    path = os.path.join(VERIF, "harness", "impl", script)
    rc, out = sh([PY, path], timeout, inp=json.dumps(payload), env=impl_env(extra_env), cwd=BUILD)
    for line in out.split("\n"):
        if line.startswith("@@JSON "):
            return json.loads(line[7:])
    raise ImplCrash(rc, out)


class ImplCrash(Exception):
    def __init__(self, rc, out):
        super().__init__("implementation runner failed rc=%s\n%s" % (rc, out[-4000:]))
        self.rc = rc
        self.out = out


# ---------------------------------------------------------------------------------------
# numbers
# ---------------------------------------------------------------------------------------

def fx(x):
    """float -> token"""
    x = float(x)
    if math.isnan(x):
        return "nan"
    if math.isinf(x):
        return "inf" if x > 0 else "-inf"
    return x.hex()


def unfx(t):
    if t in ("nan", "-nan"):
        return float("nan")
    if t in ("inf", "infinity"):
        return float("inf")
    if t in ("-inf", "-infinity"):
        return float("-inf")
    return float.fromhex(t)


def flist(xs):
    xs = list(xs)
    return "%d %s" % (len(xs), " ".join(fx(x) for x in xs)) if xs else "0"


def close(a, b, rtol=1e-9, atol=0.0, scale=None):
    """condition-aware closeness; NaN matches NaN, inf matches inf"""
    a = float(a); b = float(b)
    if math.isnan(a) or math.isnan(b):
        return math.isnan(a) and math.isnan(b)
    if math.isinf(a) or math.isinf(b):
        return a == b
    s = max(abs(a), abs(b)) if scale is None else max(abs(scale), abs(a), abs(b))
    return abs(a - b) <= rtol * s + atol


def dyadic(rng, lo, hi, bits=20):
    """a float in [lo,hi] with few mantissa bits (exactly representable, products stay accurate)"""
    x = rng.uniform(lo, hi)
    if x == 0.0:
        return 0.0
    m, e = math.frexp(x)
    m = round(m * (1 << bits)) / (1 << bits)
    return math.ldexp(m, e)


# ---------------------------------------------------------------------------------------
# the context handed to a property module
# ---------------------------------------------------------------------------------------

def ast_fingerprint(path):
    """hash of the AST of a source file (comments, docstrings and formatting do not count)"""
    import ast
    try:
        tree = ast.parse(open(path).read())
    except Exception:
        return "unparsable"
    for node in ast.walk(tree):
        if isinstance(node, (ast.FunctionDef, ast.ClassDef, ast.Module, ast.AsyncFunctionDef)):
            b = node.body
            if b and isinstance(b[0], ast.Expr) and isinstance(getattr(b[0], "value", None), ast.Constant) \
                    and isinstance(b[0].value.value, str):
                node.body = b[1:] or [ast.Pass()]
    return hashlib.sha256(ast.dump(tree).encode()).hexdigest()[:20]


def anchors_for(pid, mod):
    """source files a property's model mirrors: the module's ANCHORS, else anchors.files of properties.jsonl"""
    a = getattr(mod, "ANCHORS", None)
    if a:
        return list(a)
    try:
        for line in open(os.path.join(VERIF, "properties.jsonl")):
            p = json.loads(line)
            if p["id"] == pid:
                return [f for f in p["anchors"]["files"] if f.endswith(".py")]
    except Exception:
        pass
    return []


def changed_anchor_files(anchors):
    """anchored source files whose AST differs from the one the model was last validated against
    (harness/fingerprints.json, regenerated with harness/fingerprint.py after every accepted change of /repo)"""
    fp = os.path.join(VERIF, "harness", "fingerprints.json")
    known = json.load(open(fp)) if os.path.exists(fp) else {}
    out = []
    for rel in import_closure(anchors):
        p = os.path.join(REPO, rel)
        cur = ast_fingerprint(p) if os.path.exists(p) else "missing"
        if rel in known and known.get(rel) != cur:
            out.append(rel)
        elif rel not in known and rel in anchors:
            out.append(rel)
    return out


def import_closure(anchors):
    """the anchored files and every module of the package they import, transitively (static `import` / `from ... import`
    statements): a change in a helper, a constant or a constructor that the anchored code depends on deepens the search
    just like a change in the anchored file itself"""
    import ast as _ast
    pkg = "ocean_science_utilities"
    src = os.path.join(REPO, "src")
    seen, todo = [], list(anchors)
    while todo:
        rel = todo.pop()
        if rel in seen:
            continue
        seen.append(rel)
        p = os.path.join(REPO, rel)
        try:
            tree = _ast.parse(open(p).read())
        except (OSError, SyntaxError):
            continue
        mods = []
        for node in _ast.walk(tree):
            if isinstance(node, _ast.ImportFrom) and node.module and node.level == 0 and node.module.startswith(pkg):
                mods.append(node.module)
                mods += [node.module + "." + a.name for a in node.names]
            elif isinstance(node, _ast.Import):
                mods += [a.name for a in node.names if a.name.startswith(pkg)]
        for m in mods:
            base = os.path.join(src, *m.split("."))
            for cand in (base + ".py", os.path.join(base, "__init__.py")):
                if os.path.exists(cand):
                    r = os.path.relpath(cand, REPO)
                    if r not in seen:
                        todo.append(r)
    # ... and the modules that import an anchored module directly (implementations of an anchored base class, such as
    # the ST4 / ST6 source terms of balance/generation.py and dissipation.py, are reached through a factory)
    anchor_mods = set()
    for rel in anchors:
        if rel.startswith("src/") and rel.endswith(".py"):
            anchor_mods.add(rel[4:-3].replace("/", "."))
    for root, _dirs, files in os.walk(os.path.join(src, pkg)):
        for fn in files:
            if not fn.endswith(".py"):
                continue
            cand = os.path.join(root, fn)
            r = os.path.relpath(cand, REPO)
            if r in seen:
                continue
            try:
                tree = _ast.parse(open(cand).read())
            except (OSError, SyntaxError):
                continue
            for node in _ast.walk(tree):
                if isinstance(node, _ast.ImportFrom) and node.module in anchor_mods:
                    seen.append(r)
                    break
    return seen


class Ctx:
    def __init__(self, pid, tier, seed):
        self.pid = pid
        self.tier = tier
        self.seed = seed
        self.rng = random.Random(seed * 1000003 + int(hashlib.md5(pid.encode()).hexdigest()[:6], 16))
        self.t0 = time.time()
        self.evaluations = 0
        self.nontrivial_keys = set()
        self.samples = []
        self.distribution = {}
        self.violations = []       # dicts: kind, desc, replay(obj), key
        self.notes = []
        self.assumptions = []
        self.rule = ""
        self.extra = {}
        self.proof_broken = None   # text when a proof obligation / build failed
        self.exe = None
        self.driver_pid = pid      # a property may reuse another property's extracted driver
        self.boost = 1             # >1 when an anchored source file changed: the quick tier digs deeper

    # -- bookkeeping
    def quick(self):
        return self.tier == "quick"

    def n(self, quick, thorough):
        """case count for this tier.  When an anchored source file differs from the fingerprint the
        model was validated against, the quick tier explores `boost` times more (never more than
        thorough): a changed function is exactly where a disagreement is to be searched for."""
        if self.tier != "quick":
            return thorough
        if self.boost > 1 and isinstance(quick, int) and isinstance(thorough, int) and thorough > quick:
            return min(thorough, quick * self.boost)
        return quick

    def count(self, key, nontrivial=True):
        self.evaluations += 1
        if nontrivial:
            self.nontrivial_keys.add(key if isinstance(key, (str, int)) else json.dumps(key, sort_keys=True, default=str))

    def tally(self, name, k=1):
        self.distribution[name] = self.distribution.get(name, 0) + k

    def sample(self, obj, limit=4):
        if len(self.samples) < limit:
            self.samples.append(obj)

    def model(self, lines, timeout=1800):
        if self.exe is None:
            self.exe = build_driver(self.driver_pid)
        return run_model(self.exe, lines, timeout)

    def impl(self, script, payload, timeout=3000, extra_env=None):
        res = run_impl(script, payload, timeout, extra_env)
        if isinstance(res, dict) and res.get("label_problems"):
            # implcommon.audit: a labelled result whose dimensions / coordinate values are not those of its input
            seen = set()
            for lp in res["label_problems"]:
                sig = (lp.get("what"), lp.get("problem", "")[:40])
                if sig in seen:
                    continue
                seen.add(sig)
                self.tally("label-audit-failure:" + str(lp.get("what")))
                self.oracle_fail("%s: %s (each value must stay attached to its point / frequency / direction / time)"
                                 % (lp.get("what"), lp.get("problem")), {"call": lp.get("call"), "result": lp.get("what"),
                                                                          "label_problem": lp.get("problem")})
        return res

    # -- reporting
    def disagree(self, desc, replay, key=None, is_property_failure=False):
        """model and implementation differ on `replay`.
        is_property_failure=True when the model IS the defining formula of the property, so
        the disagreeing input is itself the failing input."""
        self.violations.append({"kind": "correspondence", "desc": desc, "replay": replay,
                                "key": key, "failing_input": bool(is_property_failure)})

    def oracle_fail(self, desc, replay, key=None):
        """the property's own statement evaluated on the implementation is false on `replay`"""
        self.violations.append({"kind": "oracle", "desc": desc, "replay": replay,
                                "key": key, "failing_input": True})
