"""merge seedtest.py output (JSON blocks on stdin) into seeded/<id>/meta.json and seeded/RESULTS.json"""
import json, os, re, sys
VERIF = os.path.dirname(os.path.dirname(os.path.abspath(__file__)))
txt = sys.stdin.read()
resp = os.path.join(VERIF, "seeded", "RESULTS.json")
res = json.load(open(resp)) if os.path.exists(resp) else {}
for blk in re.findall(r'\{\n "seed".*?\n\}\n', txt, re.S):
    d = json.loads(blk)
    sid = d["seed"]
    mp = os.path.join(VERIF, "seeded", sid, "meta.json")
    meta = json.load(open(mp)) if os.path.exists(mp) else {}
    if isinstance(meta, list):
        meta = {"entries": meta}
    meta["confirmed"] = {
        "how": "harness/seedtest.py: fresh scratch worktree of /repo HEAD; demo.py without the patch, git apply patch.diff, demo.py with the patch, then ./check <id> with VERIF_REPO pointing at the patched worktree; worktree removed afterwards",
        "demo_exit_on_head": d["demo_on_head"], "demo_exit_with_patch": d["demo_with_patch"],
        "checks": {k[6:]: v for k, v in d.items() if k.startswith("check_")},
    }
    json.dump(meta, open(mp, "w"), indent=1)
    res[sid] = {"demo_on_head": d["demo_on_head"], "demo_with_patch": d["demo_with_patch"],
                "caught_by": [k[6:] for k, v in d.items() if k.startswith("check_") and v["exit"] == 1],
                "not_caught_by": [k[6:] for k, v in d.items() if k.startswith("check_") and v["exit"] == 0],
                "first_report": next((v.get("what", "")[:300] for k, v in d.items() if k.startswith("check_") and v["exit"] == 1), "")}
json.dump(res, open(resp, "w"), indent=1)
print(json.dumps({k: v["caught_by"] for k, v in res.items()}))
