"""Confirm a seeded change and run the checks against it, in a scratch worktree (never in /repo).
usage: /venv/bin/python harness/seedtest.py <seeded-dir> <PID> [<PID>...]
prints: demo on HEAD / demo with patch / exit code and VIOLATION lines of each check"""
import json
import os
import subprocess
import sys
import tempfile

VERIF = os.path.dirname(os.path.dirname(os.path.abspath(__file__)))
d = os.path.abspath(sys.argv[1])
pids = sys.argv[2:]
_before = set(os.listdir(os.path.join(VERIF, "replays"))) if os.path.isdir(os.path.join(VERIF, "replays")) else set()
wt = tempfile.mkdtemp(prefix="wt_seed_", dir="/tmp")
os.rmdir(wt)
out = {"seed": os.path.basename(d)}


def run(cmd, env=None, cwd=None, timeout=3000):
    p = subprocess.run(cmd, shell=True, cwd=cwd, env=env, stdout=subprocess.PIPE, stderr=subprocess.STDOUT, text=True, timeout=timeout)
    return p.returncode, p.stdout


try:
    subprocess.check_call(["git", "-C", "/repo", "worktree", "add", "-q", wt, "HEAD"])
    env = dict(os.environ, PYTHONPATH=wt + "/src", NUMBA_CACHE_DIR=wt + "/_nb", PYTHONDONTWRITEBYTECODE="1")
    demo = os.path.join(d, "demo.py")
    rc0, o0 = run("/venv/bin/python %s" % demo, env=env, cwd=wt)
    out["demo_on_head"] = rc0
    rc, o = run("git apply %s" % os.path.join(d, "patch.diff"), cwd=wt)
    if rc != 0:
        rc, o = run("git apply -3 %s || patch -p1 < %s" % (os.path.join(d, "patch.diff"), os.path.join(d, "patch.diff")), cwd=wt)
    out["patch_applied"] = rc == 0
    subprocess.run(["rm", "-rf", wt + "/_nb"])
    rc1, o1 = run("/venv/bin/python %s" % demo, env=env, cwd=wt)
    out["demo_with_patch"] = rc1
    out["demo_tail"] = o1[-300:]
    for pid in pids:
        e2 = dict(os.environ, VERIF_REPO=wt)
        rc2, o2 = run("./check %s" % pid, env=e2, cwd=VERIF)
        lines = [l for l in o2.split("\n") if l.startswith(("VIOLATION", "KNOWN", "INFRA", pid))]
        out["check_" + pid] = {"exit": rc2, "lines": lines[-4:]}
        for l in lines:
            if l.startswith("VIOLATION"):
                rp = l.split("replay=")[1].split()[0]
                try:
                    r = json.load(open(rp))
                    out["check_" + pid]["what"] = (r.get("what") or json.dumps(r.get("no_longer_checks"))[:400])[:400]
                except Exception:
                    pass
                break
finally:
    subprocess.run(["git", "-C", "/repo", "worktree", "remove", "--force", wt])
    # remove only the replay files this run produced (other checks may be running)
    rd = os.path.join(VERIF, "replays")
    if os.path.isdir(rd):
        for f in set(os.listdir(rd)) - _before:
            if any(f.startswith(p + "_") for p in pids):
                try:
                    os.remove(os.path.join(rd, f))
                except OSError:
                    pass
print(json.dumps(out, indent=1))
